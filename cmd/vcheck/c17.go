package main

import (
	"encoding/json"
	"fmt"
	"reflect"
	"strconv"
	"strings"
	"time"

	"github.com/GuanceCloud/platypus/pkg/errchain"
	"github.com/GuanceCloud/platypus/pkg/token"

	"verif/internal/drive"
	"verif/internal/gen"
	"verif/internal/gt"
	"verif/internal/mon"
	"verif/internal/ref"
)

// C17: every reported position designates the right place in the source.

type c17 struct{}

func init() {
	register(c17{})
	mon.Assumptions["C17"] = []string{
		"the generator's printer records the byte offset of every token it emits; a stored position must equal the offset of its own token",
		"the derived StartPos() of a node is only required to lie inside the node's span (for a slice it is the bracket: a choice, not a defect)",
		"run-time error positions are compared with the span of the statement that contains the node the reference interpreter faults at",
	}
}

func (c17) ID() string { return "C17" }
func (c17) Rule() string {
	return "tree-positions: seeded programs over every syntactic form printed with multi-line layouts and multi-byte runes; every position field of the parsed tree must equal the offset of its token, its line/column must be the 1-based line / byte column of that offset, StartPos() must lie inside the node; lookup (exhaustive): every text over {a, newline, e-acute} up to the tier's length x every offset through token.LnCol and PosCache.LnCol against a 5-line reference; error-positions: seeded programs with injected run-time faults (boom(), type errors, zero division, bad index, bad iterable) - the error names the script and a position inside the faulting statement; rendering: chains of 1..4 positions through Error(), JSON round trip and Copy+ChainAppend. Non-trivial = a (node kind, position field) cell was compared, or an error position was checked. Distinct = distinct source texts / chains."
}

func c17TextLen(tier string) int {
	if tier == "thorough" {
		return 10
	}
	return 6
}

func (c17) Plan(tier string, seed int64) []mon.Workload {
	a, b := int64(4000), int64(3000)
	if tier == "thorough" {
		a, b = 150000, 80000
	}
	return []mon.Workload{
		{Name: "tree-positions", N: a},
		{Name: "big-positions", N: int64(len(c17BigKinds) * len(c17BigSizes)), Exhaustive: true},
		{Name: "lookup", N: seqCount(3, c17TextLen(tier)), Exhaustive: true},
		{Name: "error-positions", N: b},
		{Name: "rendering", N: 2000},
		{Name: "expression-errors", N: int64(len(c17ErrExprs) * len(c17ErrCtx)), Exhaustive: true},
		{Name: "link-errors", N: b / 3},
		{Name: "load-faults", N: int64(len(c17LoadFaults) * len(c17LoadCtx)), Exhaustive: true},
		{Name: "use-chains", N: int64(len(c17ChainFaults) * len(c17ChainDepths) * len(c17ChainWraps)), Exhaustive: true},
	}
}

var c17Alpha = []string{"a", "\n", "é"}

// expression-errors: every kind of run-time fault an expression can raise,
// in every statement context, with layouts that put the faulting
// sub-expression on its own line. l = [1, 2, 3], s = "text", m = {"k": 1},
// b = true, f = 1.5, n = nil, z = 0.
var c17ErrExprs = []string{
	"l[:b]", "l[b:]", "l[::b]", "l[1:f]", "l[f:2]", "l[0:2:s]", "l[::z]", "s[:b]", "s[b:2:1]", "s[::f]", "n[0:1]", "b[:]", "m[1:2]",
	"l[5]", "l[-4]", "l[s]", "l[f]", "m[1]", "m[\"k\"][0]", "s[0]", "n[0]", "l[0][0]", "l[b]",
	"1 / z", "7 % z", "f % 2", "s - 1", "s + 1", "l + l", "n * 2", "-s", "-l", "+n", "s < 1", "l >= m", "1 && b", "s || b", "n && b",
	"1 in 5", "1 in s", "b in m", "boom()", "len(boom())", "[1, boom()]", "{\"k\": boom()}", "{f: 1}", "l[boom()]", "l[1:boom()]",
}
var c17ErrCtx = []string{"x = %s", "p(%s)", "if %s {\n  p(1)\n}", "for e in %s {\n  p(e)\n}", "for i = 0; %s; i = i + 1 {\n  break\n}", "x = [0, %s]",
	"x = 1 +\n   (%s)", "if true {\n  for j = 0; j < 1; j = j + 1 {\n    y = %s\n  }\n}", "add_key(k, %s)", "l[0] = %s", "x = 0\nx += %s", "p(1,\n  %s)"}

func c17ErrProgram(i int64) progCase {
	e := c17ErrExprs[int(i)/len(c17ErrCtx)]
	ctx := c17ErrCtx[int(i)%len(c17ErrCtx)]
	text := "l = [1, 2, 3]\ns = \"text\"\nm = {\"k\": 1}\nb = true\nf = 1.5\nn = nil\nz = 0\n# héllo 世界\n" + strings.ReplaceAll(ctx, "%s", e) + "\np(\"after\")\n"
	o := drive.Parse("errexpr", text)
	if o.Err != nil {
		return progCase{Src: ""} // a literal zero divisor etc. is rejected by the parser
	}
	l, err := gt.FromStmts(o.Stmts)
	if err != nil {
		panic(err)
	}
	stmts := gt.CloneStmts(l)
	lay := &gt.Layout{R: gen.Rand(i*31 + 7), Breaks: i%2 == 0, Multibyte: true}
	if i%3 == 0 {
		lay = nil
	}
	pc := progCase{Stmts: stmts, Src: gt.Print(stmts, lay)}
	pc.Points = []*ref.Point{ref.NewPoint("m", nil, map[string]any{"message": "msg"}, time.Unix(1700000000, 0))}
	return pc
}

func (k c17) Describe(c *mon.Ctx, workload string, i int64) any {
	switch workload {
	case "tree-positions":
		stmts, lay := k.treeCase(c)
		return map[string]any{"source": gt.Print(stmts, lay)}
	case "error-positions":
		pc := k.errCase(c)
		return map[string]any{"source": pc.Src}
	case "lookup":
		return map[string]any{"text": fmt.Sprintf("%q", k.lookupText(c, i))}
	case "load-faults":
		src, from, to := c17LoadFault(i)
		return map[string]any{"source": src, "fault_region": []int{from, to}}
	}
	return nil
}

func (c17) lookupText(c *mon.Ctx, i int64) string {
	var sb strings.Builder
	for _, s := range decodeSeq(i, 3, c17TextLen(c.Tier)) {
		sb.WriteString(c17Alpha[s])
	}
	return sb.String()
}

func (c17) treeCase(c *mon.Ctx) ([]*gt.T, *gt.Layout) {
	s := gen.NewSyntax(c.R)
	stmts := gt.ParenthesizeStmts(s.Program(4, 2, 3))
	// some non-negative numeric literals are spelled with a unary plus, glued
	// or spaced (`+19`, `+ 19`, `+2.5`): the literal then starts at its sign
	gt.WalkStmts(stmts, func(t *gt.T) {
		if t.Spell != "" || c.R.Intn(4) != 0 {
			return
		}
		gap := []string{"", "", " ", "  "}[c.R.Intn(4)]
		switch {
		case t.K == gt.KInt && t.I >= 0:
			t.Spell = "+" + gap + strconv.FormatInt(t.I, 10)
		case t.K == gt.KFloat && t.F >= 0 && t.F < 1e15 && t.F == t.F:
			f := strconv.FormatFloat(t.F, 'f', -1, 64)
			if !strings.Contains(f, ".") {
				f += ".0"
			}
			t.Spell = "+" + gap + f
		}
	})
	var lay *gt.Layout
	if c.R.Intn(5) != 0 {
		lay = &gt.Layout{R: c.Sub("lay"), Breaks: true, Extended: c.R.Intn(2) == 0, Multibyte: true}
	}
	return stmts, lay
}

func (c17) errCase(c *mon.Ctx) progCase {
	g := gen.NewProg(c.R)
	g.Boom = true
	g.IllTyped = 15
	g.Unbound = 12
	g.Containers = true
	g.PointKeys = []string{"f1", "message"}
	g.MaxDepth = 2 + c.R.Intn(2)
	g.Names = []string{"a", "b", "c", "naïve"}
	stmts := gt.ParenthesizeStmts(g.Program())
	lay := &gt.Layout{R: c.Sub("lay"), Breaks: c.R.Intn(3) != 0, Multibyte: true}
	pc := progCase{Stmts: stmts, Src: gt.Print(stmts, lay)}
	pc.Points = []*ref.Point{gen.ModelPoint(c.Sub("pt"), []string{"f1", "message"}, []string{"t1"})}
	return pc
}

// load-faults (exhaustive): one statement that cannot be loaded - rejected by
// the parser (zero divisors at any nesting, malformed numbers and escapes,
// missing operands and brackets) or by the check pass (unknown function,
// wrong argument shapes, unknown pattern, break outside a loop, missing use
// target) - among valid statements, at top level and inside blocks, after
// multi-byte text: the load error names the script and a position that lies
// inside the source and inside the statement at fault (the parser may only
// notice at the token that follows it).
var c17LoadFaults = []string{
	"x = 4 / 0", "x = 7 % 0", "x = 2 % 0.0", "b = 8 / (4 / 0)", "a = 1 % ((2 % 0))", "x = (4 / 0)", "x = -(1 / 0)", "x = [1 / 0]", "f(k = 3 % 0)", "x = 1 / (0x)",
	"x = 0x", "x = 1e", "x = \"\\X41\"", "x = 'a\\qb'", "x = = 1", "x = (1", "x = [1, 2", "x = {\"a\" 1}", "x = 1 2", "if { }", "x = 3 / (2 % (1 / 0))",
	"x = 5 % (0x / 2)", "x = 1 / -(1 % 0)", "x = 6 / [1 / 0][0]", "x = 6 % len(1 / 0)",
	"nosuch_function()", "add_key()", "grok(_, \"%{NOSUCH:x}\")", "break", "continue", "cast(x, \"nosuchtype\")", "use(\"missing.p\")", "rename(a)", "x = len(nosuch_function())",
	"if nosuch_function() {\n}", "x = [1, nosuch_function()]", "add_key(k, nosuch_function())", "for e in nosuch_function() {\n}", "x = 1 + (2 * nosuch_function())",
}
var c17LoadCtx = []string{"F\n", "y = 1\nF\nz = 2\n", "# héllo 世界\ny = \"é\"\nF\n", "if true {\n  F\n}\nz = 2\n", "y = 1\nfor e in [1] {\n  if e == 1 {\n    F\n  }\n}\n", "y = 1\n\n\n   F", "a = 1; F\nz = 3\n",
	"ml = \"\"\"one\ntwo\n\"\"\"\nF\n", "`q\nr` = 1\nml = '''é\n\n世'''; F\nz = 1\n"}

func c17LoadFault(i int64) (src string, from, to int) {
	ctx := c17LoadCtx[int(i)%len(c17LoadCtx)]
	f := c17LoadFaults[int(i)/len(c17LoadCtx)]
	from = strings.Index(ctx, "F")
	src = ctx[:from] + f + ctx[from+1:]
	// the region ends after the first token that follows the statement
	to = from + len(f)
	rest := src[to:]
	k := 0
	for k < len(rest) && strings.IndexByte(" \t\n;", rest[k]) >= 0 {
		k++
	}
	for k < len(rest) && strings.IndexByte(" \t\n;", rest[k]) < 0 {
		k++
	}
	return src, from, to + k
}

func (k c17) runLoadFault(c *mon.Ctx, i int64) {
	src, from, to := c17LoadFault(i)
	const name = "c17.p"
	info := map[string]any{"source": src}
	var err error
	var pan any
	func() {
		defer func() { pan = recover() }()
		_, err = drive.LoadV1One(name, src)
	}()
	c.Eval(1)
	if pan != nil {
		c.Violate("load-panic", fmt.Sprintf("loading panicked: %v\n%s", pan, src), info)
		return
	}
	if err == nil {
		c.Count("load_fault_accepted", 1) // which faults are rejected is C06/C08's business
		return
	}
	c.Nontrivial(src)
	c.Count("load_errors_checked", 1)
	pe, ok := err.(*errchain.PlError)
	if !ok || pe == nil || len(pe.PosChain) == 0 {
		c.Violate("load-error-without-position", fmt.Sprintf("the load error is %T %q: it carries neither the script name nor a position\n%s", err, err, src), info)
		return
	}
	p := pe.PosChain[0]
	if d := drive.CheckPosition(p, name, src); d != "" {
		c.Violate("load-error-position-invalid", fmt.Sprintf("error %q: %s\n%s", pe.Error(), d, src), info)
		return
	}
	if p.Pos < from || p.Pos > to {
		c.Violate("load-error-outside-faulting-statement", fmt.Sprintf("error %q is reported at %d:%d (offset %d); the statement at fault (and the token after it) occupies bytes [%d,%d]\n--- source\n%s",
			pe.Error(), p.Ln, p.Col, p.Pos, from, to, src), info)
	}
}

// use-chains (exhaustive): a run-time fault in a script reached through 1..3
// use() calls (at top level, in a branch, in a loop), the same loaded set run
// three times: the error chain of EVERY run is the fault (inside the faulting
// statement of the innermost script) followed by exactly one entry per use()
// call site, innermost first, each inside its use() statement - a chain does
// not remember earlier runs.
var c17ChainFaults = []string{"boom()", "x = 1 / zero", "replace(message, \"a(b\", \"x\")", "datetime(ts3, \"s\", \"no-such-layout\")",
	"add_key(k2, replace(message, \"a(b\", \"x\"))", "y = w[5]", "add_key(k2, boom())", "z = mm[\"a\"][\"b\"]"}

// short chains, and chains around every power of two up to 128 (a chain is
// as long as the path that leads to the fault, however long that is)
var c17ChainDepths = []int{1, 2, 3, 7, 8, 9, 15, 16, 17, 31, 32, 33, 63, 64, 65, 127, 128, 129}
var c17ChainWraps = [][2]string{{"", "\n"}, {"if true {\n  ", "\n}\n"}, {"for e in [1] {\n    ", "\n}\n"}}

func (k c17) runUseChain(c *mon.Ctx, i int64) {
	wrap := c17ChainWraps[int(i)%len(c17ChainWraps)]
	i /= int64(len(c17ChainWraps))
	depth := c17ChainDepths[int(i)%len(c17ChainDepths)]
	fault := c17ChainFaults[int(i)/len(c17ChainDepths)]
	srcs := map[string]string{}
	type span struct{ from, to int }
	spans := make([]span, depth+1)
	name := func(l int) string { return fmt.Sprintf("s%d.p", l) }
	for l := 0; l < depth; l++ {
		pre := fmt.Sprintf("# level %d héllo\nadd_key(l%d, 1)\n", l, l) + wrap[0]
		call := fmt.Sprintf("use(\"%s\")", name(l+1))
		spans[l] = span{len(pre), len(pre) + len(call)}
		srcs[name(l)] = pre + call + wrap[1]
	}
	pre := "zero = 0\nadd_key(ts3, 1700000000)\nw = [1]\nmm = {\"a\": 1}\n"
	spans[depth] = span{len(pre), len(pre) + len(fault)}
	srcs[name(depth)] = pre + fault + "\nadd_key(after, 1)\n"
	info := map[string]any{"scripts": srcs}
	loaded, errs := drive.LoadV1(srcs)
	c.Eval(1)
	if len(errs) != 0 {
		c.Violate("valid-set-rejected", fmt.Sprintf("%v\n%s", errs, srcDump(srcs)), info)
		return
	}
	first := ""
	for run := 0; run < 3; run++ {
		pt := drive.PointFromModel(ref.NewPoint("m", nil, map[string]any{"message": "msg"}, time.Unix(1700000000, 0)))
		ro := drive.RunV1(loaded[name(0)], pt, &drive.RunState{Budget: 100000})
		c.Eval(1)
		if ro.Panic != nil {
			c.Violate("run-panic", fmt.Sprintf("%v\n%s", ro.Panic, srcDump(srcs)), info)
			return
		}
		if ro.Err == nil {
			c.Count("use_chain_fault_did_not_fail", 1)
			return
		}
		c.Nontrivial(fmt.Sprint(fault, depth, wrap[0]))
		chain := ro.Err.PosChain
		text := ro.Err.Error()
		if run == 0 {
			first = text
		} else if text != first {
			c.Violate("error-chain-depends-on-earlier-runs", fmt.Sprintf("run %d of the same loaded scripts reports\n%s\nrun 1 reported\n%s\n%s", run+1, text, first, srcDump(srcs)), info)
			return
		}
		// entries inside the faulting statement, then one per use() level
		j := 0
		for j < len(chain) && chain[j].File == name(depth) {
			if d := drive.CheckPosition(chain[j], name(depth), srcs[name(depth)]); d != "" {
				c.Violate("error-position-invalid", fmt.Sprintf("entry %d: %s\n%s\n%s", j, d, text, srcDump(srcs)), info)
				return
			}
			if chain[j].Pos < spans[depth].from || chain[j].Pos >= spans[depth].to {
				c.Violate("error-outside-faulting-statement", fmt.Sprintf("entry %d (offset %d) is outside the faulting statement [%d,%d) of %s\n%s\n%s", j, chain[j].Pos, spans[depth].from, spans[depth].to, name(depth), text, srcDump(srcs)), info)
				return
			}
			j++
		}
		if j == 0 {
			c.Violate("error-chain-wrong", fmt.Sprintf("the chain does not start in the faulting script %s\n%s\n%s", name(depth), text, srcDump(srcs)), info)
			return
		}
		if len(chain)-j != depth {
			c.Violate("error-chain-wrong", fmt.Sprintf("%d use() levels but %d outer call-site entries\n%s\n%s", depth, len(chain)-j, text, srcDump(srcs)), info)
			return
		}
		for l := depth - 1; l >= 0; l-- {
			e := chain[j]
			j++
			if e.File != name(l) || e.Pos < spans[l].from || e.Pos >= spans[l].to {
				c.Violate("error-chain-wrong", fmt.Sprintf("the call-site entry for level %d is %s offset %d; the use() call of %s occupies [%d,%d)\n%s\n%s", l, e.File, e.Pos, name(l), spans[l].from, spans[l].to, text, srcDump(srcs)), info)
				return
			}
			if d := drive.CheckPosition(e, name(l), srcs[name(l)]); d != "" {
				c.Violate("error-position-invalid", fmt.Sprintf("call-site entry of level %d: %s\n%s", l, d, text), info)
				return
			}
		}
		c.Count("use_chains_checked", 1)
	}
	if fault != c17ChainFaults[0] {
		return
	}
	// the same chain with a LOAD-time fault at its end (a use() of a script
	// that is not in the set): every script of the chain is rejected, and the
	// error of level l is the missing call followed by one entry per use()
	// call site between it and l, innermost first
	missing := "use(\"not-in-the-set.p\")"
	pre = "zero = 0\n"
	spans[depth] = span{len(pre), len(pre) + len(missing)}
	srcs[name(depth)] = pre + missing + "\nadd_key(after, 1)\n"
	_, errs = drive.LoadV1(srcs)
	c.Eval(1)
	for _, l := range []int{0, depth / 2, depth} {
		err := errs[name(l)]
		pe, ok := err.(*errchain.PlError)
		if err == nil || !ok || pe == nil {
			c.Violate("link-error-chain-wrong", fmt.Sprintf("%s reaches a missing script through %d use() calls; its load error is %T %v\n%s", name(l), depth-l, err, err, firstN(srcDump(srcs), 30)), info)
			return
		}
		chain := pe.PosChain
		if len(chain) != depth-l+1 {
			c.Violate("link-error-chain-wrong", fmt.Sprintf("%s reaches the missing script through %d use() calls, so its error has %d positions; the chain has %d\n%s", name(l), depth-l, depth-l+1, len(chain), firstN(pe.Error(), 12)), info)
			return
		}
		for j, e := range chain {
			lv := depth - j
			if e.File != name(lv) || e.Pos < spans[lv].from || e.Pos >= spans[lv].to {
				c.Violate("link-error-chain-wrong", fmt.Sprintf("error of %s, entry %d is %s offset %d; expected the use() call of %s at [%d,%d)\n%s", name(l), j, e.File, e.Pos, name(lv), spans[lv].from, spans[lv].to, firstN(pe.Error(), 12)), info)
				return
			}
			if d := drive.CheckPosition(e, name(lv), srcs[name(lv)]); d != "" {
				c.Violate("error-position-invalid", fmt.Sprintf("link error of %s, entry %d: %s", name(l), j, d), info)
				return
			}
		}
		c.Count("long_link_chains_checked", 1)
	}
}

func (k c17) Run(c *mon.Ctx, workload string, i int64) {
	switch workload {
	case "use-chains":
		k.runUseChain(c, i)
	case "load-faults":
		k.runLoadFault(c, i)
	case "tree-positions":
		k.runTree(c)
	case "big-positions":
		k.runBig(c, i)
	case "lookup":
		k.runLookup(c, k.lookupText(c, i))
	case "error-positions":
		k.runErr(c, k.errCase(c))
	case "expression-errors":
		if pc := c17ErrProgram(i); pc.Src != "" {
			k.runErr(c, pc)
		}
	case "rendering":
		k.runRender(c)
	case "link-errors":
		k.runLink(c)
	}
}

// runLink: load-time errors of the use() linker (missing / broken / cyclic
// callees at any depth, use calls in every syntactic place and at distinct
// offsets): every position of every chain names a script of the set, lies
// inside its text with the right line/column, and - for a script that is
// itself well-formed - every entry is exactly the offset of one of the use()
// calls written in the script it names (the statement at fault), innermost
// first. The script sets are those of C09.
func (k c17) runLink(c *mon.Ctx) {
	k9 := c09{}
	wl := "n4-random"
	if c.R.Intn(3) == 0 {
		wl = "n3-random"
	}
	cfg := k9.config(c, wl, 0)
	srcs := map[string]string{}
	calls := map[string][]c09Call{}
	names := make([]string, cfg.N)
	for s := 0; s < cfg.N; s++ {
		names[s] = c09Name(s)
		srcs[names[s]], calls[names[s]] = c09Source(cfg, s)
	}
	info := map[string]any{"configuration": cfg.String(), "scripts": srcs}
	var errs map[string]error
	var pan any
	func() {
		defer func() { pan = recover() }()
		_, errs = drive.LoadV1(srcs)
	}()
	c.Eval(1)
	if pan != nil {
		c.Violate("link-panic", fmt.Sprintf("loading panicked: %v\n%s", pan, cfg), info)
		return
	}
	for s, name := range names {
		err := errs[name]
		if err == nil {
			continue
		}
		c.Count("link_errors_checked", 1)
		c.Nontrivial(cfg.String() + "|" + name)
		pe, ok := err.(*errchain.PlError)
		if !ok || len(pe.PosChain) == 0 {
			c.Violate("load-error-without-position", fmt.Sprintf("error of %s is %T %v\n%s", name, err, err, cfg), info)
			return
		}
		for j, p := range pe.PosChain {
			text, known := srcs[p.File]
			if !known {
				c.Violate("link-error-names-unknown-script", fmt.Sprintf("entry %d of the error of %s names %q\n  error: %q\n%s", j, name, p.File, pe.Error(), cfg), info)
				return
			}
			if d := drive.CheckPosition(p, p.File, text); d != "" {
				c.Violate("link-error-position-invalid", fmt.Sprintf("entry %d of the error of %s: %s\n  error: %q\n%s\n%s", j, name, d, pe.Error(), cfg, srcDump(srcs)), info)
				return
			}
		}
		if cfg.Scripts[s].Kind != 0 && pe.PosChain[0].File != name {
			c.Violate("link-error-position-wrong", fmt.Sprintf("%s is rejected for its own text, but its error starts in %q: %q\n%s\n%s", name, pe.PosChain[0].File, pe.Error(), cfg, srcDump(srcs)), info)
			return
		}
		c.MaxOf("longest_link_error_chain", int64(len(pe.PosChain)))
		if cfg.Scripts[s].Kind == 0 {
			if d := k9.checkChain(cfg, names, calls, s, err); d != "" {
				c.Violate("link-error-position-wrong", fmt.Sprintf("error of %s: %s\n  error: %q\n%s\n%s", name, d, pe.Error(), cfg, srcDump(srcs)), info)
				return
			}
		}
	}
}

// walkPair visits corresponding nodes of two structurally equal trees.
func walkPair(a, b *gt.T, f func(a, b *gt.T)) {
	if a == nil || b == nil {
		return
	}
	f(a, b)
	pl := func(x, y []*gt.T) {
		for i := range x {
			if i < len(y) {
				walkPair(x[i], y[i], f)
			}
		}
	}
	pl(a.Kids, b.Kids)
	walkPair(a.Start, b.Start, f)
	walkPair(a.End, b.End, f)
	walkPair(a.Step, b.Step, f)
	pl(a.LHS, b.LHS)
	pl(a.RHS, b.RHS)
	pl(a.Conds, b.Conds)
	for i := range a.Blocks {
		if i < len(b.Blocks) {
			pl(a.Blocks[i], b.Blocks[i])
		}
	}
	pl(a.Else, b.Else)
	walkPair(a.Init, b.Init, f)
	walkPair(a.Cond, b.Cond, f)
	walkPair(a.Loop, b.Loop, f)
	pl(a.Body, b.Body)
}

func (k c17) runTree(c *mon.Ctx) {
	stmts, lay := k.treeCase(c)
	k.checkTree(c, stmts, lay, 0)
}

// big-positions (exhaustive): the position tables on BIG texts - 254..65537
// lines before the statements under test, a token 254..65537 bytes (ASCII and
// multi-byte) wide in front of them on the same line, a raw string of that
// many lines. Line numbers and byte columns on both sides of 2^8 and 2^16.
var c17BigKinds = []string{"lines", "wide-ascii", "wide-multibyte", "raw-lines", "crlf-lines"}
var c17BigSizes = []int{254, 255, 256, 257, 65534, 65535, 65536, 65537}

func (k c17) runBig(c *mon.Ctx, i int64) {
	kind := c17BigKinds[int(i)%len(c17BigKinds)]
	n := c17BigSizes[int(i)/len(c17BigKinds)]
	tail, _ := k.treeCase(c)
	var stmts []*gt.T
	from := 0
	probe := func(pad *gt.T) *gt.T {
		return gt.Assign("=", gt.Ident("z"), gt.List(pad, gt.Bin("+", gt.Ident("a"), gt.Bin("*", gt.Ident("b"), gt.Int(3))), gt.Call("f", gt.Ident("d"), gt.Str("s")), gt.Index("m", gt.Str("k"))))
	}
	prefix := ""
	switch kind {
	case "lines", "crlf-lines":
		// the many lines in front are text only (no nodes to build or convert)
		prefix = strings.Repeat("q = 1\n", n-2)
		from = n - 2
		stmts = append(stmts, probe(gt.Str("pad")))
	case "wide-ascii":
		stmts = append(stmts, probe(gt.Str(strings.Repeat("x", n-8))))
	case "wide-multibyte":
		stmts = append(stmts, probe(gt.Str(strings.Repeat("世", (n-8)/3)+strings.Repeat("y", (n-8)%3))))
	case "raw-lines":
		body := strings.Repeat("l\n", n-1)
		stmts = append(stmts, probe(&gt.T{K: gt.KStr, S: body, Spell: "\"\"\"" + body + "\"\"\""}))
	}
	stmts = append(stmts, tail...)
	c.Cell("big_position_cells", fmt.Sprintf("%s/%d", kind, n))
	if prefix != "" {
		k.checkTreeShift(c, stmts, prefix, from, kind == "crlf-lines")
		return
	}
	k.checkTree(c, stmts, nil, 0)
}

// checkTreeShift: the statements are printed after a textual prefix of
// `skip` one-line statements (optionally everything with CRLF line ends);
// every position of the statements equals the printer's offset shifted by the
// prefix (and by one byte per earlier line for CRLF).
func (k c17) checkTreeShift(c *mon.Ctx, stmts []*gt.T, prefix string, skip int, crlf bool) {
	tailSrc := gt.Print(stmts, nil)
	full := prefix + tailSrc
	if crlf {
		full = strings.ReplaceAll(full, "\n", "\r\n")
	}
	o := drive.Parse("c17.p", full)
	c.Eval(1)
	if o.Panic != nil || o.Err != nil || o.Stderr != "" {
		c.Count("not_parsed", 1)
		return
	}
	if len(o.Stmts) != skip+len(stmts) {
		c.Count("tree_differs_not_compared", 1)
		return
	}
	got, err := gt.FromStmts(o.Stmts[skip:])
	if err != nil || gt.DiffStmts(stmts, got) != "" {
		c.Count("tree_differs_not_compared", 1)
		return
	}
	c.Nontrivial(fmt.Sprint("shifted", len(full), crlf))
	c.Count("big_texts_compared", 1)
	for si := range stmts {
		bad := ""
		walkPair(stmts[si], got[si], func(g, p *gt.T) {
			for _, key := range p.PosKeys() {
				want, ok := g.Pos[key]
				if bad != "" || key == "@StartPos" || !ok {
					continue
				}
				pos, lc := p.Pos[key], p.LC[key]
				if crlf {
					want += strings.Count(tailSrc[:want], "\n") + skip
				}
				want += len(prefix)
				c.Count("positions_compared", 1)
				if pos != want {
					bad = fmt.Sprintf("%s.%s of %s is offset %d, its token is at offset %d (text of %d bytes, %d lines before the statement)", g.K, key, g.Dump(), pos, want, len(full), skip)
				} else if ln, col := drive.RefLnCol(full, pos); ln != lc[0] || col != lc[1] {
					bad = fmt.Sprintf("%s.%s: offset %d is line %d column %d, stored %d:%d", g.K, key, pos, ln, col, lc[0], lc[1])
				}
			}
		})
		if bad != "" {
			c.Violate("wrong-tree-position:big", bad, map[string]any{"source_tail": lastN(full, 300), "bytes": len(full), "crlf": crlf})
			return
		}
	}
}

func lastN(s string, n int) string {
	if len(s) > n {
		return s[len(s)-n:]
	}
	return s
}

// checkTree parses the printed statements and compares every position field
// of the statements from index `from` on with the printer's offsets.
func (k c17) checkTree(c *mon.Ctx, stmts []*gt.T, lay *gt.Layout, from int) {
	src := gt.Print(stmts, lay)
	o := drive.Parse("c17.p", src)
	c.Eval(1)
	info := map[string]any{"source": src}
	if o.Panic != nil || o.Err != nil || o.Stderr != "" {
		// acceptance of valid text is C05/C06's business
		c.Count("not_parsed", 1)
		return
	}
	if len(o.Stmts) != len(stmts) {
		c.Count("tree_differs_not_compared", 1)
		return
	}
	// only the statements under test are converted (a prefix of 65 536
	// statements is there for its line breaks)
	got, err := gt.FromStmts(o.Stmts[from:])
	if err != nil || gt.DiffStmts(stmts[from:], got) != "" {
		c.Count("tree_differs_not_compared", 1)
		return
	}
	if len(src) > 2000 {
		info = map[string]any{"source_tail": lastN(src, 300), "bytes": len(src)}
		c.Nontrivial(fmt.Sprint("big", len(src), from))
		c.Count("big_texts_compared", 1)
	} else {
		c.Nontrivial(src)
	}
	for si := from; si < len(stmts); si++ {
		bad := ""
		walkPair(stmts[si], got[si-from], func(g, p *gt.T) {
			if bad != "" {
				return
			}
			for _, key := range p.PosKeys() {
				pos := p.Pos[key]
				lc := p.LC[key]
				cell := g.K.String() + "." + key
				if key == "@StartPos" {
					c.Cell("position_cells", cell)
					if pos == -2 {
						bad = fmt.Sprintf("StartPos() of %s panicked", g.Dump())
						return
					}
					if g.Span[1] > g.Span[0] && (pos < g.Span[0] || pos >= g.Span[1]) {
						bad = fmt.Sprintf("StartPos() of %s %s is offset %d (%d:%d), outside the node's span [%d,%d)", g.K, g.Dump(), pos, lc[0], lc[1], g.Span[0], g.Span[1])
						return
					}
				} else {
					want, ok := g.Pos[key]
					if !ok {
						continue
					}
					c.Cell("position_cells", cell)
					c.Count("positions_compared", 1)
					if pos != want {
						bad = fmt.Sprintf("%s.%s of %s is offset %d (%q...), its token is at offset %d (%q...)", g.K, key, g.Dump(), pos, at(src, pos), want, at(src, want))
						return
					}
				}
				if pos >= 0 {
					if ln, col := drive.RefLnCol(src, pos); ln != lc[0] || col != lc[1] {
						bad = fmt.Sprintf("%s.%s: offset %d is line %d column %d, stored %d:%d", g.K, key, pos, ln, col, lc[0], lc[1])
						return
					}
				}
			}
		})
		if bad != "" {
			cl := "wrong-tree-position"
			if strings.Contains(bad, "StartPos()") {
				cl = "bad-start-pos"
			}
			fld := strings.SplitN(bad, " ", 2)[0]
			c.Violate(cl+":"+fld, bad+"\n--- source\n"+lastN(src, 2000), info)
			return
		}
	}
	if c.WantSample() && len(src) < 200 {
		c.Sample(map[string]any{"source": src})
	}
}

func at(s string, p int) string {
	if p < 0 || p > len(s) {
		return "<outside>"
	}
	e := p + 8
	if e > len(s) {
		e = len(s)
	}
	return s[p:e]
}

func (k c17) runLookup(c *mon.Ctx, text string) {
	cache := token.NewPosCache(text)
	if strings.ContainsAny(text, "\né") {
		c.Nontrivial(text)
	}
	for off := 0; off <= len(text); off++ {
		ln, col := drive.RefLnCol(text, off)
		c.Eval(2)
		p := cache.LnCol(token.Pos(off))
		l2, c2, err := token.LnCol(text, token.Pos(off))
		info := map[string]any{"text": fmt.Sprintf("%q", text), "offset": off}
		switch {
		case p.Ln != ln || p.Col != col || int(p.Pos) != off:
			c.Violate("poscache-lncol-wrong", fmt.Sprintf("PosCache.LnCol(%q, %d) = %d:%d (pos %d), reference %d:%d", text, off, p.Ln, p.Col, p.Pos, ln, col), info)
			return
		case err != nil || l2 != ln || c2 != col:
			c.Violate("token-lncol-wrong", fmt.Sprintf("token.LnCol(%q, %d) = %d:%d err=%v, reference %d:%d", text, off, l2, c2, err, ln, col), info)
			return
		}
	}
	// outside offsets must be refused by both
	for _, off := range []int{-1, len(text) + 1} {
		p := cache.LnCol(token.Pos(off))
		_, _, err := token.LnCol(text, token.Pos(off))
		if p.Ln > 0 || err == nil {
			c.Violate("lookup-accepts-outside-offset", fmt.Sprintf("offset %d of %q: PosCache %+v, token.LnCol err=%v", off, text, p, err), map[string]any{"text": fmt.Sprintf("%q", text), "offset": off})
			return
		}
	}
	if c.WantSample() && len(text) >= 4 && strings.Contains(text, "\n") && strings.Contains(text, "é") {
		c.Sample(map[string]any{"text": fmt.Sprintf("%q", text), "offsets_checked": len(text) + 1})
	}
}

func (k c17) runErr(c *mon.Ctx, pc progCase) {
	const name = "c17.p"
	script, err := drive.LoadV1One(name, pc.Src)
	info := map[string]any{"source": pc.Src}
	if err != nil {
		c.Count("rejected_at_load", 1)
		return
	}
	prog := &ref.Program{Scripts: map[string][]*gt.T{name: pc.Stmts}, Funcs: ref.Merge(ref.ProbeFuncs(), ref.PointFuncs())}
	mp := pc.Points[0]
	mo := ref.Run(prog, name, mp.Clone(), modelBudget)
	if mo.TooBig || mo.Unspecified != "" || mo.Budget || mo.Shared.MapOrderDependent {
		c.Count("not_compared", 1)
		return
	}
	ro := drive.RunV1(script, drive.PointFromModel(mp), &drive.RunState{Budget: realBudget(mo.Shared.Steps)})
	c.Eval(1)
	if ro.Panic != nil || ro.Budget || (ro.Err == nil) != (mo.Err == nil) {
		// value agreement is C02/C03's business
		c.Count("outcome_differs_not_compared", 1)
		return
	}
	if ro.Err == nil {
		c.Count("no_error", 1)
		return
	}
	c.Nontrivial(pc.Src)
	c.Count("error_positions_checked", 1)
	c.Cell("fault_sites", mo.Err.Node.K.String())
	if len(ro.Err.PosChain) == 0 {
		c.Violate("error-without-position", ro.Err.Err+"\n"+pc.Src, info)
		return
	}
	p := ro.Err.PosChain[0]
	if d := drive.CheckPosition(p, name, pc.Src); d != "" {
		c.Violate("error-position-invalid", fmt.Sprintf("error %q: %s\n%s", ro.Err.Err, d, pc.Src), info)
		return
	}
	span, ok := enclosingStmtSpan(pc.Stmts, mo.Err.Node)
	if !ok {
		c.Count("no_statement_span", 1)
		return
	}
	if p.Pos < span[0] || p.Pos >= span[1] {
		c.Violate("error-outside-faulting-statement", fmt.Sprintf("error %q is reported at %d:%d (offset %d); the statement at fault occupies bytes [%d,%d): %q\n--- source\n%s",
			ro.Err.Err, p.Ln, p.Col, p.Pos, span[0], span[1], pc.Src[span[0]:span[1]], pc.Src), info)
		return
	}
	if c.WantSample() && len(pc.Src) < 300 {
		c.Sample(map[string]any{"source": pc.Src, "error": ro.Err.Error(), "faulting_statement": pc.Src[span[0]:span[1]]})
	}
}

func (k c17) runRender(c *mon.Ctx) {
	r := c.R
	n := 1 + r.Intn(4)
	files := []string{"a.p", "dir/b.ppl", "", "x y.p", "é.p"}
	mk := func() token.LnColPos {
		return token.LnColPos{Pos: token.Pos(r.Intn(500)), Ln: 1 + r.Intn(40), Col: 1 + r.Intn(80)}
	}
	msgs := []string{"boom", "unsupported operand", "a: b", "line\nbreak", "", "unsupported operand type(s) for %: str and int", "100%", "%d %s %v", "%!", "no pattern %{NOSUCH:x}",
		"tab\there", "quote \" and \\ backslash", "ünïcödé 世界", "%%", "trailing colon:", "a.p:1:2: looks like a position", "\x00nul", strings.Repeat("long ", 200)}
	msg := msgs[r.Intn(len(msgs))]
	files = append(files, "100%.p", "a:b.p", "%s.p")
	f0 := files[r.Intn(len(files))]
	p0 := mk()
	e := errchain.NewErr(f0, p0, msg)
	want := []errchain.Position{{File: f0, Ln: p0.Ln, Col: p0.Col, Pos: int(p0.Pos)}}
	for j := 1; j < n; j++ {
		f, p := files[r.Intn(len(files))], mk()
		e.ChainAppend(f, p)
		want = append(want, errchain.Position{File: f, Ln: p.Ln, Col: p.Col, Pos: int(p.Pos)})
	}
	c.Eval(1)
	c.Nontrivial(fmt.Sprintf("%v|%s", want, msg))
	info := map[string]any{"chain": fmt.Sprintf("%+v", want), "message": msg}
	if !reflect.DeepEqual(e.PosChain, want) {
		c.Violate("chain-content", fmt.Sprintf("chain %+v, expected %+v", e.PosChain, want), info)
		return
	}
	// rendering
	exp := fmt.Sprintf("%s:%d:%d: %s", want[0].File, want[0].Ln, want[0].Col, msg)
	for _, p := range want[1:] {
		exp += fmt.Sprintf("\n%s:%d:%d:", p.File, p.Ln, p.Col)
	}
	if got := e.Error(); got != exp {
		c.Violate("error-rendering", fmt.Sprintf("Error() = %q, expected %q", got, exp), info)
		return
	}
	// JSON round trip
	b, err := json.Marshal(e)
	var back errchain.PlError
	if err == nil {
		err = json.Unmarshal(b, &back)
	}
	if err != nil || back.Err != e.Err || !reflect.DeepEqual(back.PosChain, e.PosChain) {
		c.Violate("json-round-trip", fmt.Sprintf("%s -> %+v (err %v)", b, back, err), info)
		return
	}
	// Copy then ChainAppend must leave the original untouched, also when
	// the original's backing array has spare capacity
	if r.Intn(2) == 0 {
		grown := make([]errchain.Position, len(e.PosChain), len(e.PosChain)+4)
		copy(grown, e.PosChain)
		e.PosChain = grown
	}
	snapshot := append([]errchain.Position{}, e.PosChain...)
	cp := e.Copy()
	cp.ChainAppend("other.p", mk())
	cp2 := e.Copy()
	cp2.ChainAppend("third.p", mk())
	if !reflect.DeepEqual(e.PosChain, snapshot) {
		c.Violate("copy-aliases-original", fmt.Sprintf("appending to a copy changed the original: %+v -> %+v", snapshot, e.PosChain), info)
		return
	}
	if len(cp.PosChain) != len(snapshot)+1 || cp.PosChain[len(snapshot)].File != "other.p" || !reflect.DeepEqual(cp.PosChain[:len(snapshot)], snapshot) {
		c.Violate("copy-content", fmt.Sprintf("copy+append gave %+v", cp.PosChain), info)
		return
	}
	if c.WantSample() && n >= 2 {
		c.Sample(map[string]any{"chain": fmt.Sprintf("%+v", want), "rendered": e.Error()})
	}
}
