package main

import (
	"fmt"
	"sort"
	"strings"
	"time"

	"github.com/GuanceCloud/platypus/pkg/ast"
	plrt "github.com/GuanceCloud/platypus/pkg/engine/runtime"
	"github.com/GuanceCloud/platypus/pkg/inimpl/guancecloud/input"

	"verif/internal/drive"
	"verif/internal/mon"
	"verif/internal/ref"
)

// C10: the point's key index always agrees with its tags and fields.

type c10 struct{}

func init() {
	register(c10{})
	mon.Assumptions["C10"] = []string{
		"invariants only (no outcome model): I1 every key of Tags/Fields has an index entry with the right place flag and a type tag matching the Go type of the stored value; I2 no key is both tag and field; I3 tag values are strings, field values int64/float64/bool/string/nil; I4 reading a present key (script identifier and Point.Get) returns exactly the stored value and type, reading any key never returns a value the maps do not hold; I5 every present key can be dropped and renamed again, drop_key/rename post-conditions hold",
		"initial points satisfy the invariant (built by InitPt from supported field types)",
		"which kind a key keeps when rename targets an existing key of the other kind is not prescribed",
	}
}

func (c10) ID() string { return "C10" }
func (c10) Rule() string {
	return "operation alphabet (~190 builtin calls: add_key with every value kind and through a variable, set_tag in its three forms, drop_key, rename over all ordered key pairs, cast to every type, set_measurement(k, true), trim/uppercase/replace/url_decode/strfmt as writers, grok with typed captures, default_time) over keys {f: initial field, t: initial tag, message, n1, n2}; bfs: breadth-first exploration of all operation sequences up to the tier's depth with de-duplication on the canonical (index, fields, tags) state, one real builtin execution on a deep clone per edge, invariants I1-I4 after every edge and I5 once per distinct state; random: seeded sequences of length 30. Non-trivial = distinct (state, operation) edges executed. Distinct states are reported."
}

var c10Keys = []string{"f", "t", "message", "n1", "n2"}

type c10Op struct {
	Text string
	Kind string // "", "drop:<k>", "rename:<to>:<from>"
}

func c10Ops() []c10Op {
	var ops []c10Op
	vals := []string{"nil", "true", "5", "2.5", `"s"`, `[1, "a"]`, `{"k": 1}`, "-false", `"%41 b"`, "void()"}
	for _, k := range c10Keys {
		for _, v := range vals {
			ops = append(ops, c10Op{Text: fmt.Sprintf("add_key(%s, %s)", k, v)})
		}
		ops = append(ops, c10Op{Text: fmt.Sprintf("%s = 41\nadd_key(%s)", k, k)})
		ops = append(ops, c10Op{Text: fmt.Sprintf("%s = [2]\nadd_key(%s)", k, k)})
		// containers without a JSON form (a non-finite float inside, a cycle):
		// the stored value and its index entry must still agree
		ops = append(ops, c10Op{Text: fmt.Sprintf("add_key(%s, [1e308 * 10.0, 2])", k)})
		ops = append(ops, c10Op{Text: fmt.Sprintf("%s = [1]\n%s[0] = %s\nadd_key(%s)", k, k, k, k)})
		ops = append(ops, c10Op{Text: fmt.Sprintf("zm = {\"a\": 1}\nzm[\"a\"] = zm\nadd_key(%s, zm)", k)})
		ops = append(ops, c10Op{Text: fmt.Sprintf("add_key(%s)", k)})
		ops = append(ops, c10Op{Text: fmt.Sprintf("set_tag(%s)", k)})
		ops = append(ops, c10Op{Text: fmt.Sprintf("set_tag(%s, \"tv2\")", k)})
		ops = append(ops, c10Op{Text: fmt.Sprintf("drop_key(%s)", k), Kind: "drop:" + k})
		for _, ty := range []string{"bool", "int", "float", "str", "string"} {
			ops = append(ops, c10Op{Text: fmt.Sprintf("cast(%s, \"%s\")", k, ty)})
		}
		ops = append(ops, c10Op{Text: fmt.Sprintf("set_measurement(%s, true)", k)})
		ops = append(ops, c10Op{Text: fmt.Sprintf("trim(%s)", k)})
		ops = append(ops, c10Op{Text: fmt.Sprintf("uppercase(%s)", k)})
		ops = append(ops, c10Op{Text: fmt.Sprintf("replace(%s, \"a\", \"b\")", k)})
		ops = append(ops, c10Op{Text: fmt.Sprintf("url_decode(%s)", k)})
		ops = append(ops, c10Op{Text: fmt.Sprintf("strfmt(%s, \"%%v-%%v\", 1, %s)", k, k)})
		ops = append(ops, c10Op{Text: fmt.Sprintf("default_time(%s)", k)})
		ops = append(ops, c10Op{Text: fmt.Sprintf("sql_cover(%s)", k)})
		for _, k2 := range c10Keys {
			if k2 != k {
				ops = append(ops, c10Op{Text: fmt.Sprintf("rename(%s, %s)", k, k2), Kind: "rename:" + k + ":" + k2})
				ops = append(ops, c10Op{Text: fmt.Sprintf("set_tag(%s, %s)", k, k2)})
			}
		}
	}
	// several point operations in ONE script, nothing (no monitor read) in
	// between: read, rename away, create again / read, drop, create as the
	// other kind / write twice
	for _, k := range c10Keys {
		for _, k2 := range c10Keys {
			if k2 == k {
				continue
			}
			ops = append(ops, c10Op{Text: fmt.Sprintf("zz = %s\nrename(%s, %s)\nadd_key(%s, 7)", k, k2, k, k)})
			ops = append(ops, c10Op{Text: fmt.Sprintf("if %s == 1 {\n}\nrename(%s, %s)\nset_tag(%s, \"again\")", k, k2, k, k)})
		}
		ops = append(ops, c10Op{Text: fmt.Sprintf("zz = get_key(%s)\ndrop_key(%s)\nset_tag(%s, \"t\")\nzz = %s\nadd_key(%s, 1.5)", k, k, k, k, k)})
		ops = append(ops, c10Op{Text: fmt.Sprintf("zz = %s\ncast(%s, \"str\")\nzz = %s\nset_tag(%s)\nzz = %s\nadd_key(%s, nil)", k, k, k, k, k, k)})
	}
	// the alias spelling `_` of `message` in every writer (whatever it creates
	// must be the key `message`, readable and removable under both spellings)
	for _, t := range []string{"set_tag(_)", "set_tag(_, \"tv3\")", "add_key(_, 5)", "add_key(_, \"s2\")", "cast(_, \"int\")", "trim(_)", "uppercase(_)",
		"set_measurement(_, true)", "rename(n1, _)", "rename(_, n1)", "rename(_, t)", "strfmt(_, \"%v\", 1)", "default_time(_)", "_ = 3\nadd_key(_)", "_ = \"v\"\nset_tag(_)"} {
		ops = append(ops, c10Op{Text: t})
	}
	ops = append(ops, c10Op{Text: "drop_key(_)", Kind: "drop:message"})
	ops = append(ops, c10Op{Text: `grok(message, "%{WORD:n1} %{INT:n2:int}")`})
	ops = append(ops, c10Op{Text: `grok(f, "%{NUMBER:n1:float}")`})
	ops = append(ops, c10Op{Text: `grok(message, "%{WORD:t:str} %{INT:f:bool}")`})
	ops = append(ops, c10Op{Text: `xml(message, "/a", n1)`})
	ops = append(ops, c10Op{Text: `datetime(f, "s", "RFC3339")`})
	return ops
}

var c10OpList = c10Ops()

// long-values (exhaustive): the key f holds a string whose length sits on
// either side of a power of two (255 .. 65537 bytes), put there in six ways;
// then every operation of the table that touches f runs once, the invariants
// are checked, the key is dropped / renamed on copies, and written once more.
var c10LongSizes = []int{255, 256, 257, 1023, 1024, 1025, 4095, 4096, 4097, 65535, 65536, 65537}
var c10LongSetups = []string{"initial field", "initial tag", "initial json field", "add_key", "set_tag", "variable"}

func c10LongOps() []c10Op {
	var out []c10Op
	for _, op := range c10OpList {
		if strings.Contains(op.Text, "(f") || strings.Contains(op.Text, ", f)") || strings.Contains(op.Text, "(_") {
			if !strings.HasPrefix(op.Text, "add_key(f, ") || strings.HasPrefix(op.Text, "add_key(f, 5") {
				out = append(out, op)
			}
		}
	}
	return out
}

func c10Depth(tier string) int {
	if tier == "thorough" {
		return 3
	}
	return 2
}

func (c10) Plan(tier string, seed int64) []mon.Workload {
	rnd := int64(400)
	if tier == "thorough" {
		rnd = 30000
	}
	return []mon.Workload{
		{Name: "bfs", N: int64(len(c10OpList) * len(c10Inits)), Exhaustive: true},
		{Name: "random", N: rnd},
		{Name: "long-values", N: int64(len(c10LongSizes) * len(c10LongSetups) * len(c10LongOps())), Exhaustive: true},
	}
}

var c10Inits = []func() *input.Point{
	func() *input.Point {
		return input.InitPt(&input.Point{}, "m", map[string]string{"t": "tv"}, map[string]any{"f": int64(7), "message": "abc 12"}, time.Unix(1700000000, 0))
	},
	func() *input.Point {
		return input.InitPt(&input.Point{}, "m", map[string]string{"t": "", "n2": "x"}, map[string]any{"f": float32(1.5), "message": nil, "n1": uint(3)}, time.Unix(1700000000, 0))
	},
	// initial fields of every Go number type at the edges of their ranges
	func() *input.Point {
		return input.InitPt(&input.Point{}, "m", map[string]string{"t": "9"}, map[string]any{"f": uint64(1<<63 + 5), "message": ^uint64(0), "n1": int8(-128), "n2": float32(-0.0)}, time.Unix(1700000000, 0))
	},
	func() *input.Point {
		return input.InitPt(&input.Point{}, "m", nil, map[string]any{"f": uint(1 << 63), "message": int32(-1 << 31), "n1": uint16(65535), "n2": uint32(1<<32 - 1), "t": int64(-1 << 63)}, time.Unix(1700000000, 0))
	},
	// a wide point: 40 keys, most of which no operation ever touches
	func() *input.Point {
		tags := map[string]string{"t": "tv"}
		fields := map[string]any{"f": int64(7), "message": "abc 12"}
		for k := 0; k < 5; k++ {
			tags[fmt.Sprintf("wt%02d", k)] = fmt.Sprint("v", k)
		}
		for k := 0; k < 32; k++ {
			fields[fmt.Sprintf("w%02d", k)] = []any{int64(k), float64(k) / 2, k%2 == 0, fmt.Sprint("s", k)}[k%4]
		}
		return input.InitPt(&input.Point{}, "m", tags, fields, time.Unix(1700000000, 0))
	},
}

func clonePoint(p *input.Point) *input.Point {
	q := &input.Point{Measurement: p.Measurement, Time: p.Time, Drop: p.Drop,
		Tags: make(map[string]string, len(p.Tags)), Fields: make(map[string]any, len(p.Fields)), Meta: make(map[string]*input.TFMeta, len(p.Meta))}
	for k, v := range p.Tags {
		q.Tags[k] = v
	}
	for k, v := range p.Fields {
		q.Fields[k] = v
	}
	for k, v := range p.Meta {
		m := *v
		q.Meta[k] = &m
	}
	return q
}

func canonPoint(p *input.Point) string {
	var parts []string
	for k, m := range p.Meta {
		parts = append(parts, fmt.Sprintf("M %s %d %d", k, m.DType, m.PtFlag))
	}
	for k, v := range p.Tags {
		parts = append(parts, fmt.Sprintf("T %s %q", k, v))
	}
	for k, v := range p.Fields {
		parts = append(parts, fmt.Sprintf("F %s %T %s", k, v, ref.Show(normHost(v))))
	}
	sort.Strings(parts)
	return strings.Join(parts, "\n")
}

// normHost renders foreign Go types (int, ...) distinctly from model types.
func normHost(v any) any { return v }

var c10Scripts = map[string]*plrt.Script{}

func c10Script(text string) (*plrt.Script, error) {
	if s, ok := c10Scripts[text]; ok {
		return s, nil
	}
	s, err := drive.LoadV1One("op.p", text)
	if err != nil {
		return nil, err
	}
	c10Scripts[text] = s
	return s, nil
}

func dtypeOfGo(v any) (ast.DType, bool) {
	switch v.(type) {
	case nil:
		return ast.Nil, true
	case bool:
		return ast.Bool, true
	case int64:
		return ast.Int, true
	case float64:
		return ast.Float, true
	case string:
		return ast.String, true
	}
	return ast.Invalid, false
}

// invariants I1-I4; returns "" when they hold.
func c10Invariants(pt *input.Point) (class, detail string) {
	for k, v := range pt.Fields {
		if _, both := pt.Tags[k]; both {
			return "key-both-tag-and-field", fmt.Sprintf("key %q is in Tags (%q) and in Fields (%s)", k, pt.Tags[k], ref.Show(v))
		}
		dt, ok := dtypeOfGo(v)
		if !ok {
			return "field-value-go-type", fmt.Sprintf("field %q holds a %T (%v); fields must be int64, float64, bool, string or nil", k, v, v)
		}
		m, has := pt.Meta[k]
		if !has {
			return "present-key-without-index-entry", fmt.Sprintf("field %q = %s has no index entry: scripts cannot read, drop or rename it", k, ref.Show(v))
		}
		if m.PtFlag != input.PtField {
			return "index-flag-wrong", fmt.Sprintf("field %q is indexed with place flag %d", k, m.PtFlag)
		}
		if m.DType != dt {
			return "index-type-wrong", fmt.Sprintf("field %q holds %s (%T) but the index says %s", k, ref.Show(v), v, m.DType)
		}
	}
	for k, v := range pt.Tags {
		m, has := pt.Meta[k]
		if !has {
			return "present-key-without-index-entry", fmt.Sprintf("tag %q = %q has no index entry: scripts cannot read, drop or rename it", k, v)
		}
		if m.PtFlag != input.PtTag {
			return "index-flag-wrong", fmt.Sprintf("tag %q is indexed with place flag %d", k, m.PtFlag)
		}
	}
	// I4 through Point.Get
	for _, k := range c10Keys {
		v, dt, err := pt.Get(k)
		fv, inF := pt.Fields[k]
		tv, inT := pt.Tags[k]
		switch {
		case inF:
			if err != nil || !ref.DeepEqual(v, fv, true) {
				return "read-differs-from-stored", fmt.Sprintf("Point.Get(%q) = %s (%v), the field holds %s", k, ref.Show(v), err, ref.Show(fv))
			}
			if want, _ := dtypeOfGo(fv); dt != want {
				return "read-type-differs", fmt.Sprintf("Point.Get(%q) reports type %s for %s", k, dt, ref.Show(fv))
			}
		case inT:
			if err != nil || v != any(tv) {
				return "read-differs-from-stored", fmt.Sprintf("Point.Get(%q) = %s (%v), the tag holds %q", k, ref.Show(v), err, tv)
			}
		default:
			if err == nil && v != nil {
				return "read-returns-value-not-held", fmt.Sprintf("Point.Get(%q) = %s but the key is in neither Tags nor Fields", k, ref.Show(v))
			}
		}
	}
	return "", ""
}

var c10Probe = "p(f, t, message, n1, n2)"

// scriptReads checks I4 through script-level identifier reads.
func c10ScriptReads(pt *input.Point) (class, detail string) {
	s, err := c10Script(c10Probe)
	if err != nil {
		return "probe-rejected", err.Error()
	}
	q := clonePoint(pt)
	rs := &drive.RunState{Budget: 1000}
	o := drive.RunV1(s, q, rs)
	if o.Panic != nil || o.Err != nil || len(rs.Events) != 1 {
		return "probe-failed", fmt.Sprintf("%v %v", o.Panic, o.Err)
	}
	for i, k := range c10Keys {
		got := rs.Events[0].Vals[i]
		if fv, ok := pt.Fields[k]; ok {
			if !ref.DeepEqual(got.V, fv, true) {
				return "script-read-differs-from-stored", fmt.Sprintf("a script reading %s gets %s, the field holds %s", k, ref.Show(got.V), ref.Show(fv))
			}
			if want, _ := dtypeOfGo(fv); got.T != drive.TypeOfD(want) {
				return "script-read-type-differs", fmt.Sprintf("a script reading %s gets type %s for %s", k, got.T, ref.Show(fv))
			}
		} else if tv, ok := pt.Tags[k]; ok {
			if got.V != any(tv) {
				return "script-read-differs-from-stored", fmt.Sprintf("a script reading %s gets %s, the tag holds %q", k, ref.Show(got.V), tv)
			}
		} else if got.V != nil {
			return "script-read-returns-value-not-held", fmt.Sprintf("a script reading %s gets %s but the key is in neither map", k, ref.Show(got.V))
		}
	}
	// a present key of any other name (nothing in the alphabet spells one) must
	// be readable too, under its own name
	var extra []string
	for k := range pt.Fields {
		extra = append(extra, k)
	}
	for k := range pt.Tags {
		extra = append(extra, k)
	}
	sort.Strings(extra)
	for _, k := range extra {
		known := false
		for _, k0 := range c10Keys {
			known = known || k0 == k
		}
		if known || strings.ContainsAny(k, "`\n\\") {
			continue
		}
		s, err := c10Script("p(`" + k + "`)")
		if err != nil {
			return "present-key-not-addressable", fmt.Sprintf("the point holds a key %q that no script can name: %v", k, err)
		}
		rs := &drive.RunState{Budget: 1000}
		o := drive.RunV1(s, clonePoint(pt), rs)
		if o.Panic != nil || o.Err != nil || len(rs.Events) != 1 {
			return "probe-failed", fmt.Sprintf("%v %v", o.Panic, o.Err)
		}
		got := rs.Events[0].Vals[0]
		if fv, ok := pt.Fields[k]; ok && !ref.DeepEqual(got.V, fv, true) {
			return "script-read-differs-from-stored", fmt.Sprintf("a script reading `%s` gets %s, the field holds %s", k, ref.Show(got.V), ref.Show(fv))
		} else if tv, ok := pt.Tags[k]; ok && got.V != any(tv) {
			return "script-read-differs-from-stored", fmt.Sprintf("a script reading `%s` gets %s, the tag holds %q", k, ref.Show(got.V), tv)
		}
	}
	return "", ""
}

func c10Apply(op c10Op, pt *input.Point) (class, detail string) {
	s, err := c10Script(op.Text)
	if err != nil {
		return "op-rejected", fmt.Sprintf("%s: %v", op.Text, err)
	}
	before := clonePoint(pt)
	o := drive.RunV1(s, pt, &drive.RunState{Budget: 5000})
	if o.Panic != nil {
		return "panic", fmt.Sprintf("%v\n%s", o.Panic, firstN(o.Stack, 20))
	}
	// post-conditions of drop_key / rename
	if strings.HasPrefix(op.Kind, "drop:") {
		k := op.Kind[5:]
		_, f := pt.Fields[k]
		_, t := pt.Tags[k]
		if f || t {
			return "drop-left-key", fmt.Sprintf("after drop_key(%s) the key is still present", k)
		}
	}
	if strings.HasPrefix(op.Kind, "rename:") {
		p := strings.Split(op.Kind, ":")
		to, from := p[1], p[2]
		fv, wasF := before.Fields[from]
		tv, wasT := before.Tags[from]
		if wasF || wasT {
			_, f := pt.Fields[from]
			_, t := pt.Tags[from]
			if f || t {
				return "rename-left-old-key", fmt.Sprintf("after rename(%s, %s) the old key is still present", to, from)
			}
			nf, isF := pt.Fields[to]
			nt, isT := pt.Tags[to]
			if !isF && !isT {
				return "rename-lost-value", fmt.Sprintf("after rename(%s, %s) the new key is absent", to, from)
			}
			if wasF && isF && !ref.DeepEqual(nf, fv, true) {
				return "rename-changed-value", fmt.Sprintf("rename(%s, %s): field value %s became %s", to, from, ref.Show(fv), ref.Show(nf))
			}
			if wasT && isT && nt != tv {
				return "rename-changed-value", fmt.Sprintf("rename(%s, %s): tag value %q became %q", to, from, tv, nt)
			}
		}
	}
	return "", ""
}

// c10Redo checks I5 on a state: every present key can be dropped and renamed.
func c10Redo(pt *input.Point) (class, detail string) {
	for _, k := range c10Keys {
		_, f := pt.Fields[k]
		_, t := pt.Tags[k]
		if !f && !t {
			continue
		}
		q := clonePoint(pt)
		if cl, d := c10Apply(c10Op{Text: "drop_key(" + k + ")", Kind: "drop:" + k}, q); cl != "" {
			return "present-key-cannot-be-dropped", d
		}
		q = clonePoint(pt)
		if cl, d := c10Apply(c10Op{Text: "rename(zz, " + k + ")", Kind: "rename:zz:" + k}, q); cl != "" {
			return "present-key-cannot-be-renamed", cl + ": " + d
		}
		if cl, d := c10Invariants(q); cl != "" {
			return cl, "after rename(zz, " + k + "): " + d
		}
	}
	return "", ""
}

func (k c10) Describe(c *mon.Ctx, workload string, i int64) any {
	if workload == "bfs" {
		return map[string]any{"first_operation": c10OpList[int(i)%len(c10OpList)].Text, "initial_point": int(i) / len(c10OpList)}
	}
	return nil
}

func (k c10) Run(c *mon.Ctx, workload string, i int64) {
	drive.Init()
	fail := func(class, detail string, hist []string, pt *input.Point) {
		c.Violate(class, fmt.Sprintf("%s\n  after the operations: %s\n  point: %s\n  index: %s", detail, strings.Join(hist, " ; "), showRealPoint(pt), showMeta(pt)),
			map[string]any{"operations": hist})
	}
	step := func(op c10Op, pt *input.Point, hist []string) bool {
		c.Eval(1)
		if cl, d := c10Apply(op, pt); cl != "" {
			fail(cl, d, hist, pt)
			return false
		}
		if cl, d := c10Invariants(pt); cl != "" {
			fail(cl, d, hist, pt)
			return false
		}
		if cl, d := c10ScriptReads(pt); cl != "" {
			fail(cl, d, hist, pt)
			return false
		}
		return true
	}
	if workload == "long-values" {
		ops := c10LongOps()
		op := ops[int(i)%len(ops)]
		i /= int64(len(ops))
		setup := c10LongSetups[int(i)%len(c10LongSetups)]
		size := c10LongSizes[int(i)/len(c10LongSetups)]
		long := strings.Repeat("abcdefgh", size/8+1)[:size]
		fields, tags := map[string]any{"message": "abc 12", "n1": int64(3)}, map[string]string{"t": "tv"}
		hist := []string{fmt.Sprintf("(f holds a %d-byte string, set up by: %s)", size, setup)}
		switch setup {
		case "initial field":
			fields["f"] = long
		case "initial tag":
			tags["f"] = long
		case "initial json field":
			fields["f"] = "[\"" + long[:size-4] + "\"]"
		}
		pt := input.InitPt(&input.Point{}, "m", tags, fields, time.Unix(1700000000, 0))
		switch setup {
		case "add_key":
			if !step(c10Op{Text: "add_key(f, \"" + long + "\")"}, pt, hist) {
				return
			}
		case "set_tag":
			if !step(c10Op{Text: "set_tag(f, \"" + long + "\")"}, pt, hist) {
				return
			}
		case "variable":
			if !step(c10Op{Text: "f = \"" + long + "\"\nadd_key(f)"}, pt, hist) {
				return
			}
		}
		c.Nontrivial(fmt.Sprint(size, setup, op.Text))
		c.Cell("long_value_sizes", fmt.Sprint(size))
		hist = append(hist, strings.ReplaceAll(op.Text, "\n", "; "))
		if !step(op, pt, hist) {
			return
		}
		if cl, d := c10Redo(pt); cl != "" {
			fail(cl, d, hist, pt)
			return
		}
		// and one more ordinary write of the same key afterwards
		for _, t := range []string{"set_tag(f, \"short\")", "add_key(f, 1)"} {
			q := clonePoint(pt)
			if !step(c10Op{Text: t}, q, append(hist, t)) {
				return
			}
		}
		return
	}
	if workload == "random" {
		pt := c10Inits[c.R.Intn(len(c10Inits))]()
		var hist []string
		for n := 0; n < 30; n++ {
			op := c10OpList[c.R.Intn(len(c10OpList))]
			hist = append(hist, strings.ReplaceAll(op.Text, "\n", "; "))
			c.Nontrivial(canonPoint(pt) + "|" + op.Text)
			if !step(op, pt, hist) {
				return
			}
			c.Cell("states", fmt.Sprintf("%016x", mon.Hash64(canonPoint(pt))))
		}
		if cl, d := c10Redo(pt); cl != "" {
			fail(cl, d, hist, pt)
		}
		return
	}
	// bfs from one first operation
	first := c10OpList[int(i)%len(c10OpList)]
	init := c10Inits[int(i)/len(c10OpList)]()
	type node struct {
		pt   *input.Point
		hist []string
	}
	seen := map[string]bool{}
	depth := c10Depth(c.Tier)
	if int(i)/len(c10OpList) == len(c10Inits)-1 {
		depth-- // the wide point: its states are ten times as large
	}
	frontier := []node{}
	pt := clonePoint(init)
	h0 := []string{strings.ReplaceAll(first.Text, "\n", "; ")}
	c.Nontrivial(canonPoint(pt) + "|" + first.Text)
	if !step(first, pt, h0) {
		return
	}
	seen[canonPoint(pt)] = true
	frontier = append(frontier, node{pt, h0})
	for d := 1; d < depth; d++ {
		var next []node
		for _, nd := range frontier {
			if cl, dd := c10Redo(nd.pt); cl != "" {
				fail(cl, dd, nd.hist, nd.pt)
				return
			}
			for _, op := range c10OpList {
				q := clonePoint(nd.pt)
				hist := append(append([]string{}, nd.hist...), strings.ReplaceAll(op.Text, "\n", "; "))
				c.Nontrivial(canonPoint(nd.pt) + "|" + op.Text)
				if !step(op, q, hist) {
					return
				}
				key := canonPoint(q)
				if !seen[key] {
					seen[key] = true
					next = append(next, node{q, hist})
				}
			}
		}
		frontier = next
	}
	for s := range seen {
		c.Cell("states", fmt.Sprintf("%016x", mon.Hash64(s)))
	}
	if c.WantSample() && len(frontier) > 0 {
		nd := frontier[len(frontier)/2]
		c.Sample(map[string]any{"operations": nd.hist, "point": showRealPoint(nd.pt), "index": showMeta(nd.pt)})
	}
}

func showMeta(p *input.Point) string {
	var parts []string
	for k, m := range p.Meta {
		place := map[input.PtFlag]string{input.PtTag: "tag", input.PtField: "field"}[m.PtFlag]
		parts = append(parts, fmt.Sprintf("%s:%s/%s", k, place, m.DType))
	}
	sort.Strings(parts)
	return strings.Join(parts, " ")
}
