package drive

import (
	"fmt"
	"io"
	"os"
	"strings"
	"sync"

	"github.com/GuanceCloud/platypus/pkg/ast"
	"github.com/GuanceCloud/platypus/pkg/errchain"
	"github.com/GuanceCloud/platypus/pkg/parser"
)

// stderr watcher: os.Stderr is replaced once per process by a scratch file;
// after each observed call the file offset tells whether the code under
// observation wrote to it (the parser's internal recover dumps "parser
// panic: ..." there). The Go runtime's own fatal messages go to fd 2
// directly and are not affected.
var (
	watchOnce sync.Once
	watchFile *os.File
	watchOff  int64
)

func watchStderr() {
	watchOnce.Do(func() {
		f, err := os.CreateTemp("", "verif-stderr")
		if err != nil {
			return
		}
		os.Remove(f.Name())
		watchFile = f
		os.Stderr = f
	})
}

// stderrDelta returns what was written to os.Stderr since the last call.
func stderrDelta() string {
	if watchFile == nil {
		return ""
	}
	off, err := watchFile.Seek(0, io.SeekCurrent)
	if err != nil || off == watchOff {
		return ""
	}
	n := off - watchOff
	if n > 1<<16 {
		n = 1 << 16
	}
	buf := make([]byte, n)
	watchFile.ReadAt(buf, watchOff)
	watchOff = off
	if off > 64<<20 {
		watchFile.Truncate(0)
		watchFile.Seek(0, io.SeekStart)
		watchOff = 0
	}
	return string(buf)
}

// ParseObs is everything observable about one ParsePipeline call.
type ParseObs struct {
	Stmts  ast.Stmts
	Err    error
	Panic  any
	Stderr string // non-empty: the parser recovered an internal panic
	// filled when BoundParse is on
	LexCalls  int64  // token requests of the grammar driver
	LexStates int64  // lexer state transitions
	NonTerm   string // non-empty: a logical work bound was exceeded and the parse was aborted
}

// BoundParse makes Parse count the parser's work in logical steps (lexer hook)
// and abort a parse that exceeds what any terminating parse of a text of that
// length can need: the grammar driver requests at most one token per byte plus
// end-of-input, and every lexer state transition consumes input, emits a token
// or is one of a constant number of dispatch hops. The bounds are several
// times that. Single-goroutine use only (the counters are not synchronised).
var BoundParse bool

// LexBoundExceeded is the sentinel panic raised by the lexer hook.
type LexBoundExceeded struct {
	Kind         int
	Count, Bound int64
}

func lexBounds(n int) (calls, states int64) {
	return int64(4*n + 64), int64(16*n + 256)
}

// Parse calls the real parser under observation.
func Parse(name, text string) (o ParseObs) {
	Init()
	watchStderr()
	if BoundParse {
		bc, bs := lexBounds(len(text))
		parser.VerifLexHook = func(kind, n int) {
			if n != len(text) {
				return // a nested parse of another text
			}
			if kind == 0 {
				o.LexCalls++
				if o.LexCalls > bc {
					if o.NonTerm == "" {
						o.NonTerm = fmt.Sprintf("the grammar driver requested %d tokens from a text of %d bytes (bound %d)", o.LexCalls, n, bc)
					}
					panic(LexBoundExceeded{0, o.LexCalls, bc})
				}
				return
			}
			o.LexStates++
			if o.LexStates > bs {
				if o.NonTerm == "" {
					o.NonTerm = fmt.Sprintf("the lexer made %d state transitions on a text of %d bytes (bound %d)", o.LexStates, n, bs)
				}
				panic(LexBoundExceeded{1, o.LexStates, bs})
			}
		}
		defer func() { parser.VerifLexHook = nil }()
	}
	func() {
		defer func() {
			o.Panic = recover()
			if _, ok := o.Panic.(LexBoundExceeded); ok {
				o.Panic = nil
			}
		}()
		o.Stmts, o.Err = parser.ParsePipeline(name, text)
	}()
	o.Stderr = stderrDelta()
	return
}

// RefLnCol is the reference line/column of a byte offset: lines are
// separated by '\n', columns are 1-based byte columns.
func RefLnCol(text string, pos int) (ln, col int) {
	ln, col = 1, 1
	for i := 0; i < pos && i < len(text); i++ {
		if text[i] == '\n' {
			ln++
			col = 1
		} else {
			col++
		}
	}
	return
}

// CheckPosition validates one error position against the source text.
func CheckPosition(p errchain.Position, file, text string) string {
	switch {
	case p.File != file:
		return fmt.Sprintf("position names file %q, expected %q", p.File, file)
	case p.Pos < 0 || p.Pos > len(text):
		return fmt.Sprintf("offset %d outside the source (length %d); ln=%d col=%d", p.Pos, len(text), p.Ln, p.Col)
	case p.Ln < 1 || p.Col < 1:
		return fmt.Sprintf("line/column %d:%d is not a position", p.Ln, p.Col)
	}
	if ln, col := RefLnCol(text, p.Pos); ln != p.Ln || col != p.Col {
		return fmt.Sprintf("offset %d is line %d column %d, but the error says %d:%d", p.Pos, ln, col, p.Ln, p.Col)
	}
	return ""
}

// CheckParseError validates the shape of a parse error: a PlError with
// exactly one position inside the source. It returns "" when well-formed.
func CheckParseError(err error, file, text string) string {
	pe, ok := err.(*errchain.PlError)
	if !ok || pe == nil {
		return fmt.Sprintf("error is %T (%v), not a positioned *errchain.PlError", err, err)
	}
	if len(pe.PosChain) != 1 {
		return fmt.Sprintf("parse error carries %d positions", len(pe.PosChain))
	}
	if strings.TrimSpace(pe.Err) == "" {
		return "parse error has an empty message"
	}
	return CheckPosition(pe.PosChain[0], file, text)
}

// LexItem is one token of the exported lexer's stream.
type LexItem struct {
	Typ int
	Pos int
	Val string
	Err bool
	EOF bool
}

// LexAll runs the exported lexer over text until EOF, the first ERROR or
// max items.
func LexAll(text string, max int) (items []LexItem, pan any) {
	Init()
	defer func() { pan = recover() }()
	if BoundParse {
		_, bs := lexBounds(len(text))
		var states int64
		parser.VerifLexHook = func(kind, n int) {
			if kind == 1 {
				if states++; states > bs {
					panic(LexBoundExceeded{1, states, bs})
				}
			}
		}
		defer func() { parser.VerifLexHook = nil }()
	}
	l := parser.Lex(text)
	var it parser.Item
	for len(items) < max {
		l.NextItem(&it)
		li := LexItem{Typ: int(it.Typ), Pos: int(it.Pos), Val: it.Val, Err: it.Typ == parser.ERROR, EOF: it.Typ == parser.EOF}
		items = append(items, li)
		if li.Err || li.EOF {
			break
		}
	}
	return
}
