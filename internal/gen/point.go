package gen

import (
	"math"
	"math/rand"
	"time"

	"verif/internal/ref"
)

var pointFieldVals = []any{nil, true, false, int64(0), int64(7), int64(-3), int64(math.MaxInt64), float64(0), float64(2.5), float64(-1e9),
	"", "text", "héllo wörld", "123", " padded ", "a,b,c"}

// ModelPoint draws a point in the model's representation. Keys come from
// keys (some of which collide with variable names on purpose).
func ModelPoint(r *rand.Rand, fieldKeys, tagKeys []string) *ref.Point {
	p := ref.NewPoint([]string{"m", "nginx", ""}[r.Intn(3)], nil, nil, time.Unix(1700000000+int64(r.Intn(1000)), int64(r.Intn(1000))*1000))
	for _, k := range fieldKeys {
		if r.Intn(3) != 0 {
			p.Fields[k] = pointFieldVals[r.Intn(len(pointFieldVals))]
		}
	}
	for _, k := range tagKeys {
		if _, dup := p.Fields[k]; !dup && r.Intn(2) == 0 {
			p.Tags[k] = []string{"", "tagv", "t 1", "42"}[r.Intn(4)]
		}
	}
	return p
}

// Rand returns a PRNG for the given seed.
func Rand(seed int64) *rand.Rand { return rand.New(rand.NewSource(seed)) }
