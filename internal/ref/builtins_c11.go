package ref

import (
	"encoding/json"
	"fmt"
	"net/url"
	"reflect"
	"regexp"
	"strconv"
	"strings"

	"verif/internal/gt"
)

// Models of the field-manipulating builtins, written from funcs/md/fn.md and
// the statement of property C11. Subject lookup: the script variable of that
// name if one exists, otherwise the point key (`_` stands for `message`).

// FieldFuncs returns the model function table for C11.
func FieldFuncs() map[string]Builtin {
	return map[string]Builtin{
		"add_key":         modelAddKey,
		"get_key":         modelGetKey,
		"set_tag":         modelSetTag,
		"drop_key":        modelDropKey,
		"rename":          modelRename,
		"cast":            modelCast,
		"set_measurement": modelSetMeasurement,
		"len":             modelLen,
		"load_json":       modelLoadJSON,
		"strfmt":          modelStrfmt,
		"printf":          modelPrintf,
		"trim":            modelTrim,
		"uppercase":       modelUppercase,
		"replace":         modelReplace,
		"url_decode":      modelURLDecode,
	}
}

func needPoint(in *Interp) {
	if in.Point == nil {
		unspec("builtin without a point")
	}
}

func argKey(c *gt.T, i int) string {
	if i >= len(c.Kids) {
		unspec(c.S + ": missing argument")
	}
	k, ok := keyName(c.Kids[i])
	if !ok {
		unspec(c.S + ": key argument shape")
	}
	return k
}

func argStrLit(c *gt.T, i int) string {
	if i >= len(c.Kids) || c.Kids[i].K != gt.KStr {
		unspec(c.S + ": string literal argument expected")
	}
	return c.Kids[i].S
}

// subjectStr is the string form of the subject named k; ok=false when the
// subject exists neither as a variable nor in the point (or has no string
// form).
func (in *Interp) subjectStr(k string) (string, bool) {
	v, found := in.Get(k)
	if !found {
		return "", false
	}
	return Str(v)
}

func modelSetTag(in *Interp, c *gt.T) (Val, *RunErr) {
	needPoint(in)
	k := pkey(argKey(c, 0))
	if len(c.Kids) == 2 {
		v, err := in.eval(c.Kids[1])
		if err != nil {
			return Void, err
		}
		in.Point.SetTag(k, v)
		return Void, nil
	}
	v, found := in.Get(k)
	if !found {
		in.Point.SetTag(k, Val{"", TStr})
		return Void, nil
	}
	in.Point.SetTag(k, v)
	return Void, nil
}

func modelDropKey(in *Interp, c *gt.T) (Val, *RunErr) {
	needPoint(in)
	in.Point.Delete(pkey(argKey(c, 0)))
	return Void, nil
}

func modelRename(in *Interp, c *gt.T) (Val, *RunErr) {
	needPoint(in)
	to, from := pkey(argKey(c, 0)), pkey(argKey(c, 1))
	if to == from {
		return Void, nil
	}
	if v, ok := in.Point.Fields[from]; ok {
		in.Point.Delete(to)
		delete(in.Point.Fields, from)
		in.Point.Fields[to] = v
	} else if v, ok := in.Point.Tags[from]; ok {
		in.Point.Delete(to)
		delete(in.Point.Tags, from)
		in.Point.Tags[to] = v
	}
	return Void, nil
}

// CastValue is the documented conversion table; ok=false where the
// documents do not fix the result (non-numeric strings to numbers, ...).
func CastValue(v Val, typ string) (Val, bool) {
	switch typ {
	case "bool":
		switch x := v.V.(type) {
		case bool:
			return v, true
		case int64:
			return Val{x != 0, TBool}, true
		case float64:
			return Val{x != 0, TBool}, true
		case string:
			if b, err := strconv.ParseBool(x); err == nil {
				return Val{b, TBool}, true
			}
		}
	case "int":
		switch x := v.V.(type) {
		case bool:
			if x {
				return Val{int64(1), TInt}, true
			}
			return Val{int64(0), TInt}, true
		case int64:
			return v, true
		case float64:
			if x >= -9.2e18 && x <= 9.2e18 {
				return Val{int64(x), TInt}, true
			}
		case string:
			if f, err := strconv.ParseFloat(x, 64); err == nil && f >= -9.2e18 && f <= 9.2e18 {
				if i, err := strconv.ParseInt(x, 10, 64); err == nil {
					return Val{i, TInt}, true
				}
				if f == float64(int64(f)) && (f > 9e15 || f < -9e15) {
					return Void, false
				}
				return Val{int64(f), TInt}, true
			}
		}
	case "float":
		switch x := v.V.(type) {
		case bool:
			if x {
				return Val{float64(1), TFloat}, true
			}
			return Val{float64(0), TFloat}, true
		case int64:
			return Val{float64(x), TFloat}, true
		case float64:
			return v, true
		case string:
			if f, err := strconv.ParseFloat(x, 64); err == nil {
				return Val{f, TFloat}, true
			}
		}
	case "str", "string":
		switch v.V.(type) {
		case bool, int64, float64, string:
			s, _ := Str(v)
			return Val{s, TStr}, true
		}
	}
	return Void, false
}

func modelCast(in *Interp, c *gt.T) (Val, *RunErr) {
	needPoint(in)
	k := argKey(c, 0)
	typ := argStrLit(c, 1)
	v, found := in.Get(k)
	if !found {
		return Void, nil
	}
	r, ok := CastValue(v, typ)
	if !ok {
		unspec(fmt.Sprintf("cast of %s to %s", Show(v.V), typ))
	}
	in.Point.Set(pkey(k), r)
	return Void, nil
}

func modelSetMeasurement(in *Interp, c *gt.T) (Val, *RunErr) {
	needPoint(in)
	if len(c.Kids) < 1 {
		unspec("set_measurement arity")
	}
	v, err := in.eval(c.Kids[0])
	if err != nil {
		unspec("set_measurement with a failing name expression")
	}
	if s, ok := v.V.(string); ok {
		in.Point.Measurement = s
	}
	if len(c.Kids) == 2 && c.Kids[1].K == gt.KBool && c.Kids[1].B {
		if c.Kids[0].K == gt.KIdent || c.Kids[0].K == gt.KAttr {
			in.Point.Delete(pkey(argKey(c, 0)))
		}
	}
	return Void, nil
}

func modelLoadJSON(in *Interp, c *gt.T) (Val, *RunErr) {
	if len(c.Kids) != 1 {
		unspec("load_json arity")
	}
	v, err := in.eval(c.Kids[0])
	if err != nil {
		return Void, err
	}
	s, ok := v.V.(string)
	if !ok {
		return Void, in.errAt(c, "load_json needs a string")
	}
	var out any
	if e := json.Unmarshal([]byte(s), &out); e != nil {
		return Void, in.errAt(c, "invalid JSON")
	}
	return Of(out), nil
}

func (in *Interp) fmtArgs(c *gt.T, from int, ignoreErrors bool) ([]any, *RunErr) {
	var out []any
	for _, a := range c.Kids[from:] {
		v, err := in.eval(a)
		if err != nil {
			if ignoreErrors {
				out = append(out, nil)
				continue
			}
			return nil, err
		}
		if cyclic(v.V, nil) {
			// a value that contains itself cannot be formatted: a run-time
			// error at the call (repair D4)
			return nil, in.errAt(c, "cannot format a list or map that contains itself")
		}
		out = append(out, v.V)
	}
	return out, nil
}

// cyclic reports whether v reaches itself; path holds the containers on the
// way down (shared parts that are not on the path are fine).
func cyclic(v any, path []any) bool {
	same := func(a, b any) bool {
		switch x := a.(type) {
		case []any:
			y, ok := b.([]any)
			return ok && len(x) > 0 && len(y) > 0 && &x[0] == &y[0] && len(x) == len(y)
		case map[string]any:
			y, ok := b.(map[string]any)
			return ok && reflect.ValueOf(x).Pointer() == reflect.ValueOf(y).Pointer()
		}
		return false
	}
	switch x := v.(type) {
	case []any:
		for _, p := range path {
			if same(p, v) {
				return true
			}
		}
		for _, e := range x {
			if cyclic(e, append(path, v)) {
				return true
			}
		}
	case map[string]any:
		for _, p := range path {
			if same(p, v) {
				return true
			}
		}
		for _, e := range x {
			if cyclic(e, append(path, v)) {
				return true
			}
		}
	}
	return false
}

func modelStrfmt(in *Interp, c *gt.T) (Val, *RunErr) {
	needPoint(in)
	k := pkey(argKey(c, 0))
	f := argStrLit(c, 1)
	args, ferr := in.fmtArgs(c, 2, true)
	if ferr != nil {
		return Void, ferr
	}
	in.Point.Set(k, Val{fmt.Sprintf(f, args...), TStr})
	return Void, nil
}

func modelPrintf(in *Interp, c *gt.T) (Val, *RunErr) {
	if len(c.Kids) < 1 {
		unspec("printf arity")
	}
	fv, err := in.eval(c.Kids[0])
	if err != nil {
		unspec("printf with a failing format expression")
	}
	f, ok := fv.V.(string)
	if !ok || f == "" {
		return Void, nil
	}
	args, e := in.fmtArgs(c, 1, false)
	if e != nil {
		return Void, e
	}
	fmt.Fprintf(&in.Shared.Stdout, f, args...)
	return Void, nil
}

func modelTrim(in *Interp, c *gt.T) (Val, *RunErr) {
	needPoint(in)
	k := argKey(c, 0)
	s, ok := in.subjectStr(k)
	if !ok {
		return Void, nil
	}
	cut := ""
	if len(c.Kids) == 2 {
		cut = argStrLit(c, 1)
	}
	if cut == "" {
		s = strings.TrimSpace(s)
	} else {
		s = strings.Trim(s, cut)
	}
	in.Point.Set(pkey(k), Val{s, TStr})
	return Void, nil
}

func modelUppercase(in *Interp, c *gt.T) (Val, *RunErr) {
	needPoint(in)
	k := argKey(c, 0)
	s, ok := in.subjectStr(k)
	if !ok {
		return Void, nil
	}
	in.Point.Set(pkey(k), Val{strings.ToUpper(s), TStr})
	return Void, nil
}

func modelReplace(in *Interp, c *gt.T) (Val, *RunErr) {
	needPoint(in)
	k := argKey(c, 0)
	re, err := regexp.Compile(argStrLit(c, 1))
	if err != nil {
		// a bad regular expression is an error or a no-op, never a value
		e := in.errAt(c, "bad regular expression")
		e.Unsure = true
		return Void, e
	}
	repl := argStrLit(c, 2)
	s, ok := in.subjectStr(k)
	if !ok {
		return Void, nil
	}
	in.Point.Set(pkey(k), Val{re.ReplaceAllString(s, repl), TStr})
	return Void, nil
}

func modelURLDecode(in *Interp, c *gt.T) (Val, *RunErr) {
	needPoint(in)
	k := argKey(c, 0)
	s, ok := in.subjectStr(k)
	if !ok {
		return Void, nil
	}
	d, err := url.QueryUnescape(s)
	if err != nil {
		e := in.errAt(c, "undecodable URL")
		e.Unsure = true
		return Void, e
	}
	in.Point.Set(pkey(k), Val{d, TStr})
	return Void, nil
}
