#!/bin/sh
# ./seedtest_alt.sh <patch.diff> <tier> <Cxx> [<Cxx> ...]
# Like seedtest.sh, but leaves /repo alone: the change is applied to a scratch
# worktree of /repo's HEAD under /tmp, vcheck is built against that copy
# (-modfile with the replace directive pointing at it) into a scratch root, and
# everything is removed afterwards. Several of these can run side by side.
# A testing aid only: the registered checks always build from /repo itself.
PATCH=$(readlink -f "$1"); TIER="$2"; shift 2
cd "$(dirname "$0")" || exit 2
export GOFLAGS=-mod=mod GOPROXY=off GOSUMDB=off GOTOOLCHAIN=local
ALT=$(mktemp -d /tmp/valt.XXXXXX)
trap 'git -C /repo worktree remove --force "$ALT/repo" >/dev/null 2>&1; rm -rf "$ALT"' EXIT INT TERM
git -C /repo worktree add --detach "$ALT/repo" HEAD >/dev/null 2>&1 || { echo "cannot add worktree"; exit 2; }
git -C "$ALT/repo" apply "$PATCH" || { echo "patch does not apply"; exit 2; }
mkdir -p "$ALT/.build"; ln -s /verif/known_findings.json "$ALT/known_findings.json"
sed "s#=> /repo#=> $ALT/repo#" go.mod > "$ALT/go.alt.mod"; cp go.sum "$ALT/go.alt.sum"
for id in "$@"; do
  case "$id" in
    C16) bin=vcheck-race; go build -trimpath -modfile="$ALT/go.alt.mod" -race -tags verif -o "$ALT/.build/$bin" ./cmd/vcheck || { echo "$id build failed"; continue; } ;;
    *)   bin=vcheck; [ -x "$ALT/.build/vcheck" ] || go build -trimpath -modfile="$ALT/go.alt.mod" -tags verif -o "$ALT/.build/$bin" ./cmd/vcheck || { echo "$id build failed"; continue; } ;;
  esac
  if [ "$id" = C20 ]; then (cd "$ALT/repo" && go build -trimpath -o "$ALT/.build/platypus" ./cmd/platypus) || { echo "$id platypus build failed"; continue; }; fi
  out=$("$ALT/.build/$bin" run "$id" "$TIER" 2>&1); code=$?
  cls=$(printf '%s\n' "$out" | grep -m3 '^  class=' | sed 's/^  class=\([^ ]*\).*/\1/' | tr '\n' ',' )
  echo "$id $TIER exit=$code classes=${cls:--}"
  if [ -n "$VERBOSE" ]; then printf '%s\n' "$out" | cut -c1-300 | head -40; fi
done
