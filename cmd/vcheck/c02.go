package main

import (
	"fmt"
	"math"
	"strings"
	"time"

	"verif/internal/drive"
	"verif/internal/gen"
	"verif/internal/gt"
	"verif/internal/mon"
	"verif/internal/ref"
)

// C02: operators evaluate exactly as the language reference specifies.

type c02 struct{}

func init() {
	register(c02{})
	mon.Assumptions["C02"] = []string{
		"reference operator semantics in internal/ref (Arith, Equal, Compare, In, unary): written from the syntax reference and the property text",
		"frozen de-facto (pinned by the repository's own tests): bool takes part in arithmetic and ordering as 0/1 (TestOp); `!x` is the negation of the documented truthiness of x",
		"error messages and which of two offending operands is reported are not compared; a literal zero divisor may be rejected at load time instead of at run time",
	}
}

func (c02) ID() string { return "C02" }
func (c02) Rule() string {
	return "table: every operator (14 binary, 5 compound assignments, 3 unary) x every ordered pair of 38 operand values covering nil, bool, int (0, +-1, +-2, 2^31, 2^53+-1, max, min), float (0.0, fractions, 2^53, huge, tiny, inf, nan), string, list, map, with operands supplied as literals, as variables and as point keys (exhaustive); trees: seeded expression trees with every leaf wrapped in t(id, v) so that order and count of evaluation are observable. The value AND Go type the real evaluator hands to the probe must equal the reference result; errors must be reported exactly when the reference says so. Distinct = (operator, left class, right class, source) cells for the table, distinct tree texts otherwise."
}

type opnd struct {
	Class string
	Lit   func() *gt.T // expression that evaluates to the value
	Val   any          // the value (for point fields); nil Val + !Scalar => not storable
	Point bool         // may be supplied as a point field
}

var c02Operands = []opnd{
	{"nil", gt.Nil, nil, true},
	{"true", func() *gt.T { return gt.Bool(true) }, true, true},
	{"false", func() *gt.T { return gt.Bool(false) }, false, true},
	{"int0", func() *gt.T { return gt.Int(0) }, int64(0), true},
	{"int1", func() *gt.T { return gt.Int(1) }, int64(1), true},
	{"int-1", func() *gt.T { return gt.Int(-1) }, int64(-1), true},
	{"int2", func() *gt.T { return gt.Int(2) }, int64(2), true},
	{"int-2", func() *gt.T { return gt.Int(-2) }, int64(-2), true},
	{"int7", func() *gt.T { return gt.Int(7) }, int64(7), true},
	{"int2^31", func() *gt.T { return gt.Int(1 << 31) }, int64(1 << 31), true},
	{"int2^53-1", func() *gt.T { return gt.Int(1<<53 - 1) }, int64(1<<53 - 1), true},
	{"int2^53", func() *gt.T { return gt.Int(1 << 53) }, int64(1 << 53), true},
	{"int2^53+1", func() *gt.T { return gt.Int(1<<53 + 1) }, int64(1<<53 + 1), true},
	{"int-(2^53+1)", func() *gt.T { return gt.Int(-(1<<53 + 1)) }, int64(-(1<<53 + 1)), true},
	{"intmax-1", func() *gt.T { return gt.Int(math.MaxInt64 - 1) }, int64(math.MaxInt64 - 1), true},
	{"intmax", func() *gt.T { return gt.Int(math.MaxInt64) }, int64(math.MaxInt64), true},
	{"int-max", func() *gt.T { return gt.Int(-math.MaxInt64) }, int64(-math.MaxInt64), true},
	{"intmin", func() *gt.T { return gt.Paren(gt.Bin("-", gt.Int(-math.MaxInt64), gt.Int(1))) }, int64(math.MinInt64), true},
	{"float0", func() *gt.T { return gt.Float(0) }, float64(0), true},
	{"float-0", func() *gt.T { return gt.Float(math.Copysign(0, -1)) }, math.Copysign(0, -1), true},
	{"float0.5", func() *gt.T { return gt.Float(0.5) }, float64(0.5), true},
	{"float-0.5", func() *gt.T { return gt.Float(-0.5) }, float64(-0.5), true},
	{"float1", func() *gt.T { return gt.Float(1) }, float64(1), true},
	{"float2", func() *gt.T { return gt.Float(2) }, float64(2), true},
	{"float2^53", func() *gt.T { return gt.Float(1 << 53) }, float64(1 << 53), true},
	{"float1e308", func() *gt.T { return gt.Float(1e308) }, float64(1e308), true},
	{"float5e-324", func() *gt.T { return gt.Float(5e-324) }, float64(5e-324), true},
	{"floatinf", func() *gt.T { return gt.Float(math.Inf(1)) }, math.Inf(1), true},
	{"floatnan", func() *gt.T { return gt.Float(math.NaN()) }, math.NaN(), true},
	{"str-empty", func() *gt.T { return gt.Str("") }, "", true},
	{"str-a", func() *gt.T { return gt.Str("a") }, "a", true},
	{"str-ab", func() *gt.T { return gt.Str("ab") }, "ab", true},
	{"str-1", func() *gt.T { return gt.Str("1") }, "1", true},
	{"list-empty", func() *gt.T { return gt.List() }, nil, false},
	{"list-1", func() *gt.T { return gt.List(gt.Int(1)) }, nil, false},
	{"list-1a", func() *gt.T { return gt.List(gt.Int(1), gt.Str("a")) }, nil, false},
	{"list-nested", func() *gt.T { return gt.List(gt.List(gt.Int(1)), gt.Float(1)) }, nil, false},
	{"map-empty", func() *gt.T { return gt.Map() }, nil, false},
	{"map-a", func() *gt.T { return gt.Map(gt.Str("a"), gt.Int(1)) }, nil, false},
	// containers that differ only in a key, a nil, an element type or nesting
	{"map-a-nil", func() *gt.T { return gt.Map(gt.Str("a"), gt.Nil()) }, nil, false},
	{"map-b-nil", func() *gt.T { return gt.Map(gt.Str("b"), gt.Nil()) }, nil, false},
	{"map-a-nil-x", func() *gt.T { return gt.Map(gt.Str("a"), gt.Nil(), gt.Str("x"), gt.Int(1)) }, nil, false},
	{"map-x-b", func() *gt.T { return gt.Map(gt.Str("x"), gt.Int(1), gt.Str("b"), gt.Int(2)) }, nil, false},
	{"list-map-a-nil", func() *gt.T { return gt.List(gt.Int(1), gt.Map(gt.Str("a"), gt.Nil())) }, nil, false},
	{"list-map-b-7", func() *gt.T { return gt.List(gt.Int(1), gt.Map(gt.Str("b"), gt.Int(7))) }, nil, false},
	{"list-nil", func() *gt.T { return gt.List(gt.Nil()) }, nil, false},
	{"list-1.0", func() *gt.T { return gt.List(gt.Float(1)) }, nil, false},
	{"list-list-empty", func() *gt.T { return gt.List(gt.List()) }, nil, false},
}

var c02Compound = []string{"+=", "-=", "*=", "/=", "%="}

func (c02) Plan(tier string, seed int64) []mon.Workload {
	n := int64(len(c02Operands))
	nsrc := int64(3)
	trees := int64(3000)
	if tier == "thorough" {
		trees = 250000
	} else {
		nsrc = 3
	}
	return []mon.Workload{
		{Name: "binary-table", N: int64(len(gen.BinOps)) * n * n * nsrc, Exhaustive: true},
		{Name: "unary-of-binary", N: int64(len(gen.BinOps)) * n * n * 2, Exhaustive: true},
		{Name: "compound-table", N: int64(len(c02Compound)) * n * n * 2, Exhaustive: true},
		{Name: "unary-table", N: int64(len(gen.UnaryOps)) * n * nsrc, Exhaustive: true},
		{Name: "trees", N: trees},
		{Name: "retyped-in-loop", N: int64(len(gen.BinOps) * len(c02Retypes) * len(c02RetypeLoops)), Exhaustive: true},
		{Name: "literal-chains", N: int64(len(c02ChainOps) * len(c02Operands) * len(c02ChainConsts) * len(c02ChainConsts)), Exhaustive: true},
		{Name: "in-context", N: int64(len(gen.BinOps) * len(c02CtxVals) * len(c02CtxVals) * len(c02Contexts)), Exhaustive: true},
		{Name: "membership-after-write", N: int64(len(c02MemLens) * len(c02MemHomes) * len(c02MemWrites) * 4), Exhaustive: true},
		{Name: "big-operands", N: int64(len(c02BigSizes) * 3), Exhaustive: true},
		{Name: "point-key-compound", N: int64(len(c02PKTargets) * len(c02PKRhs) * 5 * len(c02PKWraps)), Exhaustive: true},
	}
}

// literal-chains (exhaustive): `x OP c1 OP c2` with the same arithmetic
// operator twice and integer literals as trailing operands is evaluated left
// to right, one operation at a time, whatever x turns out to be at run time
// (float rounding is not associative, int64 products wrap): every operand
// value as x (through a variable) x 7 x 7 constants x 5 operators, plus the
// mixed chain `x OP c1 OP2 c2`.
var c02ChainOps = []string{"+", "*", "-", "/", "%", "+*", "*+", "-+"}
var c02ChainConsts = []string{"1", "3", "5", "9007199254740993", "4294967296", "0", "7"}

// in-context (exhaustive): `x OP y` (variables; one value per type class)
// written where a statement takes a condition or a clause - loop condition
// with and without the other clauses, if / elif condition, inside a loop
// body, inside literals - instead of as a probe argument: the operator gives
// the same value, or the same error, wherever it is written.
var c02CtxVals = []string{"nil", "true", "1", "3", "0.5", "\"a\"", "\"3\"", "[1, 2]", "{\"a\": 1}"}
var c02Contexts = []string{
	"for i = 0; x OP y; i = i + 1 {\n  p(\"body\", i)\n  if i >= 1 {\n    break\n  }\n}\n",
	"for ; x OP y; {\n  p(\"body\")\n  break\n}\n",
	"for x = X0; x OP y; x = x + 1 {\n  p(\"body\", x)\n  if x >= 2 {\n    break\n  }\n}\n",
	"if x OP y {\n  p(\"then\")\n} else {\n  p(\"else\")\n}\n",
	"if false {\n} elif x OP y {\n  p(\"elif\")\n} else {\n  p(\"else\")\n}\n",
	"for e in [1, 2] {\n  if x OP y {\n    continue\n  }\n  p(e)\n}\n",
	"p([x OP y], {\"k\": x OP y})\n",
	"z = x OP y\np(z)\n",
}

// membership-after-write (exhaustive): `v in L` is asked of the list as it is
// NOW. Lists of 1..33 scalars (sizes on both sides of powers of two) that live
// in a variable or inside another container, tested, written in place (directly,
// through the path, through an alias, by a compound assignment) and tested
// again - with and without the first test, on integers and on strings.
var c02MemLens = []int{1, 2, 3, 7, 8, 9, 15, 16, 17, 32, 33}
var c02MemHomes = [][2]string{{"a = LIST\n", "a"}, {"m = {\"k\": LIST, \"j\": [0]}\n", "m[\"k\"]"}, {"o = [LIST, 5]\n", "o[0]"}, {"o = [0, {\"q\": LIST}]\n", "o[1][\"q\"]"}}
var c02MemWrites = []string{"L[I] = NEW", "al = L\nal[I] = NEW", "L[I] += DELTA", "L[-1] = NEW", "for i = 0; i < 2; i = i + 1 {\n  L[I] = NEW\n  p(NEW in L, OLD in L)\n  L[I] = OLD\n  p(NEW in L, OLD in L)\n}",
	"w = L\nL[I] = NEW\np(NEW in w, OLD in w)"}

// big-operands (exhaustive): equality, concatenation and
// membership on BIG operands - strings, lists and maps of 7..65537 bytes /
// elements / keys (both sides of powers of two) that are equal, or differ in
// their last byte / element / value only, or are each other's prefix.
var c02BigSizes = []int{7, 8, 9, 15, 16, 17, 31, 32, 33, 63, 64, 65, 127, 128, 129, 255, 256, 257, 1023, 1024, 1025, 4095, 4096, 4097, 65535, 65536, 65537}

func c02BigOperands(i int64) c02Case {
	kind := int(i % 3)
	n := c02BigSizes[int(i)/3]
	var sb strings.Builder
	switch kind {
	case 0:
		body := strings.Repeat("abcdefghijklmnopqrstuvwxyz", n/26+1)[:n]
		fmt.Fprintf(&sb, "a = \"%s\"\nb = \"%s\"\nc = \"%sZ\"\nd = \"%s\"\n", body, body, body[:n-1], body[:n-1])
		sb.WriteString("p(a == b, a == c, a != c, a != b, c == a, b == a, d == a, d != a, [a] == [b], {\"s\": a} == {\"s\": c})\n")
		sb.WriteString("p(len(a + c), a + b == b + a, a + \"\" == a, d + a[-1:] == a, c in a, d in a, a in d, a[-3:] in a, \"Z\" in a, \"Z\" in c)\n")
	case 1:
		if n > 4097 {
			n = 4097 + n%7 // lists and maps stop near 4K elements
		}
		el := func(last string) string {
			var b strings.Builder
			b.WriteString("[")
			for j := 0; j < n-1; j++ {
				fmt.Fprintf(&b, "%d, ", j)
			}
			return b.String() + last + "]"
		}
		fmt.Fprintf(&sb, "a = %s\nb = %s\nc = %s\nd = a[:-1]\n", el(fmt.Sprint(n-1)), el(fmt.Sprint(n-1)), el("-5"))
		fmt.Fprintf(&sb, "p(a == b, a == c, a != c, a != b, d == a, d == c[:-1], a == a, %d in a, %d in c, -5 in c, -5 in a, %d in d, [a] == [b], [a] == [c])\n", n-1, n-1, n-1)
	case 2:
		if n > 4097 {
			n = 4097 + n%7
		}
		mp := func(rev bool, last string) string {
			var b strings.Builder
			b.WriteString("{")
			for j := 0; j < n; j++ {
				k := j
				if rev {
					k = n - 1 - j
				}
				v := fmt.Sprint(k)
				if k == n-1 {
					v = last
				}
				if j > 0 {
					b.WriteString(", ")
				}
				fmt.Fprintf(&b, "\"k%d\": %s", k, v)
			}
			return b.String() + "}"
		}
		fmt.Fprintf(&sb, "a = %s\nb = %s\nc = %s\n", mp(false, fmt.Sprint(n-1)), mp(true, fmt.Sprint(n-1)), mp(false, "-5"))
		fmt.Fprintf(&sb, "p(a == b, a == c, a != c, a != b, len(a), a[\"k%d\"], c[\"k%d\"], a[\"k0\"], {\"m\": a} == {\"m\": b}, {\"m\": a} == {\"m\": c})\n", n-1, n-1)
	}
	o := drive.Parse("big-operands", sb.String())
	if o.Err != nil {
		panic("c02: big-operands program does not parse: " + o.Err.Error())
	}
	l, err := gt.FromStmts(o.Stmts)
	if err != nil {
		panic(err)
	}
	return c02Case{Stmts: gt.CloneStmts(l), Point: gen.ModelPoint(gen.Rand(1), nil, nil), Cell: ""}
}

// point-key-compound (exhaustive): `T op= R` where the target T is read from
// the POINT (no variable of that name yet: a field of every type, a tag, an
// absent key) and R is a literal, a variable, another point key, the same
// key, an expression over two keys, a call over a key - straight-line, in a
// loop (second iteration: T is a variable by then) and in a branch. The left
// operand is the target's value at the moment of the operation.
var c02PKTargets = []string{"pi", "pf", "ps", "pt", "pn", "pb"}
var c02PKRhs = []string{"3", "v", "pi", "pf", "ps", "T", "pi + pf", "pi * 2 - pf", "(pi)", "t(1, pf)", "-pi", "pt", "pn"}
var c02PKWraps = []string{"S\n", "for i = 0; i < 2; i = i + 1 {\n  S\n  p(T)\n}\n", "if pi == 10 {\n  S\n}\n", "w = T\nS\np(w)\n", "S\nS\n"}

func c02PointKeyCompound(i int64) c02Case {
	wrap := c02PKWraps[int(i)%len(c02PKWraps)]
	i /= int64(len(c02PKWraps))
	op := []string{"+=", "-=", "*=", "/=", "%="}[i%5]
	i /= 5
	rhs := c02PKRhs[int(i)%len(c02PKRhs)]
	tgt := c02PKTargets[int(i)/len(c02PKRhs)]
	st := tgt + " " + op + " " + strings.ReplaceAll(rhs, "T", tgt)
	text := "v = 4\n" + strings.ReplaceAll(strings.ReplaceAll(wrap, "S", st), "T", tgt) + "p(" + tgt + ", pi, pf, ps, pt, pn)\n"
	o := drive.Parse("point-key-compound", text)
	if o.Err != nil {
		panic("c02: point-key-compound program does not parse: " + text + ": " + o.Err.Error())
	}
	l, err := gt.FromStmts(o.Stmts)
	if err != nil {
		panic(err)
	}
	pt := ref.NewPoint("m", map[string]string{"pt": "7"}, map[string]any{"pi": int64(10), "pf": 1.5, "ps": "s", "pb": true}, time.Unix(1700000000, 0))
	return c02Case{Stmts: gt.CloneStmts(l), Point: pt, Cell: ""}
}

func c02Membership(i int64) c02Case {
	variant := int(i % 4) // bit 0: test before the write too; bit 1: strings instead of integers
	i /= 4
	wr := c02MemWrites[int(i)%len(c02MemWrites)]
	i /= int64(len(c02MemWrites))
	home := c02MemHomes[int(i)%len(c02MemHomes)]
	n := c02MemLens[int(i)/len(c02MemHomes)]
	el := func(j int) string {
		if variant&2 != 0 {
			return fmt.Sprintf("\"s%d\"", j)
		}
		return fmt.Sprint(10 + j)
	}
	var elems []string
	for j := 0; j < n; j++ {
		elems = append(elems, el(j))
	}
	at := n / 2
	old, nw, delta := el(at), el(900), "890"
	if variant&2 != 0 {
		delta = "\"x\""
		if strings.Contains(wr, "+=") {
			nw = old[:len(old)-1] + "x\""
		}
	} else if strings.Contains(wr, "+=") {
		nw = fmt.Sprint(10 + at + 890)
	}
	if strings.Contains(wr, "[-1]") {
		old = el(n - 1)
	}
	rep := strings.NewReplacer("LIST", "["+strings.Join(elems, ", ")+"]", "L", home[1], "I", fmt.Sprint(at), "NEW", nw, "OLD", old, "DELTA", delta)
	text := rep.Replace(home[0])
	if variant&1 != 0 {
		text += rep.Replace("p(OLD in L, NEW in L, 10 in L)\n")
	}
	text += rep.Replace(wr) + "\n" + rep.Replace("p(OLD in L, NEW in L, 10 in L, len(L))\np(L)\n")
	o := drive.Parse("membership", text)
	if o.Err != nil {
		panic("c02: membership program does not parse: " + text + ": " + o.Err.Error())
	}
	l, err := gt.FromStmts(o.Stmts)
	if err != nil {
		panic(err)
	}
	return c02Case{Stmts: gt.CloneStmts(l), Point: gen.ModelPoint(gen.Rand(1), nil, nil), Cell: ""}
}

func c02InContext(i int64) c02Case {
	ctx := c02Contexts[int(i)%len(c02Contexts)]
	i /= int64(len(c02Contexts))
	n := int64(len(c02CtxVals))
	yv := c02CtxVals[i%n]
	i /= n
	xv := c02CtxVals[i%n]
	op := gen.BinOps[i/n]
	text := "x = " + xv + "\ny = " + yv + "\n" + strings.ReplaceAll(strings.ReplaceAll(ctx, "OP", op), "X0", xv) + "p(\"end\")\n"
	o := drive.Parse("in-context", text)
	if o.Err != nil {
		return c02Case{Skip: true}
	}
	l, err := gt.FromStmts(o.Stmts)
	if err != nil {
		panic(err)
	}
	return c02Case{Stmts: gt.CloneStmts(l), Point: gen.ModelPoint(gen.Rand(1), nil, nil), Cell: ""}
}

func c02Chain(i int64) c02Case {
	n := len(c02ChainConsts)
	c2 := c02ChainConsts[int(i)%n]
	i /= int64(n)
	c1 := c02ChainConsts[int(i)%n]
	i /= int64(n)
	o := c02Operands[int(i)%len(c02Operands)]
	ops := c02ChainOps[int(i)/len(c02Operands)]
	op1, op2 := string(ops[0]), string(ops[len(ops)-1])
	e := gt.Bin(op2, gt.Bin(op1, gt.Ident("x"), c08Offender(c1)), c08Offender(c2))
	stmts := []*gt.T{gt.Assign("=", gt.Ident("x"), o.Lit()), gt.Call("p", e)}
	return c02Case{Stmts: stmts, Point: gen.ModelPoint(gen.Rand(1), nil, nil), Cell: fmt.Sprintf("%s %s c %s c", o.Class, op1, op2)}
}

// retyped-in-loop (exhaustive): an operator applied to variables that hold
// ints the first time round a loop and something else (float, string, bool,
// nil, list) from the second iteration on - an operator looks at the types
// its operands have NOW, whatever they had before or whatever a static
// reading of the text above suggests.
var c02Retypes = []string{"1.5", "\"a\"", "true", "nil", "[1]", "2.0", "9007199254740993", "-0.75"}
var c02RetypeLoops = []string{
	"x = 1\ny = 2\nfor i = 0; i < 3; i = i + 1 {\n  p(x OP y, y OP x, x OP 2)\n  x = NEW\n}\n",
	"x = 1\nfor e in [1, 2, 3] {\n  p(x OP 3)\n  if e == 2 {\n    x = NEW\n  }\n}\np(x OP 3)\n",
	"for i = 0; i <= 1; i = i + 0.75 {\n  y = 2\n  p(i OP y)\n}\n",
	"x = 1\ny = 1\nfor i = 0; i < 2; i = i + 1 {\n  x OP= 1\n  p(x, y OP x)\n  y = NEW\n}\n",
	"x = 4\nfor i = 0; i < 3; x = NEW {\n  i = i + 1\n  p(x OP i)\n}\n",
}

func c02Retyped(i int64) c02Case {
	loop := c02RetypeLoops[int(i)%len(c02RetypeLoops)]
	i /= int64(len(c02RetypeLoops))
	nv := c02Retypes[int(i)%len(c02Retypes)]
	op := gen.BinOps[int(i)/len(c02Retypes)]
	if strings.Contains(loop, "OP=") {
		switch op {
		case "+", "-", "*", "/", "%":
		default:
			return c02Case{Skip: true}
		}
	}
	text := strings.ReplaceAll(strings.ReplaceAll(loop, "OP", op), "NEW", nv)
	o := drive.Parse("retyped", text)
	if o.Err != nil {
		return c02Case{Skip: true}
	}
	l, err := gt.FromStmts(o.Stmts)
	if err != nil {
		panic(err)
	}
	return c02Case{Stmts: gt.CloneStmts(l), Point: gen.ModelPoint(gen.Rand(1), nil, nil), Cell: ""}
}

type c02Case struct {
	Stmts []*gt.T
	Point *ref.Point
	Cell  string
	Skip  bool
}

func operandAs(o opnd, src int, varName, keyName string, pre *[]*gt.T, pt *ref.Point) (*gt.T, bool) {
	switch src {
	case 0:
		return o.Lit(), true
	case 1:
		*pre = append(*pre, gt.Assign("=", gt.Ident(varName), o.Lit()))
		return gt.Ident(varName), true
	default:
		if !o.Point {
			return nil, false
		}
		pt.Fields[keyName] = o.Val
		return gt.Ident(keyName), true
	}
}

var srcNames = []string{"literal", "variable", "point-key"}

func (c02) build(c *mon.Ctx, workload string, i int64) c02Case {
	n := int64(len(c02Operands))
	pt := gen.ModelPoint(c.R, nil, nil)
	var pre []*gt.T
	switch workload {
	case "retyped-in-loop":
		return c02Retyped(i)
	case "literal-chains":
		return c02Chain(i)
	case "in-context":
		return c02InContext(i)
	case "membership-after-write":
		return c02Membership(i)
	case "big-operands":
		return c02BigOperands(i)
	case "point-key-compound":
		return c02PointKeyCompound(i)
	case "binary-table":
		src := int(i % 3)
		i /= 3
		ri := i % n
		i /= n
		li := i % n
		op := gen.BinOps[i/n]
		l, ok1 := operandAs(c02Operands[li], src, "x", "kx", &pre, pt)
		r, ok2 := operandAs(c02Operands[ri], src, "y", "ky", &pre, pt)
		if !ok1 || !ok2 {
			return c02Case{Skip: true}
		}
		stmts := append(pre, gt.Call("p", gt.Bin(op, l, r)))
		return c02Case{Stmts: stmts, Point: pt, Cell: fmt.Sprintf("%s %s %s [%s]", c02Operands[li].Class, op, c02Operands[ri].Class, srcNames[src])}
	case "unary-of-binary":
		// `!(x OP y)` and `-(x OP y)` for every binary operator and every
		// ordered pair of operand values (variables): the unary operator
		// applies to the VALUE of the parenthesised expression
		u := []string{"!", "-"}[i%2]
		i /= 2
		ri := i % n
		i /= n
		li := i % n
		op := gen.BinOps[i/n]
		l, _ := operandAs(c02Operands[li], 1, "x", "kx", &pre, pt)
		r, _ := operandAs(c02Operands[ri], 1, "y", "ky", &pre, pt)
		stmts := append(pre, gt.Call("p", gt.Unary(u, gt.Paren(gt.Bin(op, l, r)))))
		return c02Case{Stmts: stmts, Point: pt, Cell: fmt.Sprintf("%s(%s %s %s)", u, c02Operands[li].Class, op, c02Operands[ri].Class)}
	case "compound-table":
		src := int(i % 2) // right operand: literal or variable
		i /= 2
		ri := i % n
		i /= n
		li := i % n
		op := c02Compound[i/n]
		pre = append(pre, gt.Assign("=", gt.Ident("x"), c02Operands[li].Lit()))
		r, _ := operandAs(c02Operands[ri], src, "y", "ky", &pre, pt)
		stmts := append(pre, gt.Assign(op, gt.Ident("x"), r), gt.Call("p", gt.Ident("x")))
		return c02Case{Stmts: stmts, Point: pt, Cell: fmt.Sprintf("%s %s %s [%s]", c02Operands[li].Class, op, c02Operands[ri].Class, srcNames[src])}
	case "unary-table":
		src := int(i % 3)
		i /= 3
		oi := i % n
		op := gen.UnaryOps[i/n]
		e, ok := operandAs(c02Operands[oi], src, "x", "kx", &pre, pt)
		if !ok {
			return c02Case{Skip: true}
		}
		var u *gt.T
		if op != "!" && (e.K == gt.KInt || e.K == gt.KFloat) {
			// a sign in front of a numeric literal is folded by the parser
			u = gt.Unary(op, gt.Paren(e))
		} else {
			u = gt.Unary(op, e)
		}
		stmts := append(pre, gt.Call("p", u))
		return c02Case{Stmts: stmts, Point: pt, Cell: fmt.Sprintf("%s %s [%s]", op, c02Operands[oi].Class, srcNames[src])}
	}
	// trees
	depth := 3
	if c.Tier == "thorough" {
		depth = 3 + c.R.Intn(3)
	}
	id := 0
	var tree func(d int) *gt.T
	leaf := func() *gt.T {
		id++
		o := c02Operands[c.R.Intn(len(c02Operands))]
		return gt.Call("t", gt.Int(int64(id)), o.Lit())
	}
	tree = func(d int) *gt.T {
		if d <= 0 || c.R.Intn(4) == 0 {
			return leaf()
		}
		switch c.R.Intn(8) {
		case 0:
			return gt.Unary(gen.UnaryOps[c.R.Intn(3)], tree(d-1))
		case 1:
			return gt.Paren(tree(d - 1))
		case 2:
			// membership in a LIST LITERAL whose elements are probes: every
			// element is evaluated, in order, exactly once, also after the
			// needle has been found (two times in three the needle is in)
			o := c02Operands[c.R.Intn(len(c02Operands))]
			id++
			needle := gt.Call("t", gt.Int(int64(id)), o.Lit())
			var elems []*gt.T
			for k := 1 + c.R.Intn(4); k > 0; k-- {
				if c.R.Intn(3) == 0 {
					elems = append(elems, tree(d-1))
				} else {
					elems = append(elems, leaf())
				}
			}
			if c.R.Intn(3) != 0 {
				id++
				at := c.R.Intn(len(elems) + 1)
				elems = append(elems[:at], append([]*gt.T{gt.Call("t", gt.Int(int64(id)), o.Lit())}, elems[at:]...)...)
			}
			if c.R.Intn(4) == 0 {
				return gt.Bin("in", needle, gt.Map(gt.Str("k"), elems[0]))
			}
			return gt.Bin("in", needle, gt.List(elems...))
		case 3:
			// list / map literals as operands: element evaluation order
			if c.R.Intn(2) == 0 {
				return gt.List(tree(d-1), leaf())
			}
			return gt.Map(gt.Str("a"), leaf(), gt.Str("b"), tree(d-1))
		default:
			op := gen.BinOps[c.R.Intn(len(gen.BinOps))]
			// bias towards combinations that do not fail at once
			return gt.Bin(op, tree(d-1), tree(d-1))
		}
	}
	e := tree(depth)
	return c02Case{Stmts: []*gt.T{gt.Call("p", e)}, Point: pt, Cell: ""}
}

func (k c02) Describe(c *mon.Ctx, workload string, i int64) any {
	cs := k.build(c, workload, i)
	if cs.Skip {
		return "skipped combination"
	}
	return map[string]any{"source": gt.Print(gt.ParenthesizeStmts(cs.Stmts), nil), "point": cs.Point.Show(), "cell": cs.Cell}
}

func (k c02) Run(c *mon.Ctx, workload string, i int64) {
	cs := k.build(c, workload, i)
	if cs.Skip {
		return
	}
	stmts := gt.ParenthesizeStmts(cs.Stmts)
	src := gt.Print(stmts, nil)
	const name = "c02.p"
	prog := &ref.Program{Scripts: map[string][]*gt.T{name: stmts}, Funcs: ref.ProbeFuncs()}
	model := cs.Point.Clone()
	mo := ref.Run(prog, name, model, modelBudget)
	info := map[string]any{"source": src, "point": cs.Point.Show(), "cell": cs.Cell}
	script, err := drive.LoadV1One(name, src)
	c.Eval(1)
	if cs.Cell != "" {
		c.Nontrivial(cs.Cell)
		c.Cell("cells", cs.Cell)
	} else if mo.Unspecified == "" {
		c.Nontrivial(src)
	}
	if err != nil {
		// a literal zero divisor may be rejected at load time
		if mo.Err != nil {
			c.Count("rejected_at_load_and_model_errors", 1)
			return
		}
		c.Violate("valid-program-rejected", fmt.Sprintf("rejected at load: %v\n%s", err, src), info)
		return
	}
	real := drive.PointFromModel(cs.Point)
	ro := drive.RunV1(script, real, &drive.RunState{Budget: realBudget(mo.Shared.Steps)})
	if mo.Unspecified != "" {
		c.Count("not_compared_unspecified", 1)
		c.Cell("unspecified_reasons", mo.Unspecified)
	} else {
		c.Count("compared", 1)
		if mo.Err != nil {
			c.Count("reference_says_error", 1)
			if workload == "big-operands" || workload == "membership-after-write" {
				c.Count("reference_says_error:"+workload, 1)
				c.Cell("reference_errors:"+workload, mo.Err.Msg)
			}
		}
	}
	if r := compareRun(ro, mo, cmpOpts{}); r != nil {
		cl := r.Class
		if cs.Cell != "" {
			cl += ":" + workload
		}
		want := "an error"
		if mo.Err == nil && len(mo.Events) > 0 {
			want = mo.Events[len(mo.Events)-1].String()
		}
		c.Violate(cl, fmt.Sprintf("%s\n--- program\n%s--- reference result: %s", r.Detail, src, want), info)
		return
	}
	if !againV1(c, script, name, src, cs.Point, nil, mo, i%4 == 0 || workload != "table", "", info) {
		return
	}
	if workload == "membership-after-write" || workload == "big-operands" {
		// the same program on the v2 interpreter
		runV2Text(c, "membership-after-write", src)
	}
	if c.WantSample() && mo.Unspecified == "" && (workload == "trees" || i%977 == 0) {
		res := "error"
		if mo.Err == nil && len(mo.Events) > 0 {
			res = mo.Events[len(mo.Events)-1].String()
		}
		c.Sample(map[string]any{"source": src, "result": res})
	}
}
