package main

import (
	"fmt"
	"sort"
	"strings"

	plrt "github.com/GuanceCloud/platypus/pkg/engine/runtime"
	"github.com/GuanceCloud/platypus/pkg/inimpl/guancecloud/input"

	"github.com/GuanceCloud/platypus/pkg/engine/runtimev2"

	"verif/internal/drive"
	"verif/internal/gt"
	"verif/internal/mon"
	"verif/internal/ref"
)

// modelBudget bounds the reference run; the real run gets a budget at least
// 100 times what the model needed.
const modelBudget = 200000

func realBudget(modelSteps int64) int64 { return 100*modelSteps + 5000 }

func showEvents(ev []ref.Event, from, n int) string {
	var sb strings.Builder
	for i := from; i < len(ev) && i < from+n; i++ {
		fmt.Fprintf(&sb, "    [%d] %s\n", i, ev[i])
	}
	return sb.String()
}

func toRefEvents(ev []drive.Event) []ref.Event {
	out := make([]ref.Event, len(ev))
	for i, e := range ev {
		out[i] = ref.Event{Kind: e.Kind, Script: e.Script, ID: e.ID, Vals: e.Vals}
	}
	return out
}

func eventsEqual(a, b ref.Event, v2 bool) bool {
	if a.Kind != b.Kind || len(a.Vals) != len(b.Vals) || !ref.DeepEqual(a.ID, b.ID, true) {
		return false
	}
	if !v2 && a.Script != b.Script {
		return false
	}
	for i := range a.Vals {
		if a.Vals[i].T != b.Vals[i].T || !ref.DeepEqual(a.Vals[i].V, b.Vals[i].V, true) {
			return false
		}
	}
	return true
}

// compareTraces returns "" when the real trace equals the model trace.
func compareTraces(real, model []ref.Event, v2 bool) string {
	n := len(real)
	if len(model) < n {
		n = len(model)
	}
	for i := 0; i < n; i++ {
		if !eventsEqual(real[i], model[i], v2) {
			return fmt.Sprintf("event %d differs\n  real : %s\n  model: %s\n  preceding events:\n%s", i, real[i], model[i], showEvents(model, max(0, i-3), 3))
		}
	}
	if len(real) != len(model) {
		longer, who := real, "real run"
		if len(model) > len(real) {
			longer, who = model, "reference model"
		}
		return fmt.Sprintf("the real run produced %d events, the reference model %d; first extra event (from the %s): %s", len(real), len(model), who, longer[n])
	}
	return ""
}

// comparePoint returns "" when the real point equals the model point.
func comparePoint(real *input.Point, model *ref.Point) string {
	if model == nil {
		return ""
	}
	if real.Measurement != model.Measurement {
		return fmt.Sprintf("measurement %q, expected %q", real.Measurement, model.Measurement)
	}
	var ks []string
	for k := range model.Tags {
		ks = append(ks, k)
	}
	for k := range real.Tags {
		if _, ok := model.Tags[k]; !ok {
			ks = append(ks, k)
		}
	}
	sort.Strings(ks)
	for _, k := range ks {
		rv, rok := real.Tags[k]
		mv, mok := model.Tags[k]
		if rok != mok || rv != mv {
			return fmt.Sprintf("tag %q: real %s, expected %s", k, optS(rv, rok), optS(mv, mok))
		}
	}
	ks = ks[:0]
	for k := range model.Fields {
		ks = append(ks, k)
	}
	for k := range real.Fields {
		if _, ok := model.Fields[k]; !ok {
			ks = append(ks, k)
		}
	}
	sort.Strings(ks)
	for _, k := range ks {
		rv, rok := real.Fields[k]
		mv, mok := model.Fields[k]
		if rok != mok || !ref.DeepEqual(rv, mv, true) {
			return fmt.Sprintf("field %q: real %s, expected %s", k, optV(rv, rok), optV(mv, mok))
		}
	}
	if !real.Time.Equal(model.Time) {
		return fmt.Sprintf("time %v, expected %v", real.Time.UnixNano(), model.Time.UnixNano())
	}
	return ""
}

func optS(s string, ok bool) string {
	if !ok {
		return "<absent>"
	}
	return fmt.Sprintf("%q", s)
}

func optV(v any, ok bool) string {
	if !ok {
		return "<absent>"
	}
	return ref.Show(v)
}

func showRealPoint(p *input.Point) string {
	if p == nil {
		return "<nil>"
	}
	m := &ref.Point{Measurement: p.Measurement, Tags: p.Tags, Fields: p.Fields, Time: p.Time}
	return m.Show()
}

// spanOfStmt returns the span of the outermost simple statement (or
// compound statement header) of stmts that contains node n's span.
func enclosingStmtSpan(stmts []*gt.T, n *gt.T) (span [2]int, ok bool) {
	if n == nil {
		return span, false
	}
	var walk func(l []*gt.T) bool
	walk = func(l []*gt.T) bool {
		for _, s := range l {
			if s.Span[0] <= n.Span[0] && n.Span[1] <= s.Span[1] && s.Span[1] > s.Span[0] {
				// descend into blocks first
				switch s.K {
				case gt.KIf:
					for _, b := range s.Blocks {
						if walk(b) {
							return true
						}
					}
					if walk(s.Else) {
						return true
					}
				case gt.KFor, gt.KForIn:
					if walk(s.Body) {
						return true
					}
				}
				span, ok = s.Span, true
				return true
			}
		}
		return false
	}
	walk(stmts)
	return
}

// verdict of comparing one real run with the reference run
type runCmp struct {
	Class  string
	Detail string
}

type cmpOpts struct {
	V2        bool
	Point     *ref.Point // model point after the run (nil: not compared)
	RealPoint *input.Point
}

// compareRun is the common oracle for the interpreter properties.
func compareRun(real drive.Outcome, model ref.Outcome, o cmpOpts) *runCmp {
	if real.Panic != nil {
		return &runCmp{"panic", fmt.Sprintf("the interpreter panicked: %v\n%s", real.Panic, firstN(real.Stack, 30))}
	}
	if model.Unspecified != "" || model.Budget || model.Shared.MapOrderDependent {
		// the documents do not fix the outcome (or the order of map keys)
		return nil
	}
	if real.Budget && real.State.TooBig {
		return &runCmp{"runaway-value", fmt.Sprintf("the real run showed a probe a string above 1 MiB after %d steps; the reference run never builds one", real.State.Steps)}
	}
	if real.Budget {
		return &runCmp{"runaway", fmt.Sprintf("the reference run ended after %d steps; the real run was still going after %d", model.Shared.Steps, real.State.Steps)}
	}
	if d := compareTraces(toRefEvents(real.State.Events), model.Events, o.V2); d != "" {
		return &runCmp{"trace-mismatch", d}
	}
	if (real.Err != nil) != (model.Err != nil) && !(model.Err != nil && model.Err.Unsure) {
		if real.Err != nil {
			return &runCmp{"unexpected-error", fmt.Sprintf("the real run reported %s; the reference semantics complete without error", drive.ErrString(real.Err))}
		}
		return &runCmp{"missing-error", fmt.Sprintf("the reference semantics report an error (%s at %s); the real run returned success", model.Err.Msg, model.Err.Node.Dump())}
	}
	if o.Point != nil && o.RealPoint != nil {
		if d := comparePoint(o.RealPoint, o.Point); d != "" {
			return &runCmp{"point-mismatch", d + "\n  real : " + showRealPoint(o.RealPoint) + "\n  model: " + o.Point.Show()}
		}
	}
	return nil
}

type scriptT = plrt.Script

// againV1 is the "no memory" pass shared by the interpreter monitors: the
// same loaded script run once more on a fresh copy of the point, and (when
// reload is set) the same text loaded once more under the same name and run,
// must both meet the reference outcome mo that the first run met. A loaded
// script keeps nothing from a run, and loading depends on the text alone;
// caches, memos and pooled buffers filled by the first load or run are what
// this pass looks at. Returns false after reporting a violation.
func againV1(c *mon.Ctx, script *scriptT, name, src string, mp *ref.Point, after *ref.Point, mo ref.Outcome, reload bool, suffix string, info any) bool {
	if mo.Unspecified != "" || mo.Budget || mo.TooBig || mo.Shared.MapOrderDependent {
		return true
	}
	real2 := drive.PointFromModel(mp)
	ro2 := drive.RunV1(script, real2, &drive.RunState{Budget: realBudget(mo.Shared.Steps)})
	c.Eval(1)
	c.Count("second_runs_of_the_same_loaded_script", 1)
	if r := compareRun(ro2, mo, cmpOpts{Point: after, RealPoint: real2}); r != nil {
		c.Violate("second-run-differs:"+r.Class+suffix, fmt.Sprintf("the SECOND run of the same loaded script differs from the reference (the first run agreed): %s\n--- program\n%s", r.Detail, src), info)
		return false
	}
	if !reload {
		return true
	}
	s3, err := drive.LoadV1One(name, src)
	if err != nil {
		c.Violate("second-load-rejected"+suffix, fmt.Sprintf("the text was accepted by the first load and rejected by the second: %v\n%s", err, src), info)
		return false
	}
	real3 := drive.PointFromModel(mp)
	ro3 := drive.RunV1(s3, real3, &drive.RunState{Budget: realBudget(mo.Shared.Steps)})
	c.Eval(1)
	c.Count("runs_of_a_second_load_of_the_same_text", 1)
	if r := compareRun(ro3, mo, cmpOpts{Point: after, RealPoint: real3}); r != nil {
		c.Violate("second-load-differs:"+r.Class+suffix, fmt.Sprintf("the run of a SECOND load of the same text differs from the reference (the first load's run agreed): %s\n--- program\n%s", r.Detail, src), info)
		return false
	}
	return true
}

// againV2 is againV1 for the v2 interpreter (no point).
func againV2(c *mon.Ctx, script *runtimev2.Script, name, src string, mo ref.Outcome, reload bool, suffix string, info any) bool {
	if mo.Unspecified != "" || mo.Budget || mo.TooBig || mo.Shared.MapOrderDependent {
		return true
	}
	ro2 := drive.RunV2(script, &drive.RunState{Budget: realBudget(mo.Shared.Steps)})
	c.Eval(1)
	c.Count("second_runs_of_the_same_loaded_script", 1)
	if r := compareRun(ro2, mo, cmpOpts{V2: true}); r != nil {
		c.Violate("second-run-differs:"+r.Class+suffix, fmt.Sprintf("the SECOND run of the same loaded script (v2) differs from the reference (the first run agreed): %s\n--- program\n%s", r.Detail, src), info)
		return false
	}
	if !reload {
		return true
	}
	s3, err := drive.LoadV2(name, src)
	if err != nil {
		c.Violate("second-load-rejected"+suffix, fmt.Sprintf("the text was accepted by the first load and rejected by the second (v2): %v\n%s", err, src), info)
		return false
	}
	ro3 := drive.RunV2(s3, &drive.RunState{Budget: realBudget(mo.Shared.Steps)})
	c.Eval(1)
	c.Count("runs_of_a_second_load_of_the_same_text", 1)
	if r := compareRun(ro3, mo, cmpOpts{V2: true}); r != nil {
		c.Violate("second-load-differs:"+r.Class+suffix, fmt.Sprintf("the run of a SECOND load of the same text (v2) differs from the reference: %s\n--- program\n%s", r.Detail, src), info)
		return false
	}
	return true
}

// wrapDeep puts a whole program below depth enclosing blocks of alternating
// kinds (if true / a loop that runs once / a for-in over one element): the
// program means the same, everything in it just lives deeper (scope frames,
// loop flags, nested statement lists). The wrappers' loop variables use
// names no generator uses.
func wrapDeep(stmts []*gt.T, depth int) []*gt.T {
	for d := depth; d > 0; d-- {
		switch d % 3 {
		case 0:
			stmts = []*gt.T{gt.If(gt.Bool(true), stmts...)}
		case 1:
			q := fmt.Sprintf("zw%d", d)
			stmts = []*gt.T{gt.For(gt.Assign("=", gt.Ident(q), gt.Int(0)), gt.Bin("<", gt.Ident(q), gt.Int(1)), gt.Assign("=", gt.Ident(q), gt.Bin("+", gt.Ident(q), gt.Int(1))), stmts...)}
		default:
			stmts = []*gt.T{gt.ForIn(fmt.Sprintf("zv%d", d), gt.List(gt.Int(1)), stmts...)}
		}
	}
	return stmts
}
