#!/bin/sh
# ./seedtest.sh <patch.diff> <tier> <Cxx> [<Cxx> ...]
# Applies a seeded change to /repo, runs the named checks, and ALWAYS restores /repo.
# Prints one line per check: <id> <tier> exit=<code> violations=<first VIOLATION class or ->.
PATCH=$(readlink -f "$1"); TIER="$2"; shift 2
cd "$(dirname "$0")" || exit 2
if [ -n "$(git -C /repo status --porcelain)" ]; then echo "/repo is not clean"; exit 2; fi
git -C /repo apply "$PATCH" || { echo "patch does not apply"; exit 2; }
trap 'git -C /repo checkout -- . ; git -C /repo clean -fdq' EXIT INT TERM
for id in "$@"; do
  out=$(./check.sh "$id" "$TIER" 2>&1); code=$?
  cls=$(printf '%s\n' "$out" | grep -m3 '^  class=' | sed 's/^  class=\([^ ]*\).*/\1/' | tr '\n' ',' )
  echo "$id $TIER exit=$code classes=${cls:--}"
  if [ -n "$VERBOSE" ]; then printf '%s\n' "$out" | cut -c1-300 | head -40; fi
done
