package main

import (
	"fmt"
	"strings"
	"unicode"

	"github.com/GuanceCloud/platypus/pkg/ast"
	"github.com/GuanceCloud/platypus/pkg/engine"
	"github.com/GuanceCloud/platypus/pkg/engine/runtimev2"
	"github.com/GuanceCloud/platypus/pkg/errchain"

	"verif/internal/drive"
	"verif/internal/mon"
	"verif/internal/ref"
)

// C19: v2 call arguments bind to the declared parameters or the call is
// rejected. Exhaustive enumeration of parameter lists and call shapes,
// driven through the real CheckFnParamDef / CheckPassParam / GetParam, with
// a small reference binder as the oracle.

type c19 struct{}

func init() {
	register(c19{})
	mon.Assumptions["C19"] = []string{
		"the probe function reads its parameters only through runtimev2.GetParam",
		"arguments are integer literals with unique values, so a received value identifies the argument it came from",
	}
}

func (c19) ID() string { return "C19" }
func (c19) Rule() string {
	return "exhaustive enumeration: every parameter list up to the tier's length over {required, optional, variadic} x 7 names (a b c d 1x '' 'a b'; repeats allowed) is validated; for every VALID list every call with up to the tier's number of arguments, each positional or named a/b/c/d/zz, is loaded through ParseV2 and, if accepted, run. Distinct = distinct (signature, call shape) pairs; non-trivial = at least one parameter and at least one argument, or a rejected definition."
}

var c19Names = []string{"a", "b", "c", "d", "1x", "", "a b"}
var c19Kinds = []string{"req", "opt", "var"}
var c19ArgNames = []string{"", "a", "b", "c", "d", "zz"} // "" = positional

type c19Param struct {
	Name string
	Kind string
}

func c19Bounds(tier string) (maxParams, maxArgs int) {
	if tier == "thorough" {
		return 4, 5
	}
	return 3, 4
}

func pow(b, e int) int64 {
	r := int64(1)
	for i := 0; i < e; i++ {
		r *= int64(b)
	}
	return r
}

// decodeSeq maps an index to a sequence over `radix` symbols with length
// 0..maxLen (shorter sequences first).
func decodeSeq(i int64, radix, maxLen int) []int {
	for n := 0; n <= maxLen; n++ {
		c := pow(radix, n)
		if i < c {
			out := make([]int, n)
			for k := n - 1; k >= 0; k-- {
				out[k] = int(i % int64(radix))
				i /= int64(radix)
			}
			return out
		}
		i -= c
	}
	panic("decodeSeq: index out of range")
}

func seqCount(radix, maxLen int) int64 {
	var t int64
	for n := 0; n <= maxLen; n++ {
		t += pow(radix, n)
	}
	return t
}

func c19List(i int64, maxParams int) []c19Param {
	seq := decodeSeq(i, len(c19Names)*len(c19Kinds), maxParams)
	out := make([]c19Param, len(seq))
	for k, s := range seq {
		out[k] = c19Param{Name: c19Names[s/len(c19Kinds)], Kind: c19Kinds[s%len(c19Kinds)]}
	}
	return out
}

func validIdent(s string) bool {
	if s == "" {
		return false
	}
	for i, r := range s {
		if r == '_' || unicode.IsLetter(r) || (i > 0 && unicode.IsDigit(r)) {
			continue
		}
		return false
	}
	return true
}

// refValidList is the reference validity of a parameter list.
func refValidList(l []c19Param) bool {
	seen := map[string]bool{}
	opt := false
	for i, p := range l {
		if !validIdent(p.Name) || seen[p.Name] {
			return false
		}
		seen[p.Name] = true
		switch p.Kind {
		case "opt":
			opt = true
		case "req":
			if opt {
				return false
			}
		case "var":
			if opt || i != len(l)-1 {
				return false
			}
		}
	}
	return true
}

var c19ValidCache = map[int][][]c19Param{}

func c19ValidLists(maxParams int) [][]c19Param {
	if v, ok := c19ValidCache[maxParams]; ok {
		return v
	}
	var out [][]c19Param
	n := seqCount(len(c19Names)*len(c19Kinds), maxParams)
	for i := int64(0); i < n; i++ {
		l := c19List(i, maxParams)
		if refValidList(l) {
			out = append(out, l)
		}
	}
	c19ValidCache[maxParams] = out
	return out
}

func (c19) Plan(tier string, seed int64) []mon.Workload {
	mp, ma := c19Bounds(tier)
	return []mon.Workload{
		{Name: "paramdefs", N: seqCount(len(c19Names)*len(c19Kinds), mp), Exhaustive: true},
		{Name: "calls", N: int64(len(c19ValidLists(mp))) * seqCount(len(c19ArgNames), ma), Exhaustive: true},
		{Name: "typed-getters", N: int64(len(c19Getters) * len(c19Lits) * 5), Exhaustive: true},
		{Name: "typed-calls", N: int64(len(c19ValidLists(mp))) * seqCount(len(c19ArgNames), ma), Exhaustive: true},
		{Name: "nested-calls", N: map[string]int64{"quick": 1500, "thorough": 100000}[tier]},
		{Name: "many-params", N: map[string]int64{"quick": 3000, "thorough": 150000}[tier]},
	}
}

// typed getters: GetParamInt/Float/Bool/String/List/Map must hand back the
// argument bound to the parameter when it has the getter's type and report an
// error otherwise - never a zero value in its place.
var c19Getters = []string{"int", "float", "bool", "string", "list", "map", "any"}
var c19Lits = []struct {
	Text string
	Type string
	Val  any
}{
	{"7", "int", int64(7)}, {"-3", "int", int64(-3)}, {"2.5", "float", 2.5}, {"true", "bool", true}, {"false", "bool", false},
	{"\"s\"", "string", "s"}, {"\"\"", "string", ""}, {"[1, \"a\"]", "list", []any{int64(1), "a"}}, {"[]", "list", []any{}},
	{"{\"k\": 1}", "map", map[string]any{"k": int64(1)}}, {"nil", "nil", nil},
}

func (c19) typedGetter(c *mon.Ctx, i int64) {
	how := int(i % 5) // positional, named, default, optional given by position, optional given by name
	i /= 5
	lit := c19Lits[i%int64(len(c19Lits))]
	getter := c19Getters[i/int64(len(c19Lits))]
	params := []*runtimev2.Param{{Name: "a"}, {Name: "b", Val: func() any { return lit.Val }}}
	var got any
	var gerr *errchain.PlError
	idx := 0
	src := "f(" + lit.Text + ")"
	switch how {
	case 1:
		src = "f(a = " + lit.Text + ")"
	case 2:
		src = "f(0)"
		idx = 1 // read the defaulted parameter b
	case 3, 4:
		// an argument GIVEN for the optional parameter is what the function
		// receives, whatever its value (nil included) - not the default
		params[1].Val = func() any { return "the default, which was not asked for" }
		src = "f(0, " + lit.Text + ")"
		if how == 4 {
			src = "f(0, b = " + lit.Text + ")"
		}
		idx = 1
	}
	fn := &runtimev2.Fn{
		CallCheck: func(ctx *runtimev2.Task, e *ast.CallExpr) *errchain.PlError {
			return runtimev2.CheckPassParam(ctx, e, params)
		},
		Call: func(ctx *runtimev2.Task, e *ast.CallExpr) *errchain.PlError {
			switch getter {
			case "int":
				got, gerr = runtimev2.GetParamInt(ctx, e, params, idx)
			case "float":
				got, gerr = runtimev2.GetParamFloat(ctx, e, params, idx)
			case "bool":
				got, gerr = runtimev2.GetParamBool(ctx, e, params, idx)
			case "string":
				got, gerr = runtimev2.GetParamString(ctx, e, params, idx)
			case "list":
				got, gerr = runtimev2.GetParamList(ctx, e, params, idx)
			case "map":
				got, gerr = runtimev2.GetParamMap(ctx, e, params, idx)
			case "any":
				got, gerr = runtimev2.GetParam(ctx, e, params, idx)
			}
			return nil
		},
	}
	var pan any
	func() {
		defer func() { pan = recover() }()
		s, err := engine.ParseV2("c19.p", src, map[string]*runtimev2.Fn{"f": fn})
		if err != nil {
			pan = "rejected at load: " + err.Error()
			return
		}
		if o := drive.RunV2(s, &drive.RunState{Budget: 10000}); o.Panic != nil {
			pan = o.Panic
		}
	}()
	c.Eval(1)
	key := fmt.Sprintf("GetParam%s on %s via %s", getter, lit.Text, []string{"positional", "named", "default", "optional-positional", "optional-named"}[how])
	c.Nontrivial(key)
	c.Cell("getter_cells", getter+"/"+lit.Type)
	cs := map[string]any{"getter": getter, "call": src}
	match := getter == lit.Type || getter == "any"
	switch {
	case pan != nil:
		c.Violate("typed-getter-panic", fmt.Sprintf("%s: %v", key, pan), cs)
	case match && gerr != nil:
		c.Violate("typed-getter-refused-right-type", fmt.Sprintf("%s: %v", key, gerr), cs)
	case match && !ref.DeepEqual(got, lit.Val, false):
		c.Violate("typed-getter-wrong-value", fmt.Sprintf("%s returned %s, the argument is %s", key, ref.Show(got), ref.Show(lit.Val)), cs)
	case !match && gerr == nil:
		c.Violate("typed-getter-accepted-wrong-type", fmt.Sprintf("%s returned %s without an error", key, ref.Show(got)), cs)
	}
}

func realParams(l []c19Param) []*runtimev2.Param {
	out := make([]*runtimev2.Param, len(l))
	for i, p := range l {
		q := &runtimev2.Param{Name: p.Name}
		switch p.Kind {
		case "opt":
			name := p.Name
			q.Val = func() any { return "def_" + name }
		case "var":
			q.Variable = true
		}
		out[i] = q
	}
	return out
}

func sigString(l []c19Param) string {
	p := make([]string, len(l))
	for i, x := range l {
		p[i] = x.Kind + ":" + fmt.Sprintf("%q", x.Name)
	}
	return "f(" + strings.Join(p, ", ") + ")"
}

// refBind is the reference binder: ok=false means the call must be rejected;
// otherwise vals[i] is what parameter i must receive.
func refBind(l []c19Param, args []int) (vals []any, ok bool) {
	bound := make([]any, len(l))
	has := make([]bool, len(l))
	variadic := -1
	if n := len(l); n > 0 && l[n-1].Kind == "var" {
		variadic = n - 1
	}
	var rest []any
	named := false
	for j, a := range args {
		val := any(int64(100 + j))
		if a == 0 { // positional
			if named {
				return nil, false
			}
			switch {
			case variadic >= 0 && j >= variadic:
				rest = append(rest, val)
			case j < len(l):
				bound[j], has[j] = val, true
			default:
				return nil, false // more arguments than parameters
			}
			continue
		}
		named = true
		if variadic >= 0 {
			return nil, false
		}
		name := c19ArgNames[a]
		idx := -1
		for i := range l {
			if l[i].Name == name {
				idx = i
			}
		}
		if idx < 0 || has[idx] {
			return nil, false
		}
		bound[idx], has[idx] = val, true
	}
	for i, p := range l {
		switch p.Kind {
		case "req":
			if !has[i] {
				return nil, false
			}
		case "opt":
			if !has[i] {
				bound[i] = "def_" + p.Name
			}
		case "var":
			if rest == nil {
				rest = []any{}
			}
			bound[i] = rest
		}
	}
	return bound, true
}

// syntactic places for the call under test (one pair in two gets one of
// them, the others stay a bare statement): after conditional break /
// continue with empty else / elif blocks, inside branches, loop bodies and
// literals. Every context executes the call exactly once, and a call that
// cannot be bound is rejected at load time wherever it stands.
var c19Ctxs = []string{
	"for e in [1] {\n  if e == 2 {\n    break\n  } else {\n  }\n  CALL\n}\n",
	"for e in [1] {\n  if e == 2 {\n    continue\n  } elif e == 3 {\n  }\n  CALL\n}\n",
	"if true {\n  CALL\n}\n",
	"for i = 0; i < 1; i = i + 1 {\n  CALL\n  continue\n}\n",
	"if false {\n} else {\n  CALL\n}\n",
	"for e in [1, 2] {\n  if e == 1 {\n    continue\n  }\n  CALL\n  break\n}\n",
	"for e in [1] {\n  if e == 2 {\n    break\n  } elif e == 3 {\n    continue\n  } else {\n  }\n  if true {\n    CALL\n  }\n}\n",
	"for e in [1] {\n  if e == 1 {\n  } else {\n    break\n  }\n  for q in [1] {\n    if q == 9 {\n      continue\n    } else {\n    }\n    CALL\n  }\n}\n",
	"x = 0\nfor ; x < 1; x = x + 1 {\n  if x == 5 {\n    break\n  }\n}\nCALL\n",
	"if false {\n  x = 1\n} elif true {\n  CALL\n} else {\n}\n",
	"# comment first\n\nCALL # trailing\n",
}

func c19InContext(i int64, call string) string {
	if k := int(i % int64(2*len(c19Ctxs))); k < len(c19Ctxs) {
		return strings.Replace(c19Ctxs[k], "CALL", call, 1)
	}
	return call
}

func callText(args []int) string {
	p := make([]string, len(args))
	for j, a := range args {
		if a == 0 {
			p[j] = fmt.Sprint(100 + j)
		} else {
			p[j] = fmt.Sprintf("%s = %d", c19ArgNames[a], 100+j)
		}
	}
	return "f(" + strings.Join(p, ", ") + ")"
}

func (c19) Describe(c *mon.Ctx, workload string, i int64) any {
	mp, ma := c19Bounds(c.Tier)
	if workload == "paramdefs" {
		return map[string]any{"signature": sigString(c19List(i, mp))}
	}
	if workload == "typed-getters" || workload == "nested-calls" {
		return map[string]any{"index": i}
	}
	if workload == "many-params" {
		l, names := c19Many(c)
		return map[string]any{"signature": sigString(l), "call": c19ManyCall(names)}
	}
	if workload == "typed-calls" {
		nCalls := seqCount(len(c19ArgNames), ma)
		l := c19ValidLists(mp)[i/nCalls]
		_, src, _, _ := c19Typed(l, decodeSeq(i%nCalls, len(c19ArgNames), ma))
		return map[string]any{"signature": sigString(l) + " with declared types int, str, bool, float by position", "call": src}
	}
	nCalls := seqCount(len(c19ArgNames), ma)
	l := c19ValidLists(mp)[i/nCalls]
	return map[string]any{"signature": sigString(l), "call": c19InContext(i, callText(decodeSeq(i%nCalls, len(c19ArgNames), ma)))}
}

func (k c19) Run(c *mon.Ctx, workload string, i int64) {
	drive.Init()
	mp, ma := c19Bounds(c.Tier)
	if workload == "paramdefs" {
		l := c19List(i, mp)
		want := refValidList(l)
		var err error
		var pan any
		func() {
			defer func() { pan = recover() }()
			err = runtimev2.CheckFnParamDef(realParams(l))
		}()
		c.Eval(1)
		if !want || len(l) > 0 {
			c.Nontrivial("def|" + sigString(l))
		}
		c.Cell("def_verdicts", fmt.Sprintf("len%d/%v", len(l), want))
		if c.WantSample() && len(l) >= 2 {
			c.Sample(map[string]any{"signature": sigString(l), "reference_valid": want, "real_error": fmt.Sprint(err)})
		}
		switch {
		case pan != nil:
			c.Violate("paramdef-panic", fmt.Sprintf("%s: CheckFnParamDef panicked: %v", sigString(l), pan), k.Describe(c, workload, i))
		case want && err != nil:
			c.Violate("paramdef-valid-rejected", fmt.Sprintf("%s is a valid parameter list but was rejected: %v", sigString(l), err), k.Describe(c, workload, i))
		case !want && err == nil:
			c.Violate("paramdef-invalid-accepted:"+defectKind(l), fmt.Sprintf("%s is malformed (%s) but was accepted", sigString(l), defectKind(l)), k.Describe(c, workload, i))
		}
		return
	}

	if workload == "typed-getters" {
		k.typedGetter(c, i)
		return
	}
	if workload == "nested-calls" {
		k.nested(c)
		return
	}
	if workload == "typed-calls" {
		k.typedCalls(c, i)
		return
	}
	if workload == "many-params" {
		k.manyParams(c)
		return
	}
	nCalls := seqCount(len(c19ArgNames), ma)
	l := c19ValidLists(mp)[i/nCalls]
	args := decodeSeq(i%nCalls, len(c19ArgNames), ma)
	want, ok := refBind(l, args)
	params := realParams(l)
	var got []any
	var getErr *errchain.PlError
	fn := &runtimev2.Fn{
		CallCheck: func(ctx *runtimev2.Task, e *ast.CallExpr) *errchain.PlError {
			return runtimev2.CheckPassParam(ctx, e, params)
		},
		Call: func(ctx *runtimev2.Task, e *ast.CallExpr) *errchain.PlError {
			for pi := range params {
				v, err := runtimev2.GetParam(ctx, e, params, pi)
				if err != nil {
					getErr = err
					return err
				}
				if l[pi].Kind == "var" {
					lst, _ := v.([]any)
					if lst == nil {
						lst = []any{}
					}
					v = lst
				}
				got = append(got, v)
			}
			return nil
		},
	}
	src := c19InContext(i, callText(args))
	var s *runtimev2.Script
	var err error
	var pan any
	func() {
		defer func() { pan = recover() }()
		s, err = engine.ParseV2("c19.p", src, map[string]*runtimev2.Fn{"f": fn})
		if err == nil {
			rs := &drive.RunState{Budget: 10000}
			out := drive.RunV2(s, rs)
			if out.Panic != nil {
				pan = out.Panic
			}
			if out.Err != nil && getErr == nil {
				getErr = out.Err
			}
		}
	}()
	c.Eval(1)
	key := sigString(l) + " <- " + src
	if len(l) > 0 && len(args) > 0 {
		c.Nontrivial(key)
	}
	verdict := "rejected"
	if ok {
		verdict = "bound"
	}
	c.Cell("call_cells", fmt.Sprintf("params%d/args%d/%s", len(l), len(args), verdict))
	if c.WantSample() && len(l) >= 2 && len(args) >= 2 && ok {
		c.Sample(map[string]any{"signature": sigString(l), "call": src, "reference": ref.Show(want), "received": ref.Show(got)})
	}
	cs := map[string]any{"signature": sigString(l), "call": src}
	switch {
	case pan != nil:
		c.Violate("call-panic", fmt.Sprintf("%s: panic: %v", key, pan), cs)
	case !ok && err == nil:
		c.Violate("unbindable-call-accepted:"+rejectKind(l, args), fmt.Sprintf("%s cannot be bound (%s) but was accepted at load time; the function received %s",
			key, rejectKind(l, args), ref.Show(got)), cs)
	case ok && err != nil:
		c.Violate("bindable-call-rejected", fmt.Sprintf("%s binds to %s but was rejected: %v", key, ref.Show(want), err), cs)
	case ok && getErr != nil:
		c.Violate("getparam-error", fmt.Sprintf("%s was accepted but reading the parameters failed: %v", key, getErr), cs)
	case ok && !ref.DeepEqual(any(want), any(got), false):
		c.Violate("wrong-binding", fmt.Sprintf("%s: parameters must receive %s, received %s", key, ref.Show(want), ref.Show(got)), cs)
	}
}

func defectKind(l []c19Param) string {
	seen := map[string]bool{}
	opt := false
	for i, p := range l {
		if !validIdent(p.Name) {
			return "invalid-name"
		}
		if seen[p.Name] {
			return "duplicate-name"
		}
		seen[p.Name] = true
		switch p.Kind {
		case "opt":
			opt = true
		case "req":
			if opt {
				return "required-after-optional"
			}
		case "var":
			if opt {
				return "variadic-with-optional"
			}
			if i != len(l)-1 {
				return "variadic-not-last"
			}
		}
	}
	return "valid"
}

func rejectKind(l []c19Param, args []int) string {
	variadic := len(l) > 0 && l[len(l)-1].Kind == "var"
	named := false
	bound := map[int]bool{}
	for j, a := range args {
		if a == 0 {
			if named {
				return "positional-after-named"
			}
			if !variadic && j >= len(l) {
				return "surplus-arguments"
			}
			bound[j] = true
			continue
		}
		named = true
		if variadic {
			return "named-with-variadic"
		}
		idx := -1
		for i := range l {
			if l[i].Name == c19ArgNames[a] {
				idx = i
			}
		}
		if idx < 0 {
			return "unknown-name"
		}
		if bound[idx] {
			return "duplicate-binding"
		}
		bound[idx] = true
	}
	return "missing-required"
}

// typed-calls (exhaustive over the same space as "calls"): the parameters
// additionally DECLARE types (Param.Typs: int, str, bool, float by position;
// a variadic parameter declares none) and every argument is a literal of the
// type declared by the parameter it is bound to. Whatever use the code under
// test makes of declared types, such a call binds, and every parameter
// receives its own argument. Calls that cannot be bound are the business of
// the untyped workload.
var c19TypedTypes = []ast.DType{ast.Int, ast.String, ast.Bool, ast.Float}

func c19TypedLit(pi, j int) (string, any) {
	switch pi {
	case 0:
		return fmt.Sprint(100 + j), int64(100 + j)
	case 1:
		return fmt.Sprintf("\"s%d\"", j), fmt.Sprintf("s%d", j)
	case 2:
		return fmt.Sprint(j%2 == 0), j%2 == 0
	case 3:
		return fmt.Sprintf("%d.5", j), float64(j) + 0.5
	}
	return fmt.Sprint(100 + j), int64(100 + j) // variadic rest
}

func c19Typed(l []c19Param, args []int) (params []*runtimev2.Param, src string, want []any, ok bool) {
	if _, ok = refBind(l, args); !ok {
		return nil, "", nil, false
	}
	params = realParams(l)
	want = make([]any, len(l))
	variadic := -1
	for i, p := range l {
		switch p.Kind {
		case "var":
			variadic = i
			want[i] = []any{}
			continue
		case "opt":
			_, dv := c19TypedLit(i, 9)
			params[i].Val = func() any { return dv }
			want[i] = dv
		}
		if i < len(c19TypedTypes) {
			params[i].Typs = []ast.DType{c19TypedTypes[i]}
		}
	}
	parts := make([]string, len(args))
	for j, a := range args {
		pi := j
		if a != 0 {
			for i := range l {
				if l[i].Name == c19ArgNames[a] {
					pi = i
				}
			}
		} else if variadic >= 0 && j >= variadic {
			pi = 99
		}
		text, val := c19TypedLit(pi, j)
		if pi == 99 {
			want[variadic] = append(want[variadic].([]any), val)
		} else {
			want[pi] = val
		}
		if a != 0 {
			text = c19ArgNames[a] + " = " + text
		}
		parts[j] = text
	}
	return params, "f(" + strings.Join(parts, ", ") + ")", want, true
}

func (k c19) typedCalls(c *mon.Ctx, i int64) {
	mp, ma := c19Bounds(c.Tier)
	nCalls := seqCount(len(c19ArgNames), ma)
	l := c19ValidLists(mp)[i/nCalls]
	args := decodeSeq(i%nCalls, len(c19ArgNames), ma)
	params, src, want, ok := c19Typed(l, args)
	if !ok {
		return
	}
	var got []any
	var getErr *errchain.PlError
	fn := &runtimev2.Fn{
		CallCheck: func(ctx *runtimev2.Task, e *ast.CallExpr) *errchain.PlError {
			return runtimev2.CheckPassParam(ctx, e, params)
		},
		Call: func(ctx *runtimev2.Task, e *ast.CallExpr) *errchain.PlError {
			for pi := range params {
				v, err := runtimev2.GetParam(ctx, e, params, pi)
				if err != nil {
					getErr = err
					return err
				}
				if l[pi].Kind == "var" {
					lst, _ := v.([]any)
					if lst == nil {
						lst = []any{}
					}
					v = lst
				}
				got = append(got, v)
			}
			return nil
		},
	}
	var err error
	var pan any
	func() {
		defer func() { pan = recover() }()
		var s *runtimev2.Script
		if s, err = engine.ParseV2("c19.p", src, map[string]*runtimev2.Fn{"f": fn}); err == nil {
			out := drive.RunV2(s, &drive.RunState{Budget: 10000})
			if out.Panic != nil {
				pan = out.Panic
			}
			if out.Err != nil && getErr == nil {
				getErr = out.Err
			}
		}
	}()
	c.Eval(1)
	key := sigString(l) + " (declared types int, str, bool, float by position) <- " + src
	if len(args) > 0 {
		c.Nontrivial("typed|" + key)
	}
	c.Cell("typed_call_cells", fmt.Sprintf("params%d/args%d", len(l), len(args)))
	cs := map[string]any{"signature": sigString(l), "call": src}
	switch {
	case pan != nil:
		c.Violate("call-panic", fmt.Sprintf("%s: panic: %v", key, pan), cs)
	case err != nil:
		c.Violate("bindable-call-rejected:typed", fmt.Sprintf("%s binds to %s (every argument has the type its own parameter declares) but was rejected: %v", key, ref.Show(want), err), cs)
	case getErr != nil:
		c.Violate("getparam-error:typed", fmt.Sprintf("%s was accepted but reading the parameters failed: %v", key, getErr), cs)
	case !ref.DeepEqual(any(want), any(got), false):
		c.Violate("wrong-binding:typed", fmt.Sprintf("%s: parameters must receive %s, received %s", key, ref.Show(want), ref.Show(got)), cs)
	}
}

// many-params (seeded): the exhaustive workloads stop at 4 parameters and 5
// arguments; here parameter lists have 5..40 parameters (required then
// optional, or required then one variadic; sizes on both sides of 8, 16, 32) and
// calls pass up to that many arguments, positional first and then named in a
// shuffled order, with the occasional defect (unknown name, repeated name,
// missing required, surplus positional, named with variadic). Same reference
// binder, same oracle.
func c19Many(c *mon.Ctx) (l []c19Param, args []string) {
	sizes := []int{5, 7, 8, 9, 15, 16, 17, 31, 32, 33, 40}
	n := sizes[c.R.Intn(len(sizes))]
	nreq := c.R.Intn(n + 1)
	variadic := c.R.Intn(4) == 0
	if variadic {
		nreq = n - 1 // a variadic parameter does not mix with optional ones
	}
	for i := 0; i < n; i++ {
		kind := "opt"
		if i < nreq {
			kind = "req"
		}
		if variadic && i == n-1 {
			kind = "var"
		}
		l = append(l, c19Param{Name: fmt.Sprintf("q%d", i), Kind: kind})
	}
	// positional prefix
	npos := c.R.Intn(n + 1)
	if variadic {
		npos = c.R.Intn(n + 6)
	}
	for j := 0; j < npos; j++ {
		args = append(args, "")
	}
	if !variadic || c.R.Intn(8) == 0 {
		// the remaining parameters by name, shuffled, each with probability 3/4 (required ones always, unless a defect is wanted)
		var rest []string
		for j := npos; j < n; j++ {
			if l[j].Kind == "req" || c.R.Intn(4) != 0 {
				rest = append(rest, l[j].Name)
			}
		}
		c.R.Shuffle(len(rest), func(a, b int) { rest[a], rest[b] = rest[b], rest[a] })
		args = append(args, rest...)
	}
	switch c.R.Intn(10) {
	case 0:
		args = append(args, "nosuch")
	case 1:
		if len(args) > 0 {
			args = append(args, args[c.R.Intn(len(args))])
		}
	case 2:
		if len(args) > 0 {
			k := c.R.Intn(len(args))
			args = append(args[:k], args[k+1:]...)
		}
	case 3:
		args = append(args, "")
	}
	return l, args
}

func c19ManyCall(args []string) string {
	p := make([]string, len(args))
	for j, a := range args {
		if a == "" {
			p[j] = fmt.Sprint(100 + j)
		} else {
			p[j] = fmt.Sprintf("%s = %d", a, 100+j)
		}
	}
	return "f(" + strings.Join(p, ", ") + ")"
}

// refBindNames is refBind for argument names given as strings ("" = positional).
func refBindNames(l []c19Param, args []string) (vals []any, ok bool) {
	bound := make([]any, len(l))
	has := make([]bool, len(l))
	variadic := -1
	if n := len(l); n > 0 && l[n-1].Kind == "var" {
		variadic = n - 1
	}
	var rest []any
	named := false
	for j, a := range args {
		val := any(int64(100 + j))
		if a == "" {
			if named {
				return nil, false
			}
			switch {
			case variadic >= 0 && j >= variadic:
				rest = append(rest, val)
			case j < len(l):
				bound[j], has[j] = val, true
			default:
				return nil, false
			}
			continue
		}
		named = true
		if variadic >= 0 {
			return nil, false
		}
		idx := -1
		for i := range l {
			if l[i].Name == a {
				idx = i
			}
		}
		if idx < 0 || has[idx] {
			return nil, false
		}
		bound[idx], has[idx] = val, true
	}
	for i, p := range l {
		switch p.Kind {
		case "req":
			if !has[i] {
				return nil, false
			}
		case "opt":
			if !has[i] {
				bound[i] = "def_" + p.Name
			}
		case "var":
			if rest == nil {
				rest = []any{}
			}
			bound[i] = rest
		}
	}
	return bound, true
}

func (k c19) manyParams(c *mon.Ctx) {
	l, args := c19Many(c)
	want, ok := refBindNames(l, args)
	params := realParams(l)
	if !refValidList(l) {
		panic("c19: many-params generated a malformed list: " + sigString(l))
	}
	if err := runtimev2.CheckFnParamDef(params); err != nil {
		c.Violate("paramdef-valid-rejected", fmt.Sprintf("%s is a valid parameter list but was rejected: %v", sigString(l), err), map[string]any{"signature": sigString(l)})
		return
	}
	var got []any
	var getErr *errchain.PlError
	fn := &runtimev2.Fn{
		CallCheck: func(ctx *runtimev2.Task, e *ast.CallExpr) *errchain.PlError {
			return runtimev2.CheckPassParam(ctx, e, params)
		},
		Call: func(ctx *runtimev2.Task, e *ast.CallExpr) *errchain.PlError {
			for pi := range params {
				v, err := runtimev2.GetParam(ctx, e, params, pi)
				if err != nil {
					getErr = err
					return err
				}
				if l[pi].Kind == "var" {
					lst, _ := v.([]any)
					if lst == nil {
						lst = []any{}
					}
					v = lst
				}
				got = append(got, v)
			}
			return nil
		},
	}
	src := c19ManyCall(args)
	var err error
	var pan any
	func() {
		defer func() { pan = recover() }()
		var s *runtimev2.Script
		if s, err = engine.ParseV2("c19.p", src, map[string]*runtimev2.Fn{"f": fn}); err == nil {
			out := drive.RunV2(s, &drive.RunState{Budget: 10000})
			if out.Panic != nil {
				pan = out.Panic
			}
			if out.Err != nil && getErr == nil {
				getErr = out.Err
			}
		}
	}()
	c.Eval(1)
	key := sigString(l) + " <- " + src
	c.Nontrivial("many|" + key)
	verdict := "rejected"
	if ok {
		verdict = "bound"
	}
	c.Cell("many_params_cells", fmt.Sprintf("params%d/%s", len(l), verdict))
	cs := map[string]any{"signature": sigString(l), "call": src}
	switch {
	case pan != nil:
		c.Violate("call-panic", fmt.Sprintf("%s: panic: %v", key, pan), cs)
	case !ok && err == nil:
		c.Violate("unbindable-call-accepted:many", fmt.Sprintf("%s cannot be bound but was accepted at load time; the function received %s", key, ref.Show(got)), cs)
	case ok && err != nil:
		c.Violate("bindable-call-rejected:many", fmt.Sprintf("%s binds to %s but was rejected: %v", key, ref.Show(want), err), cs)
	case ok && getErr != nil:
		c.Violate("getparam-error:many", fmt.Sprintf("%s was accepted but reading the parameters failed: %v", key, getErr), cs)
	case ok && !ref.DeepEqual(any(want), any(got), false):
		c.Violate("wrong-binding:many", fmt.Sprintf("%s: parameters must receive %s, received %s", key, ref.Show(want), ref.Show(got)), cs)
	}
}
