package main

import (
	"fmt"
	"math"
	"strings"
	"time"
	"unicode/utf8"

	"verif/internal/drive"
	"verif/internal/gen"
	"verif/internal/gt"
	"verif/internal/mon"
	"verif/internal/ref"
)

// C04: lists, maps, indexing and slicing are exact and alias correctly.

type c04 struct{}

func init() {
	register(c04{})
	mon.Assumptions["C04"] = []string{
		"Python slice semantics transcribed from CPython's PySlice_AdjustIndices with math/big (internal/ref.SliceIndices)",
		"strings are sliced and measured in bytes (len() is documented as a byte count)",
		"a nil-valued slice bound is not compared (Python reads None as omitted; the documents are silent)",
	}
}

func (c04) ID() string { return "C04" }
func (c04) Rule() string {
	return "slice cube (exhaustive): every list and string of the tier's lengths (strings include multi-byte runes) x every (start, end, step) with each bound omitted or drawn from the tier's range (plus +-2^31, +-(2^63-1), -2^63 in thorough), object given as variable and as literal, through all 24 syntactic forms; paths (exhaustive): every key tuple of length 1..3 over 15 keys (in-range, negative, out-of-range, wrongly typed) read, written and compound-assigned on a fixed nested shape; alias programs: seeded programs interleaving aliasing, mutation through aliases, slicing, `in`, len and add_key snapshots with p() after every statement. Non-trivial: a slice whose reference result is non-empty or whose bounds lie outside +-len; a path of depth >= 2; an alias program with a write through an index. Distinct = distinct program texts."
}

var c04Lists = [][]*gt.T{{}, {gt.Int(10)}, {gt.Int(10), gt.Str("b")}, {gt.Int(10), gt.Str("b"), gt.Float(2.5)},
	{gt.Int(10), gt.Str("b"), gt.Float(2.5), gt.Nil()}, {gt.Int(10), gt.Str("b"), gt.Float(2.5), gt.Nil(), gt.Bool(true)}}
var c04Strs = []string{"", "a", "ab", "é", "abc", "hé", "héy", "世a", "abcd", "abcde", "h世"}

func c04Objects(tier string) []*gt.T {
	var out []*gt.T
	maxLen := 3
	if tier == "thorough" {
		maxLen = 5
	}
	for _, l := range c04Lists {
		if len(l) <= maxLen {
			out = append(out, gt.List(gt.CloneStmts(l)...))
		}
	}
	for _, s := range c04Strs {
		if len(s) <= maxLen {
			out = append(out, gt.Str(s))
		}
	}
	return out
}

// bound options: nil = omitted
func c04Bounds(tier string) []*int64 {
	var out []*int64
	out = append(out, nil)
	lo, hi := int64(-5), int64(5)
	if tier == "thorough" {
		lo, hi = -8, 8
	}
	for v := lo; v <= hi; v++ {
		x := v
		out = append(out, &x)
	}
	if tier == "thorough" {
		for _, v := range []int64{1 << 31, -(1 << 31), math.MaxInt64, -math.MaxInt64, math.MinInt64} {
			x := v
			out = append(out, &x)
		}
	}
	return out
}

func intExpr(v int64) *gt.T {
	if v == math.MinInt64 {
		return gt.Paren(gt.Bin("-", gt.Int(-math.MaxInt64), gt.Int(1)))
	}
	return gt.Int(v)
}

var c04Keys = []*gt.T{gt.Int(0), gt.Int(1), gt.Int(2), gt.Int(-1), gt.Int(-3), gt.Int(3), gt.Int(5), gt.Int(math.MaxInt64),
	gt.Str("k"), gt.Str("m"), gt.Str("a"), gt.Str("zz"), gt.Float(1.5), gt.Bool(true), gt.Nil()}

func c04Shape() *gt.T {
	// x = [1, [2, {"k": [3, 4], "m": {"n": 5}}, "s"], {"a": [6], "k": 7}]
	return gt.List(gt.Int(1),
		gt.List(gt.Int(2), gt.Map(gt.Str("k"), gt.List(gt.Int(3), gt.Int(4)), gt.Str("m"), gt.Map(gt.Str("n"), gt.Int(5))), gt.Str("s")),
		gt.Map(gt.Str("a"), gt.List(gt.Int(6)), gt.Str("k"), gt.Int(7)))
}

func (c04) Plan(tier string, seed int64) []mon.Workload {
	nb := int64(len(c04Bounds(tier)))
	nobj := int64(len(c04Objects(tier)))
	nk := int64(len(c04Keys))
	progs := int64(2000)
	if tier == "thorough" {
		progs = 100000
	}
	return []mon.Workload{
		{Name: "slice-cube", N: nobj * 2 * nb * nb * (nb + 1), Exhaustive: true},
		{Name: "paths", N: (nk + nk*nk + nk*nk*nk) * 4, Exhaustive: true},
		{Name: "alias-programs", N: progs},
		{Name: "self-insertion", N: int64(len(c04SelfSetups) * len(c04SelfWrites)), Exhaustive: true},
		{Name: "literal-fresh", N: int64(len(c18Literals) * len(c18LitWrites) * 2), Exhaustive: true},
		{Name: "computed-keys", N: int64(len(c04KeyStmts) * len(c04KeyWraps)), Exhaustive: true},
		{Name: "decoded-twice", N: int64(len(c04JSONTexts) * len(c04JSONUses)), Exhaustive: true},
		{Name: "tuple-assign", N: int64(len(c04TupleSetups) * len(c04TupleStmts)), Exhaustive: true},
		{Name: "string-in", N: int64(len(c04InCases)), Exhaustive: true},
		{Name: "map-literals", N: c04MapLitCount(), Exhaustive: true},
		{Name: "long-slices", N: int64(len(c04LongLens) * 3 * 9), Exhaustive: true},
	}
}

// self-insertion: a container stored into itself (or into one of its own
// elements) is the SAME container, not a copy: a write through the inner
// alias shows through the outer name and the other way round. Only scalars
// are printed (the containers are cyclic).
var c04SelfSetups = []string{
	"a = [1, 2]\na[0] = a\nw = a[0]\n",
	"a = [1, 2]\na[-2] = a\nw = a[0][0][0]\n",
	"a = {\"x\": 1, \"y\": 2}\na[\"self\"] = a\nw = a[\"self\"]\n",
	"a = [[0, 1], 7]\na[0][0] = a\nw = a[0][0]\n",
	"a = [[1, 2], 3]\na[0][1] = a[0]\nw = a[0][1]\na = a[0]\n",
	"a = [1, 2]\nb = a\na[0] = b\nw = b[0]\n",
	"a = {\"l\": [0, 0]}\na[\"l\"][1] = a\nw = a[\"l\"][1]\n",
	"a = [0, 0]\nm = {\"l\": a}\na[1] = m\nw = m[\"l\"][1][\"l\"]\n",
	"a = [5, 6]\nfor i = 0; i < 2; i = i + 1 {\n  a[0] = a\n}\nw = a[0][0]\n",
}
var c04SelfWrites = []string{
	"w[1] = 9\np(a[1], len(a), len(w))\n",
	"a[1] = 8\np(w[1], len(a), len(w))\n",
	"w[-1] = \"v\"\na[-1] = a[-1] + \"!\"\np(w[-1], a[-1])\n",
	"w[1] += 4\nw[1] *= 2\np(a[1])\n",
	"w[\"x\"] = 5\na[\"y\"] = 6\np(a[\"x\"], w[\"y\"], len(a))\n",
	"p(w[1] == a[1], w[1])\nw[1] = nil\np(a[1])\n",
}

// computed-keys (exhaustive): index paths whose keys are themselves index
// reads, calls or arithmetic, in plain and compound assignments and reads,
// straight-line and in the second iteration of a loop (whatever an
// implementation remembers about a path while it evaluates a key).
var c04KeyStmts = []string{
	"a[1][b[0]] += 5", "a[b[0]][b[1]] -= 1", "m[\"y\"][names[\"which\"]] *= 2", "a[b[0]][b[b[1]]] = 7", "a[b[1]][a[0][0] - 10] /= 2", "m[names[\"other\"]][\"p\"] += m[\"y\"][\"q\"]",
	"a[len(b) - 1][b[0] - 1] %= 7", "a[b[0]][1] = a[b[1]][b[0]]", "m[\"y\"][names[\"which\"]] = a[b[0]]", "a[-b[0]][-1] += a[b[1]][0]", "x = a[b[0]][b[1]] + a[b[1]][b[0]]",
	"a[b[0]] = [b[1], a[0][b[0]]]", "m[names[\"missing\"]][\"q\"] += 1", "a[b[5]][0] += 1", "a[1][b] += 1",
	// keys computed from the LENGTH of the root, of another level, of another container (root and inner lengths differ)
	"x = r[0][len(r) - 1]", "r[1][len(r)] = 9", "r[0][len(r) - 2] += 5", "x = r[len(r) - 1][len(r)]", "x = r[1][len(r[0])]", "x = r[len(r[1]) - 3][0]", "r[len(r) - 2][len(r) - 1] *= 2", "x = r[1][len(b)]",
	"x = r[-len(r)][-len(r)]", "t = r[1]\nx = t[len(r):]", "t = r[0]\nx = t[:len(r)]",
	// paths that run through a key / element that exists and holds nil
	"x = nn[\"a\"][0]", "x = nn[\"l\"][0][1]", "x = nn[\"l\"][1][\"k\"][\"z\"]", "x = nn[\"zz\"][0]", "x = nn[\"a\"]", "nn[\"a\"][0] = 1", "nn[\"l\"][0][\"q\"] += 1", "x = nn[\"l\"][1][\"k\"]",
	// the loop variable of a for-in (and a name made in its body) indexed in every iteration
	"for row in a {\n  row[0] = 0\n}", "for e in b {\n  t = [e, e]\n  t[0] = t[1] + 100\n  x = x + t[0]\n}", "for k in m {\n  t = m[k]\n  t[\"p\"] = 0\n}", "for row in a {\n  row[-1] += row[0]\n  p(row[1])\n}",
}
var c04KeyWraps = []string{"S\n", "x0 = a[0][0]\nS\n", "for i = 0; i < 2; i = i + 1 {\n  S\n  p(a, m)\n}\n", "if b[0] == 1 {\n  z = m[\"y\"][\"q\"]\n  S\n}\n"}

func c04ComputedKeys(i int64) c04Case {
	wrap := c04KeyWraps[int(i)%len(c04KeyWraps)]
	st := c04KeyStmts[int(i)/len(c04KeyWraps)]
	text := "a = [[10, 20], [30, 40]]\nb = [1, 0]\nm = {\"y\": {\"p\": 3, \"q\": 4}, \"z\": {\"p\": 5}}\nnames = {\"which\": \"q\", \"other\": \"z\"}\nnn = {\"a\": nil, \"l\": [nil, {\"k\": nil}]}\nr = [[1, 2, 3], [4, 5, 6, 7]]\nx = 0\n" +
		strings.ReplaceAll(wrap, "S", st) + "p(a, b, m, x, nn, r)\n"
	o := drive.Parse("computed-keys", text)
	if o.Err != nil {
		panic("c04: computed-keys program does not parse: " + text + ": " + o.Err.Error())
	}
	l, err := gt.FromStmts(o.Stmts)
	if err != nil {
		panic(err)
	}
	return c04Case{Stmts: gt.CloneStmts(l), Nontrivial: true}
}

// decoded-twice (exhaustive): values that come out of a builtin are values
// like any other: two load_json calls on the same text give two independent
// containers (a write into one does not show in the other, a reload after a
// write gives the original again), also when the text comes from the point.
var c04JSONTexts = []string{"[1, 2, 3]", "{\\\"a\\\": [1, 2], \\\"b\\\": {\\\"c\\\": 0}}", "[[1], [2]]", "[]", "{\\\"k\\\": \\\"v\\\"}"}
var c04JSONUses = []string{
	"a = load_json(T)\nb = load_json(T)\na[0] = 9\np(a, b)\n",
	"a = load_json(T)\na[\"a\"] = \"changed\"\nb = load_json(T)\np(a, b)\n",
	"add_key(doc, T)\na = load_json(doc)\nb = load_json(doc)\nb[-1] = [\"x\"]\np(a, b, len(a), 2 in a)\n",
	"for i = 0; i < 2; i = i + 1 {\n  a = load_json(T)\n  p(a)\n  a[0] = i + 7\n  a[\"k\"] = i\n}\n",
	"a = load_json(T)\nc = a\nb = load_json(T)\nc[0] = \"via c\"\nc[\"b\"] = nil\np(a, b, c)\nadd_key(snap, b)\nb[0] = 1.5\np(snap)\n",
	"a = load_json(_)\nb = load_json(_)\na[0] = \"m\"\np(a, b)\n",
}

func c04DecodedTwice(i int64) c04Case {
	use := c04JSONUses[int(i)%len(c04JSONUses)]
	t := c04JSONTexts[int(i)/len(c04JSONUses)]
	text := strings.ReplaceAll(use, "T", "\""+t+"\"")
	o := drive.Parse("decoded-twice", text)
	if o.Err != nil {
		panic("c04: decoded-twice program does not parse: " + text + ": " + o.Err.Error())
	}
	l, err := gt.FromStmts(o.Stmts)
	if err != nil {
		panic(err)
	}
	return c04Case{Stmts: gt.CloneStmts(l), Nontrivial: true}
}

func c04SelfCase(i int64) c04Case {
	text := c04SelfSetups[int(i)%len(c04SelfSetups)] + c04SelfWrites[int(i)/len(c04SelfSetups)]
	o := drive.Parse("self-insertion", text)
	if o.Err != nil {
		panic("c04: self-insertion program does not parse: " + text + ": " + o.Err.Error())
	}
	l, err := gt.FromStmts(o.Stmts)
	if err != nil {
		panic(err)
	}
	return c04Case{Stmts: gt.CloneStmts(l), Nontrivial: true}
}

type c04Case struct {
	Stmts      []*gt.T
	Nontrivial bool
	Cell       string
}

func (c04) build(c *mon.Ctx, workload string, i int64) c04Case {
	switch workload {
	case "self-insertion":
		return c04SelfCase(i)
	case "computed-keys":
		return c04ComputedKeys(i)
	case "decoded-twice":
		return c04DecodedTwice(i)
	case "literal-fresh":
		// the table of C18, on the v1 interpreter
		return c04Case{Stmts: c18LiteralFresh(i), Nontrivial: true}
	case "slice-cube":
		bounds := c04Bounds(c.Tier)
		nb := int64(len(bounds))
		objs := c04Objects(c.Tier)
		stepI := i % (nb + 1)
		i /= nb + 1
		endI := i % nb
		i /= nb
		startI := i % nb
		i /= nb
		asVar := i%2 == 1
		obj := gt.Clone(objs[i/2])
		// step options: 0 = no second colon, 1 = second colon without step,
		// 2.. = bounds[1:] (zero is an error case and kept)
		var start, end, step *gt.T
		colon2 := false
		if bounds[startI] != nil {
			start = intExpr(*bounds[startI])
		}
		if bounds[endI] != nil {
			end = intExpr(*bounds[endI])
		}
		var stepV *int64
		switch {
		case stepI == 0:
		case stepI == 1:
			colon2 = true
		default:
			colon2 = true
			stepV = bounds[stepI-1]
			step = intExpr(*stepV)
		}
		var stmts []*gt.T
		o := obj
		if asVar {
			stmts = append(stmts, gt.Assign("=", gt.Ident("a"), obj))
			o = gt.Ident("a")
		}
		sl := &gt.T{K: gt.KSlice, Kids: []*gt.T{o}, Start: start, End: end, Step: step, Colon2: colon2}
		stmts = append(stmts, gt.Call("p", sl))
		length := len(obj.Kids)
		if obj.K == gt.KStr {
			length = len(obj.S)
		}
		nt := false
		if stepV == nil || *stepV != 0 {
			st := int64(1)
			if stepV != nil {
				st = *stepV
			}
			if len(ref.SliceIndices(length, bounds[startI], bounds[endI], st)) > 0 {
				nt = true
			}
		}
		for _, b := range []*int64{bounds[startI], bounds[endI]} {
			if b != nil && (*b > int64(length) || *b < -int64(length)) {
				nt = true
			}
		}
		return c04Case{Stmts: stmts, Nontrivial: nt}
	case "paths":
		op := i % 4
		i /= 4
		nk := int64(len(c04Keys))
		var seq []int
		switch {
		case i < nk:
			seq = []int{int(i)}
		case i < nk+nk*nk:
			i -= nk
			seq = []int{int(i / nk), int(i % nk)}
		default:
			i -= nk + nk*nk
			seq = []int{int(i / (nk * nk)), int(i / nk % nk), int(i % nk)}
		}
		keys := make([]*gt.T, len(seq))
		for j, s := range seq {
			keys[j] = gt.Clone(c04Keys[s])
		}
		stmts := []*gt.T{gt.Assign("=", gt.Ident("x"), c04Shape()), gt.Assign("=", gt.Ident("y"), gt.Ident("x"))}
		path := gt.Index("x", keys...)
		switch op {
		case 0:
			stmts = append(stmts, gt.Call("p", path))
		case 1:
			stmts = append(stmts, gt.Assign("=", path, gt.Int(99)), gt.Call("p", gt.Ident("x"), gt.Ident("y")))
		case 2:
			stmts = append(stmts, gt.Assign("+=", path, gt.Int(1)), gt.Call("p", gt.Ident("x"), gt.Ident("y")))
		case 3:
			stmts = append(stmts, gt.Assign("=", path, gt.List(gt.Str("new"))), gt.Call("p", gt.Ident("y"), gt.Call("len", gt.Ident("x"))))
		}
		return c04Case{Stmts: stmts, Nontrivial: len(seq) >= 2, Cell: fmt.Sprintf("depth%d/op%d", len(seq), op)}
	}
	g := gen.NewProg(c.R)
	g.Containers = true
	g.AddKey = true
	g.IllTyped = 40
	g.Unbound = 30
	g.Names = []string{"a", "b", "l", "m", "s"}
	g.MaxDepth = 2
	stmts := g.Program()
	// make sure containers exist early
	pre := []*gt.T{
		gt.Assign("=", gt.Ident("l"), gt.List(gt.Int(1), gt.List(gt.Int(2), gt.Int(3)), gt.Str("x"))),
		gt.Assign("=", gt.Ident("m"), gt.Map(gt.Str("k"), gt.Ident("l"), gt.Str("q"), gt.Int(4))),
		gt.Assign("=", gt.Ident("a"), gt.Index("l", gt.Int(1))),
		gt.Assign("=", gt.Index("a", gt.Int(0)), gt.Str("via-a")),
		gt.Call("add_key", gt.Ident("o1"), gt.Ident("l")),
		gt.Assign("=", gt.Index("m", gt.Str("k"), gt.Int(0)), gt.Int(100)),
		gt.Call("p", gt.Ident("l"), gt.Ident("m"), gt.Ident("a"), gt.Ident("o1")),
		// a slice is a copy: writes on either side must not show on the other
		gt.Assign("=", gt.Ident("s"), gen.SliceForm(gt.Ident("l"), gen.SliceForms[c.R.Intn(len(gen.SliceForms))], gt.Int(0), gt.Int(int64(2+c.R.Intn(3))), gt.Int(1))),
		gt.Assign("=", gt.Index("s", gt.Int(0)), gt.Str("via-slice")),
		gt.Assign("=", gt.Index("l", gt.Int(-1)), gt.Str("via-list")),
		gt.Call("p", gt.Ident("l"), gt.Ident("s")),
		// a literal evaluated again must be a fresh value, at every depth
		gt.For(gt.Assign("=", gt.Ident("zi"), gt.Int(0)), gt.Bin("<", gt.Ident("zi"), gt.Int(2)), gt.Assign("=", gt.Ident("zi"), gt.Bin("+", gt.Ident("zi"), gt.Int(1))),
			gt.Assign("=", gt.Ident("g"), gt.List(gt.List(gt.Int(0), gt.Str("z")), gt.List(gt.Int(1), gt.List(gt.Int(2))), gt.Int(3))),
			gt.Call("p", gt.Ident("g")),
			gt.Assign("=", gt.Index("g", gt.Int(0), gt.Int(int64(c.R.Intn(2)))), gt.Str("w")),
			gt.Assign("+=", gt.Index("g", gt.Int(1), gt.Int(1), gt.Int(0)), gt.Int(5)),
			gt.Assign("=", gt.Ident("h"), gt.Map(gt.Str("k"), gt.List(gt.Int(1), gt.Map(gt.Str("d"), gt.Int(0))))),
			gt.Call("p", gt.Ident("h")),
			gt.Assign("=", gt.Index("h", gt.Str("k"), gt.Int(1), gt.Str("d")), gt.Ident("zi")),
			gt.Assign("*=", gt.Index("h", gt.Str("k"), gt.Int(0)), gt.Int(7)),
			gt.Assign("=", gt.Index("g", gt.Int(2)), gt.Str("third")),
		),
	}
	writes := false
	gt.WalkStmts(stmts, func(t *gt.T) {
		if t.K == gt.KAssign && len(t.LHS) == 1 && t.LHS[0].K == gt.KIndex {
			writes = true
		}
	})
	return c04Case{Stmts: append(pre, stmts...), Nontrivial: writes}
}

func (k c04) Describe(c *mon.Ctx, workload string, i int64) any {
	if workload == "tuple-assign" {
		return map[string]any{"source": c04TupleText(i), "interpreter": "v2"}
	}
	if workload == "string-in" {
		return map[string]any{"source": c04InCases[i], "interpreter": "v1 and v2"}
	}
	if workload == "map-literals" {
		return map[string]any{"source": c04MapLitText(i), "interpreter": "v1 and v2"}
	}
	if workload == "long-slices" {
		return map[string]any{"source_head": firstN(c04LongSliceText(i), 6), "interpreter": "v1 and v2"}
	}
	cs := k.build(c, workload, i)
	return map[string]any{"source": gt.Print(gt.ParenthesizeStmts(cs.Stmts), nil)}
}

// tuple-assign (exhaustive, v2 - v1 has no multiple assignment): the targets
// and sources of one `l1, l2 = r1, r2` name the same elements through
// negative indices, nested paths and aliases; every source is read before
// any target is written, and the writes land in the shared containers.
var c04TupleSetups = []string{
	"a = [1, 2, 3]\nb = a\nm = {\"x\": [10, 20], \"y\": 5}\nn = m[\"x\"]\nc = 0\n",
	"a = [[1, 2], [3, 4], [5]]\nb = a[0]\nm = {\"x\": a, \"y\": b}\nn = a\nc = [0]\n",
}
var c04TupleStmts = []string{
	"a[0], a[-1] = a[-1], a[0]\n",
	"a[0], c = 9, b[0]\n",
	"a[0], a[1] = a[1], a[0]\n",
	"b[0], a[-1] = a[-1], b[0]\n",
	"m[\"x\"], n[0] = n[0], m[\"x\"]\n",
	"m[\"x\"][0], n[1] = n[1], m[\"x\"][0]\n",
	"a, b = b, a\n",
	"a, b[0] = [7], a[1]\n",
	"c, a[0] = a[0], c\n",
	"m[\"y\"], m[\"z\"] = m[\"x\"], m[\"y\"]\n",
	"a[1], a[1] = a[0], a[1]\n",
	"a[-1], c, b[-1] = b[0], a[-1], a[1]\n",
	"n, m[\"x\"] = m[\"y\"], n\n",
	"a[0], a[0] = 1, a[0]\n",
	"c, c = a[0], c\n",
	"b, c = c, len(b)\n",
}

// string-in (exhaustive): `needle in haystack` on strings compares BYTES:
// every byte slice of a few short multi-byte strings (also slices that cut a
// character apart, and the replacement character itself) as needle, against
// the whole string and every one of its byte slices.
var c04InCases = func() []string {
	var out []string
	for _, s := range []string{"é", "aé", "世b", "éé", "a�"} {
		n := len(s)
		for a := 0; a < n; a++ {
			for b := a + 1; b <= n; b++ {
				var hs []string
				hs = append(hs, "nd in s")
				for c := 0; c < n; c++ {
					for d := c + 1; d <= n; d++ {
						hs = append(hs, fmt.Sprintf("nd in s[%d:%d]", c, d))
					}
				}
				out = append(out, fmt.Sprintf("s = \"%s\"\nnd = s[%d:%d]\np(%s)\np(\"\\ufffd\" in nd, nd in \"\\ufffd\", \"\" in nd, nd in \"\", nd == \"\\ufffd\")\n", s, a, b, strings.Join(hs, ", ")))
			}
		}
	}
	return out
}()

func c04TupleText(i int64) string {
	return c04TupleSetups[int(i)%len(c04TupleSetups)] + c04TupleStmts[int(i)/len(c04TupleSetups)] + "p(a, b, m, n, c)\n"
}

// runV2Text runs one program text on the v2 interpreter against the v2
// flavour of the reference semantics.
func runV2Text(c *mon.Ctx, tag, text string) {
	o := drive.Parse(tag, text)
	if o.Err != nil {
		panic(tag + ": program does not parse: " + text + ": " + o.Err.Error())
	}
	l, err := gt.FromStmts(o.Stmts)
	if err != nil {
		panic(err)
	}
	stmts := gt.ParenthesizeStmts(gt.CloneStmts(l))
	src := gt.Print(stmts, nil)
	name := tag + ".p"
	prog := &ref.Program{Scripts: map[string][]*gt.T{name: stmts}, Funcs: ref.ProbeFuncs(), V2: true}
	mo := ref.Run(prog, name, nil, modelBudget)
	info := map[string]any{"source": src}
	if mo.TooBig || mo.Unspecified != "" {
		c.Count("not_compared_unspecified", 1)
		c.Cell("unspecified_reasons", mo.Unspecified)
		return
	}
	c.Nontrivial(src)
	script, lerr := drive.LoadV2(name, src)
	c.Eval(1)
	if lerr != nil {
		if mo.Err == nil {
			c.Violate("valid-program-rejected:"+tag, fmt.Sprintf("rejected at load: %v\n%s", lerr, src), info)
		}
		return
	}
	ro := drive.RunV2(script, &drive.RunState{Budget: realBudget(mo.Shared.Steps)})
	c.Count("compared", 1)
	if mo.Err != nil {
		c.Count("reference_says_error", 1)
	}
	if r := compareRun(ro, mo, cmpOpts{V2: true}); r != nil {
		c.Violate(r.Class+":"+tag, fmt.Sprintf("%s\n--- program (v2)\n%s", r.Detail, src), info)
	}
}

func (k c04) Run(c *mon.Ctx, workload string, i int64) {
	if workload == "tuple-assign" {
		runV2Text(c, "tuple-assign", c04TupleText(i))
		return
	}
	if workload == "long-slices" {
		text := c04LongSliceText(i)
		runV2Text(c, "long-slices", text)
		st, err := gt.FromStmts(drive.Parse("long-slices", text).Stmts)
		if err != nil {
			panic(err)
		}
		st = gt.CloneStmts(st)
		runV1Compare(c, progCase{Stmts: st, Src: gt.Print(st, nil), Points: []*ref.Point{ref.NewPoint("m", nil, map[string]any{"f1": int64(1)}, time.Unix(1700000000, 0))}}, "c04.p")
		return
	}
	if workload == "map-literals" {
		text := c04MapLitText(i)
		runV2Text(c, "map-literals", text)
		st, err := gt.FromStmts(drive.Parse("map-literals", text).Stmts)
		if err != nil {
			panic(err)
		}
		st = gt.CloneStmts(st)
		runV1Compare(c, progCase{Stmts: st, Src: gt.Print(st, nil), Points: []*ref.Point{ref.NewPoint("m", nil, map[string]any{"f1": int64(1)}, time.Unix(1700000000, 0))}}, "c04.p")
		return
	}
	if workload == "string-in" {
		runV2Text(c, "string-in", c04InCases[i])
		st, err := gt.FromStmts(drive.Parse("string-in", c04InCases[i]).Stmts)
		if err != nil {
			panic(err)
		}
		st = gt.CloneStmts(st)
		runV1Compare(c, progCase{Stmts: st, Src: gt.Print(st, nil), Points: []*ref.Point{ref.NewPoint("m", nil, map[string]any{"f1": int64(1)}, time.Unix(1700000000, 0))}}, "c04.p")
		return
	}
	cs := k.build(c, workload, i)
	stmts := gt.ParenthesizeStmts(cs.Stmts)
	src := gt.Print(stmts, nil)
	const name = "c04.p"
	prog := &ref.Program{Scripts: map[string][]*gt.T{name: stmts}, Funcs: ref.Merge(ref.ProbeFuncs(), ref.PointFuncs())}
	mp := ref.NewPoint("m", nil, map[string]any{"message": "msg"}, gen.ModelPoint(c.R, nil, nil).Time)
	if workload == "decoded-twice" {
		prog.Funcs = ref.Merge(ref.ProbeFuncs(), ref.FieldFuncs())
		mp.Fields["message"] = "[5, 6, {\"z\": 1}]"
	}
	model := mp.Clone()
	mo := ref.Run(prog, name, model, modelBudget)
	info := map[string]any{"source": src}
	if cs.Nontrivial && mo.Unspecified == "" {
		c.Nontrivial(src)
	}
	if cs.Cell != "" {
		c.Cell("path_cells", cs.Cell)
	}
	if mo.TooBig {
		c.Count("skipped_too_big", 1)
		return
	}
	script, err := drive.LoadV1One(name, src)
	c.Eval(1)
	if err != nil {
		if mo.Err != nil {
			return
		}
		c.Violate("valid-program-rejected", fmt.Sprintf("rejected at load: %v\n%s", err, src), info)
		return
	}
	real := drive.PointFromModel(mp)
	ro := drive.RunV1(script, real, &drive.RunState{Budget: realBudget(mo.Shared.Steps)})
	switch {
	case mo.Unspecified != "":
		c.Count("not_compared_unspecified", 1)
		c.Cell("unspecified_reasons", mo.Unspecified)
	case mo.Shared.MapOrderDependent:
		c.Count("not_compared_map_order", 1)
	default:
		c.Count("compared", 1)
		if mo.Err != nil {
			c.Count("reference_says_error", 1)
		}
	}
	if r := compareRun(ro, mo, cmpOpts{Point: model, RealPoint: real}); r != nil {
		c.Violate(r.Class+":"+workload, fmt.Sprintf("%s\n--- program\n%s", r.Detail, src), info)
		return
	}
	// values built by one run (literals, containers) must not leak into the
	// next run of the same loaded script, nor into a second load of the text
	heavy := workload == "alias-programs" || workload == "self-insertion" || workload == "literal-fresh"
	if heavy || i%5 == 0 {
		if !againV1(c, script, name, src, mp, model, mo, heavy, ":"+workload, info) {
			return
		}
	}
	if c.WantSample() && mo.Unspecified == "" && mo.Err == nil && (workload == "alias-programs" || i%7919 == 11) && len(src) < 600 {
		ev := []string{}
		for _, e := range mo.Events {
			ev = append(ev, e.String())
		}
		c.Sample(map[string]any{"source": src, "trace": ev})
	}
}

// map-literals (exhaustive, v1 and v2): a map literal is its entries inserted
// from left to right, a later entry with the same key replacing the earlier
// one - whatever mix of constant and computed keys and values the entries are
// made of. All ordered pairs over 5 key spellings x 5 value forms and all
// ordered triples over a smaller pool, evaluated once at top level and twice
// in a loop (with a write in between).
var c04MLKeys = []string{"\"a\"", "k", "(\"a\")", "\"b\"", "kb"}
var c04MLVals = []string{"1", "\"c\"", "v", "[7]", "nil"}
var c04MLKeys3 = []string{"\"a\"", "k", "\"b\""}
var c04MLVals3 = []string{"-2", "v"}

func c04MapLitCount() int64 {
	e := int64(len(c04MLKeys) * len(c04MLVals))
	e3 := int64(len(c04MLKeys3) * len(c04MLVals3))
	return e*e + e3*e3*e3
}

func c04MapLitText(i int64) string {
	e := int64(len(c04MLKeys) * len(c04MLVals))
	entry := func(j int64, keys, vals []string, n int) string {
		return fmt.Sprintf("%s: %s", keys[int(j)/len(vals)], strings.Replace(vals[int(j)%len(vals)], "7", fmt.Sprint(70+n), 1))
	}
	var lit string
	if i < e*e {
		lit = "{" + entry(i/e, c04MLKeys, c04MLVals, 1) + ", " + entry(i%e, c04MLKeys, c04MLVals, 2) + "}"
	} else {
		i -= e * e
		e3 := int64(len(c04MLKeys3) * len(c04MLVals3))
		lit = "{" + entry(i/(e3*e3), c04MLKeys3, c04MLVals3, 1) + ", " + entry(i/e3%e3, c04MLKeys3, c04MLVals3, 2) + ", " + entry(i%e3, c04MLKeys3, c04MLVals3, 3) + "}"
	}
	return "k = \"a\"\nkb = \"b\"\nv = 5\nm = " + lit + "\np(m, len(m))\np(m[\"a\"])\nfor i = 0; i < 2; i = i + 1 {\n  n = " + lit + "\n  p(n)\n  n[\"a\"] = i\n  v = v + 1\n}\n"
}

// long-slices (exhaustive, v1 and v2): the slice cube again on LONG objects -
// lists, ASCII strings and multi-byte strings of 7..1025 elements / bytes
// (both sides of every power of two) - with bounds at the landmarks of each
// length (omitted, 0, 1, -1, half, -half, len, -len, len+1) and steps
// (omitted, 1, 2, -1, -2, len, -len). One program holds the 63 slices of one
// start bound.
var c04LongLens = []int{7, 8, 9, 15, 16, 17, 31, 32, 33, 63, 64, 65, 255, 256, 257, 1024, 1025}

func c04LongSliceText(i int64) string {
	si := int(i % 9)
	i /= 9
	kind := int(i % 3)
	n := c04LongLens[int(i)/3]
	var sb strings.Builder
	switch kind {
	case 0:
		sb.WriteString("a = [")
		for j := 0; j < n; j++ {
			if j > 0 {
				sb.WriteString(", ")
			}
			fmt.Fprint(&sb, j)
		}
		sb.WriteString("]\n")
	case 1:
		sb.WriteString("a = \"" + strings.Repeat("abcdefghij", n/10+1)[:n] + "\"\n")
	case 2:
		u := strings.Repeat("aé世😀b", n/11+1)
		sb.WriteString("a = \"" + u[:n] + "\"\n")
		if !utf8.ValidString(u[:n]) {
			// the cut fell inside a character: spell the tail as escapes
			sb.Reset()
			k := n
			for !utf8.ValidString(u[:k]) {
				k--
			}
			sb.WriteString("a = \"" + u[:k])
			for _, b := range []byte(u[k:n]) {
				fmt.Fprintf(&sb, "\\x%02x", b)
			}
			sb.WriteString("\"\n")
		}
	}
	marks := []string{"", "0", "1", "-1", fmt.Sprint(n / 2), fmt.Sprint(-(n / 2)), fmt.Sprint(n), fmt.Sprint(-n), fmt.Sprint(n + 1)}
	steps := []string{"", ":1", ":2", ":-1", ":-2", ":" + fmt.Sprint(n), ":" + fmt.Sprint(-n)}
	sb.WriteString("p(len(a))\n")
	for _, e := range marks {
		for _, st := range steps {
			fmt.Fprintf(&sb, "p(a[%s:%s%s])\n", marks[si], e, st)
		}
	}
	return sb.String()
}
