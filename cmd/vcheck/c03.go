package main

import (
	"fmt"
	"strings"
	"time"

	"verif/internal/drive"
	"verif/internal/gen"
	"verif/internal/gt"
	"verif/internal/mon"
	"verif/internal/ref"
)

// C03: control flow and variable scoping behave as specified.

type c03 struct{}

func init() {
	register(c03{})
	mon.Assumptions["C03"] = []string{
		"reference interpreter internal/ref (scoping: assignment updates the nearest enclosing definition else defines locally; block exit discards locals; an unbound name reads the point key or nil)",
		"for-in over a map is generated with at most one key, or with a body whose effects commute; map iteration order itself is not checked",
		"programs whose outcome the documents do not fix (compound assignment to an undefined name, void operands, nil slice bounds) are not compared",
	}
}

func (c03) ID() string { return "C03" }
func (c03) Rule() string {
	return "seeded programs of nested if/elif/else (all truthiness classes as conditions), the 8 three-clause for shapes, for-in over list/string/map/point values, break/continue at any depth, plain and compound assignments to fresh, outer and shadowing names, with p(<all names>) after every statement; run on seeded points through the real v1 interpreter and through the reference interpreter; traces and final points must be equal. Non-trivial = at least 3 probe events, a loop or a branch, and an assignment inside a nested block. Distinct = distinct (program text, point)."
}

func (c03) Plan(tier string, seed int64) []mon.Workload {
	n := int64(3000)
	if tier == "thorough" {
		n = 150000
	}
	return []mon.Workload{{Name: "programs", N: n}, {Name: "loop-scope", N: int64(len(c03Loops) * len(c03Bodies) * len(c03Vars)), Exhaustive: true},
		{Name: "branch-table", N: 8 * 16 * 2 * 3, Exhaustive: true},
		{Name: "switch-chains", N: c03SwitchN(), Exhaustive: true},
		{Name: "loop-counts", N: int64(len(c03CountNs) * len(c03CountLoops)), Exhaustive: true},
		{Name: "loop-control", N: int64(len(c03LCOuter) * len(c03LCCtl) * len(c03LCNested) * len(c03LCOrder)), Exhaustive: true},
		{Name: "map-iteration", N: n / 10},
		{Name: "many-locals", N: manyLocalsN(), Exhaustive: true},
		{Name: "stale-lookup", N: staleLookupN(), Exhaustive: true},
		{Name: "deep-run", N: int64(len(c01DeepKinds) * len(c01DeepLevels)), Exhaustive: true},
		{Name: "across-use", N: int64(len(c03UseMains) * len(c03UseLibs)), Exhaustive: true}}
}

// loop-scope: every loop form x body template x variable kind. The body
// reads the variable BEFORE assigning it in each iteration (a body-local
// variable must be gone again: the read sees the outer variable, the point
// key or nil), assigns it, and leaves the iteration normally, by continue, or
// by break, at different places.
var c03Loops = []string{
	"for i = 0; i < 3; i = i + 1 {\n%s}\n",
	"i = 0\nfor ; i < 3; i = i + 1 {\n%s}\n",
	"for i = 0; i < 3; {\n  i = i + 1\n%s}\n",
	"i = 0\nfor ; ; {\n  i = i + 1\n  if i > 3 { break }\n%s}\n",
	"for i = 0; ; i = i + 1 {\n  if i >= 3 { break }\n%s}\n",
	"for i in [1, 2, 3] {\n%s}\n",
	"for i in \"abc\" {\n%s}\n",
	"for i in {\"only\": 1} {\n%s}\nfor i in [7, 8] {\n%s}\n",
	"for j = 0; j < 2; j = j + 1 {\n  for i = 0; i < 2; i = i + 1 {\n%s  }\n  p(j, V)\n}\n",
	"if true {\n  for i = 0; i < 3; i = i + 1 {\n%s  }\n  p(V)\n}\n",
	// variables first created by the loop clause / the condition's scope: they belong to the for statement, not to the enclosing block
	"i = 0\nfor ; i < 3; made_by_post = i {\n  i = i + 1\n%s}\np(made_by_post, f1)\n",
	"i = 0\nfor ; i < 3; f1 = \"post\" {\n  i = i + 1\n%s}\np(f1)\n",
	"i = 0\nfor ; ; w2 = i {\n  i = i + 1\n  if i > 3 { break }\n%s}\np(w2)\n",
	"if true {\n  i = 0\n  for ; i < 2; t1 = i {\n    i = i + 1\n%s  }\n  p(t1, i)\n}\np(t1)\n",
}
var c03Bodies = []string{
	"  p(V, i)\n  V = i\n  p(V)\n",
	"  p(V, i)\n  V = i\n  continue\n  p(\"dead\")\n",
	"  p(V, i)\n  V = i\n  if i == 1 || i == \"a\" { continue }\n  W = V\n  p(V, W)\n",
	"  p(V, W, i)\n  if i == 2 || i == \"b\" { V = \"set-before-break\"\n break }\n  V = i\n  W = 5\n",
	"  p(V, i)\n  V = [i]\n  if true { if i { continue } }\n  p(\"after\", V)\n",
	"  p(V, W)\n  if i != 0 { W = i\n V = W\n continue }\n  V = \"first\"\n",
	"  p(V)\n  V += 1\n  p(V)\n  if i == 1 { continue }\n  W = 1\n",
	"  if i == 0 || i == 1 { V = \"early\"\n continue }\n  p(V, i)\n",
}
var c03Vars = []string{"fresh", "f1", "outer", "t1"}

func c03LoopScope(i int64) progCase {
	vi := int(i % int64(len(c03Vars)))
	i /= int64(len(c03Vars))
	bi := int(i % int64(len(c03Bodies)))
	li := int(i / int64(len(c03Bodies)))
	v := c03Vars[vi]
	body := strings.ReplaceAll(strings.ReplaceAll(c03Bodies[bi], "V", v), "W", "w2")
	text := ""
	if v == "outer" {
		text = "outer = \"outer-value\"\n"
	}
	text += strings.ReplaceAll(strings.ReplaceAll(c03Loops[li], "%s", body), "V", v) + "p(" + v + ", w2, i)\n"
	o := drive.Parse("loop-scope", text)
	if o.Err != nil {
		panic("c03: loop-scope program does not parse: " + text + ": " + o.Err.Error())
	}
	l, err := gt.FromStmts(o.Stmts)
	if err != nil {
		panic(err)
	}
	stmts := gt.CloneStmts(l)
	pc := progCase{Stmts: stmts, Src: gt.Print(stmts, nil)}
	pc.Points = []*ref.Point{
		ref.NewPoint("m", map[string]string{"t1": "tag-value"}, map[string]any{"f1": "field-value", "message": "msg"}, time.Unix(1700000000, 0)),
		ref.NewPoint("m", nil, map[string]any{"f1": int64(41)}, time.Unix(1700000000, 0)),
	}
	return pc
}

// branch-table: every truth assignment of a three-condition if/elif/elif
// chain x every choice of empty / non-empty blocks x with / without else x
// three placements (top level, loop body with a break in the else, nested in
// a branch). Exactly the first branch whose condition holds runs - also when
// its block is empty - and no later condition is evaluated.
var c03Falsy = []string{"0", "0.0", "\"\"", "nil", "[]", "{}", "false", "f0"}
var c03Truthy = []string{"1", "-1", "0.5", "\"x\"", "[0]", "{\"a\": 0}", "true", "f1"}

// switch-chains (exhaustive, v1 and v2): if / elif chains of 1..9 conditions
// that all compare the SAME subject with a literal (`x == 2`, `2 == x`),
// over literal sets of one type and of mixed types, for subject values that
// equal a literal exactly, equal it only through numeric promotion (2.0 and
// 2, true and 1), or equal none; the subject is a variable or a point key.
// Exactly the first branch whose condition holds runs, else the else block.
var c03SwLens = []int{1, 2, 3, 4, 5, 6, 9}
var c03SwSets = [][]string{
	{"1", "2", "3", "4", "5", "6", "7", "8", "9"},
	{"1.0", "2.0", "3.5", "4.0", "5.0", "6.0", "7.0", "8.0", "9.0"},
	{"\"a\"", "2", "2.0", "true", "nil", "\"2\"", "0", "1", "false"},
	{"0", "false", "\"\"", "nil", "0.0", "1", "true", "1.0", "\"1\""},
}
var c03SwSubjects = []string{"1", "2", "2.0", "4", "4.0", "3.5", "true", "false", "nil", "\"a\"", "\"2\"", "0", "0.0", "9", "9.0", "\"\"", "77", "1.0", "6 / 2", "8 / 2.0"}
var c03SwForms = []string{"S == L", "L == S", "S == L || false", "(S == L)"}

// loop-counts (exhaustive, v1 and v2): every loop form run N times for N on
// both sides of every power of two up to 4096 - three-clause loops, for-in
// over a list literal / a string / a list built in an earlier loop, nested
// loops whose product is N, a continue and a break in the last iterations:
// the body runs exactly N times and the variables end as specified.
var c03CountNs = []int{0, 1, 2, 7, 8, 9, 15, 16, 17, 31, 32, 33, 63, 64, 65, 127, 128, 129, 255, 256, 257, 1023, 1024, 1025, 4095, 4096, 4097}
var c03CountLoops = []string{"three-clause", "for-in-list", "for-in-string", "for-in-built", "nested", "continue-late", "break-late", "while-style"}

func c03LoopCount(i int64) progCase {
	form := c03CountLoops[int(i)%len(c03CountLoops)]
	n := c03CountNs[int(i)/len(c03CountLoops)]
	var sb strings.Builder
	sb.WriteString("s = 0\nlast = nil\n")
	list := func() string {
		var b strings.Builder
		b.WriteString("[")
		for j := 0; j < n; j++ {
			if j > 0 {
				b.WriteString(", ")
			}
			fmt.Fprint(&b, j)
		}
		return b.String() + "]"
	}
	switch form {
	case "three-clause":
		fmt.Fprintf(&sb, "for i = 0; i < %d; i = i + 1 {\n  s = s + 1\n  last = i\n}\n", n)
	case "for-in-list":
		fmt.Fprintf(&sb, "for e in %s {\n  s = s + 1\n  last = e\n}\n", list())
	case "for-in-string":
		fmt.Fprintf(&sb, "for ch in \"%s\" {\n  s = s + 1\n  last = ch\n}\n", strings.Repeat("abcdefg", n/7+1)[:n])
	case "for-in-built":
		fmt.Fprintf(&sb, "l = %s\nfor j = 0; j < len(l); j = j + 1 {\n  l[j] = l[j] * 2\n}\nfor e in l {\n  s = s + 1\n  last = e\n}\n", list())
	case "nested":
		a := 1
		for a*a < n {
			a++
		}
		b := 0
		if a > 0 && n > 0 {
			b = n / a
		}
		fmt.Fprintf(&sb, "for i = 0; i < %d; i = i + 1 {\n  for j = 0; j < %d; j = j + 1 {\n    s = s + 1\n    last = [i, j]\n  }\n}\nfor k = 0; k < %d; k = k + 1 {\n  s = s + 1\n}\n", a, b, n-a*b)
	case "continue-late":
		fmt.Fprintf(&sb, "for i = 0; i < %d; i = i + 1 {\n  if i == %d {\n    continue\n  }\n  s = s + 1\n  last = i\n}\n", n+1, n-1)
	case "break-late":
		fmt.Fprintf(&sb, "for i = 0; ; i = i + 1 {\n  if i == %d {\n    break\n  }\n  s = s + 1\n  last = i\n}\n", n)
	case "while-style":
		fmt.Fprintf(&sb, "i = 0\nfor ; i < %d; {\n  i = i + 1\n  s = s + 1\n  last = i\n}\n", n)
	}
	sb.WriteString("p(s, last)\n")
	o := drive.Parse("loop-counts", sb.String())
	if o.Err != nil {
		panic("c03: loop-counts program does not parse: " + firstN(sb.String(), 5) + ": " + o.Err.Error())
	}
	l, err := gt.FromStmts(o.Stmts)
	if err != nil {
		panic(err)
	}
	st := gt.CloneStmts(l)
	return progCase{Stmts: st, Src: gt.Print(st, nil), Points: []*ref.Point{ref.NewPoint("m", nil, map[string]any{"f1": int64(1)}, time.Unix(1700000000, 0))}}
}

// loop-control (exhaustive, v1 and v2): a conditional continue or break in
// the body of every kind of loop, written before / after / on both sides of a
// nested statement of every kind (a three-clause loop, a for-in, a loop with
// its own break, an if block, nothing). continue skips the rest of THIS
// iteration of THIS loop, break ends THIS loop, whatever else the body holds.
var c03LCOuter = []string{"for e in [1, 2, 3, 4] {\nBODY}\n", "for e in \"abcd\" {\nBODY}\n", "for e = 1; e <= 4; e = e + 1 {\nBODY}\n", "e = 0\nfor ; e < 4; {\n  e = e + 1\nBODY}\n", "for e in [1, 2, 3, 4] {\n  if true {\nBODY  }\n  p(\"tail\", e)\n}\n"}
var c03LCCtl = []string{"  if e == 2 || e == \"b\" {\n    continue\n  }\n", "  if e == 3 || e == \"c\" {\n    break\n  }\n", "  if e == 1 || e == \"a\" {\n    continue\n  } elif e == 3 || e == \"c\" {\n    break\n  }\n", "  if e == 2 || e == \"b\" {\n    if true {\n      continue\n    }\n  }\n"}
var c03LCNested = []string{"", "  for j = 0; j < 2; j = j + 1 {\n    p(\"in\", e, j)\n  }\n", "  for k in [7, 8] {\n    p(\"in\", e, k)\n  }\n", "  for j = 0; j < 3; j = j + 1 {\n    if j == 1 {\n      break\n    }\n    p(\"in\", e, j)\n  }\n",
	"  for k in [7, 8] {\n    if k == 7 {\n      continue\n    }\n    p(\"in\", e, k)\n  }\n", "  if e != 99 {\n    p(\"if\", e)\n  }\n", "  for ; false; {\n  }\n"}
var c03LCOrder = []string{"CN", "NC", "CNC", "NCN"}

func c03LoopControl(i int64) progCase {
	order := c03LCOrder[int(i)%len(c03LCOrder)]
	i /= int64(len(c03LCOrder))
	nested := c03LCNested[int(i)%len(c03LCNested)]
	i /= int64(len(c03LCNested))
	ctl := c03LCCtl[int(i)%len(c03LCCtl)]
	outer := c03LCOuter[int(i)/len(c03LCCtl)]
	body := "  p(\"top\", e)\n"
	for _, ch := range order {
		if ch == 'C' {
			body += ctl
		} else {
			body += nested
		}
		body += "  p(\"mid\", e)\n"
	}
	text := strings.Replace(outer, "BODY", body, 1) + "p(\"end\")\n"
	o := drive.Parse("loop-control", text)
	if o.Err != nil {
		panic("c03: loop-control program does not parse: " + text + ": " + o.Err.Error())
	}
	l, err := gt.FromStmts(o.Stmts)
	if err != nil {
		panic(err)
	}
	st := gt.CloneStmts(l)
	return progCase{Stmts: st, Src: gt.Print(st, nil), Points: []*ref.Point{ref.NewPoint("m", nil, map[string]any{"f1": int64(1)}, time.Unix(1700000000, 0))}}
}

func c03SwitchN() int64 {
	return int64(len(c03SwLens) * len(c03SwSets) * len(c03SwSubjects) * len(c03SwForms) * 4)
}

func c03SwitchChain(i int64) progCase {
	variant := int(i % 4) // bit 0: with else; bit 1: subject is a point key
	i /= 4
	form := c03SwForms[int(i)%len(c03SwForms)]
	i /= int64(len(c03SwForms))
	subj := c03SwSubjects[int(i)%len(c03SwSubjects)]
	i /= int64(len(c03SwSubjects))
	set := c03SwSets[int(i)%len(c03SwSets)]
	n := c03SwLens[int(i)/len(c03SwSets)]
	name := "x"
	text := "x = " + subj + "\n"
	if variant&2 != 0 {
		// the subject is read from the point (no variable of that name)
		name = "sw"
		text = "add_key(sw, " + subj + ")\n"
	}
	for k := 0; k < n; k++ {
		kw := "} elif "
		if k == 0 {
			kw = "if "
		}
		f := form
		if k == n-1 && form == "S == L || false" {
			f = "S == L" // only the other conditions have the odd shape
		}
		text += kw + strings.NewReplacer("S", name, "L", set[k]).Replace(f) + " {\n  p(\"branch\", " + fmt.Sprint(k) + ")\n"
	}
	if variant&1 != 0 {
		text += "} else {\n  p(\"else\")\n"
	}
	text += "}\np(\"end\")\n"
	text = text + text[strings.Index(text, "\n")+1:] // the chain twice: the second evaluation meets whatever the first left
	o := drive.Parse("switch-chains", text)
	if o.Err != nil {
		panic("c03: switch-chains program does not parse: " + text + ": " + o.Err.Error())
	}
	l, err := gt.FromStmts(o.Stmts)
	if err != nil {
		panic(err)
	}
	st := gt.CloneStmts(l)
	return progCase{Stmts: st, Src: gt.Print(st, nil), Points: []*ref.Point{ref.NewPoint("m", nil, map[string]any{"f1": int64(1)}, time.Unix(1700000000, 0))}}
}

func c03BranchTable(i int64) progCase {
	place := int(i % 3)
	i /= 3
	withElse := i%2 == 1
	i /= 2
	empt := int(i % 16)
	truth := int(i / 16)
	cond := func(n int) string {
		pool := c03Falsy
		if truth&(1<<n) != 0 {
			pool = c03Truthy
		}
		// the condition is wrapped in a probe so that its evaluation is an event
		return "t(" + fmt.Sprint(n) + ", " + pool[(int(i)+3*n+place)%len(pool)] + ")"
	}
	block := func(n int) string {
		if empt&(1<<n) != 0 {
			return "{}"
		}
		if place == 1 && n == 3 {
			return "{ p(\"b3\")\n break }"
		}
		return "{ p(\"b" + fmt.Sprint(n) + "\")\n r = " + fmt.Sprint(n) + " }"
	}
	chain := "if " + cond(0) + " " + block(0) + " elif " + cond(1) + " " + block(1) + " elif " + cond(2) + " " + block(2)
	if withElse {
		chain += " else " + block(3)
	}
	chain += "\n"
	var text string
	switch place {
	case 0:
		text = "r = \"none\"\n" + chain + "p(r)\n"
	case 1:
		text = "r = \"none\"\nfor n = 0; n < 2; n = n + 1 {\n" + chain + "p(n, r)\n}\np(r, n)\n"
	default:
		text = "r = \"none\"\nif f1 {\n" + chain + "p(\"inner\", r)\n} else {}\np(r)\n"
	}
	o := drive.Parse("branch-table", text)
	if o.Err != nil {
		panic("c03: branch-table program does not parse: " + text + ": " + o.Err.Error())
	}
	l, err := gt.FromStmts(o.Stmts)
	if err != nil {
		panic(err)
	}
	stmts := gt.CloneStmts(l)
	pc := progCase{Stmts: stmts, Src: gt.Print(stmts, nil)}
	pc.Points = []*ref.Point{
		ref.NewPoint("m", nil, map[string]any{"f0": int64(0), "f1": "yes"}, time.Unix(1700000000, 0)),
	}
	return pc
}

// across-use (exhaustive): the scoping rules of a script are about ITS OWN
// variables: a script entered through use() starts with none, so a name it
// has not assigned reads as the point's key or nil, and its assignments
// create its own locals - whatever variables (top level, block, loop) are
// alive at the call site in the calling script.
var c03UseMains = []string{
	"x = 1\ny = \"outer\"\nuse(\"lib.p\")\np(x, y, z)\n",
	"if true {\n  x = 1\n  use(\"lib.p\")\n  p(x)\n}\np(x)\n",
	"for i = 0; i < 2; i = i + 1 {\n  use(\"lib.p\")\n  p(i)\n}\np(i)\n",
	"for e in [1, 2] {\n  x = e\n  use(\"lib.p\")\n  p(x, e)\n}\n",
	"f1 = \"shadows the key\"\nuse(\"lib.p\")\np(f1)\n",
	"x = [1]\nif x {\n  y = x\n  for i = 0; i < 1; i = i + 1 {\n    use(\"lib.p\")\n  }\n  p(x, y)\n}\n",
}
var c03UseLibs = []string{
	"p(x, y, i, e, f1)\n",
	"x = 100\ny = \"inner\"\ni = 50\ne = 9\nz = 3\nf1 = 0\np(x, y, i, e, z, f1)\n",
	"if x {\n  x = \"changed\"\n}\nfor i = 5; i < 6; i = i + 1 {\n}\nx += 1\np(x, i)\n",
	"for e in \"ab\" {\n  y = e\n}\np(e, y)\nif true {\n  x = nil\n}\np(x)\n",
}

func c03AcrossUse(c *mon.Ctx, i int64) {
	main := c03UseMains[int(i)%len(c03UseMains)]
	lib := c03UseLibs[int(i)/len(c03UseMains)]
	srcs := map[string]string{"main.p": main, "lib.p": lib}
	stmts := map[string][]*gt.T{}
	for n, text := range srcs {
		o := drive.Parse(n, text)
		if o.Err != nil {
			panic("c03: across-use script does not parse: " + text + ": " + o.Err.Error())
		}
		l, err := gt.FromStmts(o.Stmts)
		if err != nil {
			panic(err)
		}
		stmts[n] = gt.CloneStmts(l)
	}
	info := map[string]any{"scripts": srcs}
	ok, errs := drive.LoadV1(srcs)
	c.Eval(1)
	for n, e := range errs {
		c.Violate("valid-program-rejected", fmt.Sprintf("%s was rejected: %v\n%s", n, e, srcDump(srcs)), info)
		return
	}
	mp := ref.NewPoint("m", map[string]string{"t1": "tag-value"}, map[string]any{"f1": "field-value"}, time.Unix(1700000000, 0))
	prog := &ref.Program{Scripts: stmts, Funcs: ref.Merge(ref.ProbeFuncs(), ref.PointFuncs())}
	model := mp.Clone()
	mo := ref.Run(prog, "main.p", model, modelBudget)
	real := drive.PointFromModel(mp)
	ro := drive.RunV1(ok["main.p"], real, &drive.RunState{Budget: realBudget(mo.Shared.Steps)})
	c.Eval(1)
	c.Nontrivial(srcDump(srcs))
	if mo.Unspecified != "" {
		c.Count("not_compared_unspecified", 1)
		c.Cell("unspecified_reasons", mo.Unspecified)
	} else {
		c.Count("compared", 1)
	}
	if r := compareRun(ro, mo, cmpOpts{Point: model, RealPoint: real}); r != nil {
		c.Violate(r.Class, fmt.Sprintf("%s\n%s", r.Detail, srcDump(srcs)), info)
	}
}

type progCase struct {
	Stmts  []*gt.T
	Src    string
	Points []*ref.Point
}

func (c03) build(c *mon.Ctx) progCase {
	g := gen.NewProg(c.R)
	g.Containers = c.R.Intn(3) == 0
	g.IllTyped = 120
	g.Unbound = 40
	g.PointKeys = []string{"f1", "f2", "t1", "message"}
	g.Names = []string{"a", "b", "c", "d", "f1"}
	g.MaxDepth = 2 + c.R.Intn(3)
	prog := g.Program()
	if wr := c.Sub("wrap"); wr.Intn(6) == 0 {
		// one program in six runs 1..9 blocks deeper
		prog = wrapDeep(prog, 1+wr.Intn(9))
	}
	stmts := gt.ParenthesizeStmts(prog)
	var lay *gt.Layout
	if c.R.Intn(4) == 0 {
		lay = &gt.Layout{R: c.Sub("lay"), Breaks: true}
	}
	pc := progCase{Stmts: stmts, Src: gt.Print(stmts, lay)}
	pr := c.Sub("points")
	for i := 0; i < 2; i++ {
		pc.Points = append(pc.Points, gen.ModelPoint(pr, []string{"f1", "f2", "message", "a"}, []string{"t1", "b"}))
	}
	return pc
}

func (k c03) Describe(c *mon.Ctx, workload string, i int64) any {
	if workload == "loop-scope" {
		return map[string]any{"source": c03LoopScope(i).Src}
	}
	if workload == "branch-table" {
		return map[string]any{"source": c03BranchTable(i).Src}
	}
	if workload == "map-iteration" {
		return map[string]any{"source": buildMapIter(c.R).Src}
	}
	if workload == "many-locals" {
		return map[string]any{"source": gt.Print(manyLocalsProgram(i), nil)}
	}
	if workload == "stale-lookup" {
		return map[string]any{"source": gt.Print(staleLookupProgram(i), nil)}
	}
	if workload == "deep-run" {
		return map[string]any{"source": gt.Print(c01DeepRun(i), nil)}
	}
	if workload == "across-use" {
		return map[string]any{"main.p": c03UseMains[int(i)%len(c03UseMains)], "lib.p": c03UseLibs[int(i)/len(c03UseMains)]}
	}
	pc := k.build(c)
	pts := []string{}
	for _, p := range pc.Points {
		pts = append(pts, p.Show())
	}
	return map[string]any{"source": pc.Src, "points": pts}
}

func nestedAssign(l []*gt.T) (loopOrBranch, nested bool) {
	var walk func(l []*gt.T, depth int)
	walk = func(l []*gt.T, depth int) {
		for _, s := range l {
			switch s.K {
			case gt.KAssign:
				if depth > 0 {
					nested = true
				}
			case gt.KIf:
				loopOrBranch = true
				for _, b := range s.Blocks {
					walk(b, depth+1)
				}
				walk(s.Else, depth+1)
			case gt.KFor, gt.KForIn:
				loopOrBranch = true
				walk(s.Body, depth+1)
			}
		}
	}
	walk(l, 0)
	return
}

func (k c03) Run(c *mon.Ctx, workload string, i int64) {
	if workload == "loop-scope" {
		runV1Compare(c, c03LoopScope(i), "c03.p")
		return
	}
	if workload == "branch-table" {
		runV1Compare(c, c03BranchTable(i), "c03.p")
		return
	}
	if workload == "loop-control" {
		pc := c03LoopControl(i)
		runV1Compare(c, pc, "c03.p")
		runV2Text(c, "loop-control", pc.Src)
		return
	}
	if workload == "loop-counts" {
		pc := c03LoopCount(i)
		runV1Compare(c, pc, "c03.p")
		runV2Text(c, "loop-counts", pc.Src)
		return
	}
	if workload == "switch-chains" {
		pc := c03SwitchChain(i)
		runV1Compare(c, pc, "c03.p")
		runV2Text(c, "switch-chains", pc.Src)
		return
	}
	if workload == "map-iteration" {
		runMapIter(c, false)
		return
	}
	if workload == "across-use" {
		c03AcrossUse(c, i)
		return
	}
	if workload == "deep-run" {
		st := c01DeepRun(i)
		runV1Compare(c, progCase{Stmts: st, Src: gt.Print(st, nil), Points: []*ref.Point{ref.NewPoint("m", nil, map[string]any{"f1": int64(1)}, time.Unix(1700000000, 0))}}, "c03.p")
		return
	}
	if workload == "stale-lookup" {
		st := staleLookupProgram(i)
		runV1Compare(c, progCase{Stmts: st, Src: gt.Print(st, nil), Points: []*ref.Point{ref.NewPoint("m", nil, map[string]any{"f1": int64(1), "t": "point's t"}, time.Unix(1700000000, 0)),
			ref.NewPoint("m", nil, map[string]any{"f1": int64(1)}, time.Unix(1700000000, 0))}}, "c03.p")
		return
	}
	if workload == "many-locals" {
		st := manyLocalsProgram(i)
		runV1Compare(c, progCase{Stmts: st, Src: gt.Print(st, nil), Points: []*ref.Point{ref.NewPoint("m", nil, map[string]any{"f1": int64(1)}, time.Unix(1700000000, 0))}}, "c03.p")
		return
	}
	pc := k.build(c)
	runV1Compare(c, pc, "c03.p")
}

// runV1Compare loads pc.Src with the real loader, runs it on every point on
// both sides and reports differences.
func runV1Compare(c *mon.Ctx, pc progCase, name string) {
	script, err := drive.LoadV1One(name, pc.Src)
	cs := map[string]any{"source": pc.Src}
	if err != nil {
		c.Violate("valid-program-rejected", fmt.Sprintf("generated program was rejected at load time: %v\n%s", err, pc.Src), cs)
		return
	}
	prog := &ref.Program{Scripts: map[string][]*gt.T{name: pc.Stmts}, Funcs: ref.ProbeFuncs()}
	lb, nested := nestedAssign(pc.Stmts)
	for pi, mp := range pc.Points {
		model := mp.Clone()
		mo := ref.Run(prog, name, model, modelBudget)
		if mo.TooBig {
			c.Count("skipped_too_big", 1)
			continue
		}
		real := drive.PointFromModel(mp)
		rs := &drive.RunState{Budget: realBudget(mo.Shared.Steps)}
		ro := drive.RunV1(script, real, rs)
		c.Eval(1)
		switch {
		case mo.Unspecified != "":
			c.Count("not_compared_unspecified", 1)
			c.Cell("unspecified_reasons", mo.Unspecified)
		case mo.Budget:
			c.Count("not_compared_model_budget", 1)
		case mo.Shared.MapOrderDependent:
			c.Count("not_compared_map_order", 1)
		default:
			c.Count("compared", 1)
			if mo.Err != nil {
				c.Count("runs_ending_in_error", 1)
				c.Count("err: "+mo.Err.Msg, 1)
			}
		}
		if len(mo.Events) >= 3 && lb && nested && mo.Unspecified == "" {
			c.Nontrivial(pc.Src + "|" + mp.Show())
		}
		cs["point"] = mp.Show()
		if r := compareRun(ro, mo, cmpOpts{Point: model, RealPoint: real}); r != nil {
			c.Violate(r.Class, fmt.Sprintf("%s\n--- program\n%s--- point\n%s", r.Detail, pc.Src, mp.Show()), cs)
			return
		}
		if pi == 0 && !againV1(c, script, name, pc.Src, mp, model, mo, true, "", cs) {
			return
		}
		if c.WantSample() && len(mo.Events) >= 4 && len(pc.Src) < 500 && mo.Unspecified == "" {
			ev := []string{}
			for _, e := range mo.Events {
				ev = append(ev, e.String())
			}
			c.Sample(map[string]any{"source": pc.Src, "point": mp.Show(), "trace": ev})
		}
	}
	gt.WalkStmts(pc.Stmts, func(t *gt.T) {
		if t.K == gt.KFor {
			shape := 0
			if t.Init != nil {
				shape |= 1
			}
			if t.Cond != nil {
				shape |= 2
			}
			if t.Loop != nil {
				shape |= 4
			}
			c.Cell("for_shapes", fmt.Sprint(shape))
		}
		c.Cell("node_kinds", t.K.String())
	})
}
