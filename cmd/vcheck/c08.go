package main

import (
	"fmt"
	"strings"

	"github.com/GuanceCloud/platypus/pkg/ast"
	"github.com/GuanceCloud/platypus/pkg/engine"
	plrt "github.com/GuanceCloud/platypus/pkg/engine/runtime"
	"github.com/GuanceCloud/platypus/pkg/engine/runtimev2"
	"github.com/GuanceCloud/platypus/pkg/errchain"
	"github.com/GuanceCloud/platypus/pkg/inimpl/guancecloud/funcs"

	"verif/internal/drive"
	"verif/internal/gen"
	"verif/internal/gt"
	"verif/internal/mon"
)

// C08: load-time checking rejects every invalid construct wherever it occurs.

type c08 struct{}

func init() {
	register(c08{})
	mon.Assumptions["C08"] = []string{
		"offender kinds: unknown function, wrong argument count / wrong literal kind per builtin, break/continue outside a loop; operator typing is not checked at load time and the property does not ask for it",
		"the reported position must lie inside the source span of the offender, which the generator knows from its printer",
	}
}

func (c08) ID() string { return "C08" }
func (c08) Rule() string {
	return "for each seeded valid base program (accepted by the check pass under test: v1 with the shipped builtins in valid argument shapes, v2 with declared probe functions), every expression slot of the tree (conditions, the three for clauses, iterables, list/map elements and keys, index keys, slice object and each bound/step in every slice form, call and named arguments, assignment targets and sources, operands, value statements) receives an unknown-function call and a sample of per-builtin wrong-count / wrong-literal-kind calls, and every statement position outside loops receives break / continue; each mutant must be rejected with a first position inside the offender. subset-tables: the same bases loaded with random subsets of the function tables. Non-trivial = a mutant; distinct = distinct (position kind, offender kind, source)."
}

func (c08) Plan(tier string, seed int64) []mon.Workload {
	n := int64(300)
	if tier == "thorough" {
		n = 6000
	}
	return []mon.Workload{{Name: "v1", N: n}, {Name: "v2", N: n}, {Name: "subset-tables", N: n / 2},
		{Name: "long-valid", N: int64(len(c08LongSizes) * len(c08LongShapes) * 2), Exhaustive: true},
		{Name: "after-valid-twin", N: int64(len(c08BadV1) * len(c08TwinWraps)), Exhaustive: true},
		{Name: "bare-offenders", N: int64(len(c08BareOffenders) * len(c08BareContexts) * 2), Exhaustive: true},
		{Name: "decided-conditions", N: int64(len(c08DecidedOuter) * len(c08DecidedInner) * len(c08DecidedOff) * 2), Exhaustive: true}}
}

// invalid calls per builtin: label -> source text (identifiers a, b exist as plain names)
var c08BadV1 = [][2]string{
	{"add_key/count0", "add_key()"}, {"add_key/count3", "add_key(a, 1, 2)"}, {"add_key/kind", "add_key(1)"},
	{"get_key/count0", "get_key()"}, {"get_key/kind", "get_key(1)"},
	{"set_tag/count0", "set_tag()"}, {"set_tag/kind2", "set_tag(a, 5)"}, {"set_tag/kind1", "set_tag(1)"},
	{"drop_key/count0", "drop_key()"}, {"drop_key/count2", "drop_key(a, b)"}, {"drop_key/kind", "drop_key(5)"},
	{"rename/count1", "rename(a)"}, {"rename/kind2", "rename(a, \"lit\")"}, {"rename/kind1", "rename(5, b)"},
	{"cast/count1", "cast(a)"}, {"cast/kind2", "cast(a, 5)"}, {"cast/type", "cast(a, \"nosuchtype\")"},
	{"set_measurement/count0", "set_measurement()"}, {"set_measurement/kind2", "set_measurement(a, 1)"}, {"set_measurement/kind1", "set_measurement(5)"},
	{"len/count0", "len()"}, {"len/count2", "len(1, 2)"},
	{"load_json/count0", "load_json()"}, {"load_json/count2", "load_json(1, 2)"},
	{"strfmt/count1", "strfmt(a)"}, {"strfmt/kind2", "strfmt(a, 5)"}, {"strfmt/kind1", "strfmt(5, \"%d\")"},
	{"printf/count0", "printf()"}, {"printf/kind1", "printf(5)"},
	{"trim/count0", "trim()"}, {"trim/kind2", "trim(a, 5)"}, {"trim/count3", "trim(a, \"x\", \"y\")"},
	{"uppercase/count0", "uppercase()"}, {"uppercase/count2", "uppercase(a, b)"},
	{"replace/count2", "replace(a, \"x\")"}, {"replace/kind2", "replace(a, 5, \"y\")"}, {"replace/kind3", "replace(a, \"x\", 5)"},
	{"url_decode/count0", "url_decode()"}, {"url_decode/kind", "url_decode(5)"},
	{"use/count0", "use()"}, {"use/kind", "use(a)"}, {"use/missing-script", "use(\"nosuch.p\")"},
	{"grok/count1", "grok(a)"}, {"grok/kind2", "grok(a, 5)"}, {"grok/unknown-pattern", "grok(a, \"%{NOSUCHPATTERN:x}\")"}, {"grok/kind3", "grok(a, \"%{WORD:w}\", 1)"},
	{"add_pattern/count1", "add_pattern(\"x\")"}, {"add_pattern/kind1", "add_pattern(5, \"y\")"}, {"add_pattern/kind2", "add_pattern(\"x\", 5)"},
	{"xml/count2", "xml(a, \"/x\")"}, {"xml/kind2", "xml(a, 5, b)"}, {"xml/kind3", "xml(a, \"/x\", 5)"},
	{"datetime/count2", "datetime(a, \"s\")"}, {"datetime/kind2", "datetime(a, 5, \"RFC3339\")"}, {"datetime/kind3", "datetime(a, \"s\", 5)"},
	{"default_time/count0", "default_time()"}, {"default_time/kind2", "default_time(a, 5)"},
	{"sql_cover/count0", "sql_cover()"}, {"sql_cover/kind", "sql_cover(5)"},
}

var c08BadV2 = [][2]string{
	{"f/missing-required", "f()"}, {"f/surplus", "f(1, 2, 3)"}, {"f/unknown-name", "f(zz = 1)"},
	{"f/duplicate", "f(a = 1, a = 2)"}, {"f/positional-after-named", "f(b = 1, 2)"}, {"f/named-then-missing", "f(b = 1)"},
}

// parseExprText turns source text of one call into a tree (via the real
// parser, which is trusted here only to read the offender table).
func c08Offender(text string) *gt.T {
	o := drive.Parse("offender", text)
	if o.Err != nil {
		panic("c08: offender does not parse: " + text)
	}
	l, err := gt.FromStmts(o.Stmts)
	if err != nil || len(l) != 1 {
		panic("c08: offender: " + text)
	}
	return gt.Clone(l[0])
}

var c08V2Params = []*runtimev2.Param{{Name: "a"}, {Name: "b", Val: func() any { return int64(0) }}}

func c08V2Funcs() map[string]*runtimev2.Fn {
	m := drive.V2Funcs()
	m["f"] = &runtimev2.Fn{
		CallCheck: func(ctx *runtimev2.Task, e *ast.CallExpr) *errchain.PlError {
			return runtimev2.CheckPassParam(ctx, e, c08V2Params)
		},
		Call: func(ctx *runtimev2.Task, e *ast.CallExpr) *errchain.PlError { return nil },
	}
	return m
}

var c08V2Table = c08V2Funcs()

func (c08) base(c *mon.Ctx, v2 bool) []*gt.T {
	s := gen.NewSyntax(c.R)
	s.Idents = []string{"a", "b", "c", "x", "naïve", "if x"}
	s.NoObjIndex = false
	s.StrMapKeys = true
	s.NoMulti = !v2
	if v2 {
		s.CallGen = func(d int) *gt.T {
			switch c.R.Intn(5) {
			case 0:
				return gt.Call("f", s.Expr(min(d, 1)))
			case 1:
				return gt.Call("f", s.Expr(min(d, 1)), gt.Named("b", s.Expr(0)))
			case 2:
				return gt.Call("len", s.Expr(min(d, 1)))
			case 3:
				return gt.Call("void")
			}
			return gt.Call("p", s.Expr(min(d, 1)), s.Expr(0))
		}
	} else {
		ba := &gen.BuiltinArgs{R: c.R, Keys: []string{"a", "b", "f1", "_"}, Attr: true}
		ba.Expr = func() *gt.T { return s.Expr(1) }
		s.CallGen = func(d int) *gt.T {
			for {
				sh := gen.Shapes[c.R.Intn(len(gen.Shapes))]
				call := ba.Call(sh)
				ok := true
				for _, a := range call.Kids {
					// patterns must compile
					if a.K == gt.KStr && (sh.Name == "grok" || sh.Name == "add_pattern") && (a.S == "" || strings.Contains(a.S, "rest}") && false) {
						ok = false
					}
				}
				if ok {
					return call
				}
			}
		}
	}
	return s.Program(3, 2, 2)
}

func (k c08) Describe(c *mon.Ctx, workload string, i int64) any {
	if workload == "bare-offenders" {
		src, off, _ := c08BareCase(i)
		return map[string]any{"source": src, "offender": off}
	}
	if workload == "decided-conditions" {
		src, off, _ := c08DecidedCase(i)
		return map[string]any{"source": src, "offender": off}
	}
	if workload == "long-valid" || workload == "after-valid-twin" {
		return map[string]any{"index": i}
	}
	return map[string]any{"base": gt.Print(gt.ParenthesizeStmts(k.base(c, workload == "v2")), nil)}
}

// long-valid: "a script made only of valid constructs is never rejected" -
// however long it is and however deep it nests. Sizes in statements / levels.
var c08LongSizes = []int{50, 300, 1200, 4000}
var c08LongShapes = []string{"assignments", "if-else", "small-loops", "mixed", "nested-if", "nested-loops", "nested-expr", "long-list"}

func c08LongScript(shape string, n int) string {
	var sb strings.Builder
	switch shape {
	case "assignments":
		for i := 0; i < n; i++ {
			fmt.Fprintf(&sb, "a = %d + 2 * a\n", i)
		}
	case "if-else":
		for i := 0; i < n; i++ {
			fmt.Fprintf(&sb, "if a == %d {\n  b = 1\n} elif a {\n  b = 2\n} else {\n  b = [a, %d]\n}\n", i, i)
		}
	case "small-loops":
		for i := 0; i < n; i++ {
			fmt.Fprintf(&sb, "for i = 0; i < 2; i = i + 1 {\n  if i == 1 { continue }\n  c = i\n}\n")
		}
	case "mixed":
		for i := 0; i < n; i++ {
			switch i % 4 {
			case 0:
				fmt.Fprintf(&sb, "x = {\"k\": [%d, a[1:2]], \"q\": -a}\n", i)
			case 1:
				fmt.Fprintf(&sb, "for e in [1, 2] {\n  if e { break }\n}\n")
			case 2:
				fmt.Fprintf(&sb, "p(a, %d)\n", i)
			default:
				fmt.Fprintf(&sb, "if a in x && !b || a != %d {\n  a += 1\n}\n", i)
			}
		}
	case "nested-if":
		d := min(n/10, 150)
		for i := 0; i < d; i++ {
			sb.WriteString(strings.Repeat(" ", i%8) + "if a {\n")
		}
		sb.WriteString("b = 1\n")
		for i := 0; i < d; i++ {
			sb.WriteString("}\n")
		}
	case "nested-loops":
		d := min(n/10, 150)
		for i := 0; i < d; i++ {
			sb.WriteString("for e in [1] {\n")
		}
		sb.WriteString("b = 1\nbreak\n")
		for i := 0; i < d; i++ {
			sb.WriteString("}\n")
		}
	case "nested-expr":
		d := min(n/4, 400)
		sb.WriteString("x = " + strings.Repeat("(1 + ", d) + "a" + strings.Repeat(")", d) + "\n")
		sb.WriteString("y = " + strings.Repeat("[", d) + "a" + strings.Repeat("]", d) + "\n")
	case "long-list":
		sb.WriteString("x = [")
		for i := 0; i < n; i++ {
			fmt.Fprintf(&sb, "%d, ", i)
		}
		sb.WriteString("a]\ny = {")
		for i := 0; i < n; i++ {
			fmt.Fprintf(&sb, "\"k%d\": a, ", i)
		}
		sb.WriteString("\"z\": 1}\n")
	}
	return sb.String()
}

func (k c08) longValid(c *mon.Ctx, i int64) {
	v2 := i%2 == 1
	i /= 2
	shape := c08LongShapes[int(i)%len(c08LongShapes)]
	n := c08LongSizes[int(i)/len(c08LongShapes)]
	src := c08LongScript(shape, n)
	load, name := c08Loader(loadV1Err), "v1"
	if v2 {
		load, name = loadV2Err, "v2"
	}
	err, pan := load(src)
	c.Eval(1)
	c.Nontrivial(fmt.Sprint(shape, n, v2))
	c.Cell("long_valid_shapes", fmt.Sprintf("%s/%d/%s", shape, n, name))
	info := map[string]any{"shape": shape, "size": n, "interpreter": name, "source_head": firstN(src, 12)}
	switch {
	case pan != nil:
		c.Violate("check-panic", fmt.Sprintf("loading a valid %s script of size %d panicked: %v", shape, n, pan), info)
	case err != nil:
		c.Violate("valid-program-rejected:"+name, fmt.Sprintf("a valid script (%s, size %d, %d bytes) was rejected by the %s check pass: %v", shape, n, len(src), name, err), info)
	}
}

// after-valid-twin (exhaustive, v1): every invalid call of the table again,
// but preceded - in the same scope or in an enclosing one - by a VALID call of
// the same builtin with the same literal arguments (same pattern, same
// format, same key): whatever a checker remembers about a call it has already
// accepted must not vouch for a later, differently shaped one.
var c08Valid = map[string]string{
	"add_key": "add_key(a, 1)", "get_key": "get_key(a)", "set_tag": "set_tag(a, \"x\")", "drop_key": "drop_key(a)", "rename": "rename(a, b)", "cast": "cast(a, \"int\")",
	"set_measurement": "set_measurement(a, true)", "len": "len(a)", "load_json": "load_json(a)", "strfmt": "strfmt(a, \"%d\", 1)", "printf": "printf(\"%d\", 1)",
	"trim": "trim(a, \"x\")", "uppercase": "uppercase(a)", "replace": "replace(a, \"x\", \"y\")", "url_decode": "url_decode(a)", "grok": "grok(a, \"%{WORD:w}\")",
	"add_pattern": "add_pattern(\"x\", \"y\")", "xml": "xml(a, \"/x\", b)", "datetime": "datetime(a, \"s\", \"RFC3339\")", "default_time": "default_time(a)", "sql_cover": "sql_cover(a)",
	"use": "a = 1",
}
var c08TwinWraps = []string{"VALID\nBAD\n", "VALID\nif a {\n  BAD\n}\n", "VALID\nfor e in [1] {\n  if e {\n    x = [BAD]\n  }\n}\n", "if a {\n  VALID\n} elif BAD {\n}\n", "VALID\nVALID\nx = 1 + BAD\n"}

func (k c08) afterTwin(c *mon.Ctx, i int64) {
	wrap := c08TwinWraps[int(i)%len(c08TwinWraps)]
	bad := c08BadV1[int(i)/len(c08TwinWraps)]
	name := strings.SplitN(bad[0], "/", 2)[0]
	valid, ok := c08Valid[name]
	if !ok {
		panic("c08: no valid twin for " + name)
	}
	src := strings.ReplaceAll(strings.ReplaceAll(wrap, "VALID", valid), "BAD", bad[1])
	if bad[0] == "use/missing-script" && strings.Contains(wrap, "[BAD]") {
		return
	}
	err, pan := loadV1Err(src)
	c.Eval(1)
	c.Nontrivial(src)
	cs := map[string]any{"source": src, "offender": bad[0]}
	at := strings.Index(src, bad[1])
	switch {
	case pan != nil:
		c.Violate("check-panic", fmt.Sprintf("loading panicked: %v\n%s", pan, src), cs)
	case err == nil:
		c.Violate("offender-accepted:v1:after-valid-twin", fmt.Sprintf("%s was accepted after a valid call of the same builtin\n%s", bad[0], src), cs)
	default:
		pe, ok := err.(*errchain.PlError)
		if !ok || len(pe.PosChain) == 0 {
			c.Violate("load-error-without-position", fmt.Sprintf("%T %v\n%s", err, err, src), cs)
			return
		}
		if p := pe.PosChain[0]; p.Pos < at || p.Pos >= at+len(bad[1]) {
			c.Violate("load-error-points-elsewhere:v1", fmt.Sprintf("offender %s occupies bytes [%d,%d) but the error points at %s:%d:%d (offset %d): %s\n%s", bad[0], at, at+len(bad[1]), p.File, p.Ln, p.Col, p.Pos, pe.Err, src), cs)
		}
	}
}

type c08Loader func(src string) (err error, pan any)

func loadV1Err(src string) (err error, pan any) {
	defer func() { pan = recover() }()
	_, errs := drive.LoadV1(map[string]string{"c08.p": src})
	if e := errs["c08.p"]; e != nil {
		return e, nil
	}
	return nil, nil
}

func loadV2Err(src string) (err error, pan any) {
	defer func() { pan = recover() }()
	drive.Init()
	_, err = engine.ParseV2("c08.p", src, c08V2Table)
	return
}

func (k c08) Run(c *mon.Ctx, workload string, i int64) {
	if workload == "subset-tables" {
		k.subset(c)
		return
	}
	if workload == "long-valid" {
		k.longValid(c, i)
		return
	}
	if workload == "after-valid-twin" {
		k.afterTwin(c, i)
		return
	}
	if workload == "bare-offenders" {
		k.bareOffenders(c, i)
		return
	}
	if workload == "decided-conditions" {
		k.decided(c, i)
		return
	}
	v2 := workload == "v2"
	load := c08Loader(loadV1Err)
	bad := c08BadV1
	if v2 {
		load, bad = loadV2Err, c08BadV2
	}
	base := gt.ParenthesizeStmts(k.base(c, v2))
	// tokens that span several lines in front of everything else (a raw
	// multi-line string, a back-quoted name with a line break in it): the
	// line and column of whatever follows must still be right
	switch c.R.Intn(4) {
	case 0:
		base = append([]*gt.T{gt.Assign("=", gt.Ident("ml"), &gt.T{K: gt.KStr, S: "one\ntwo\n", Spell: "\"\"\"one\ntwo\n\"\"\""})}, base...)
	case 1:
		base = append([]*gt.T{gt.Assign("=", &gt.T{K: gt.KIdent, S: "q\nr", Spell: "`q\nr`"}, gt.Int(1)),
			gt.Assign("=", gt.Ident("ml"), &gt.T{K: gt.KStr, S: "é\n\n世", Spell: "'''é\n\n世'''"})}, base...)
	}
	src := gt.Print(base, nil)
	err, pan := load(src)
	c.Eval(1)
	info := map[string]any{"base": src, "interpreter": workload}
	if pan != nil {
		c.Violate("check-panic", fmt.Sprintf("loading a valid program panicked: %v\n%s", pan, src), info)
		return
	}
	if err != nil {
		c.Violate("valid-program-rejected:"+workload, fmt.Sprintf("a program made only of valid constructs was rejected: %v\n%s", err, src), info)
		return
	}
	c.Count("bases_accepted", 1)

	check := func(posKind, offKind string, off *gt.T, text string) {
		err, pan := load(text)
		c.Eval(1)
		c.Nontrivial(posKind + "|" + offKind + "|" + text)
		c.Cell("position_x_offender", posKind+" <- "+strings.SplitN(offKind, "/", 2)[0])
		c.Cell("position_kinds", posKind)
		c.Cell("offender_kinds", offKind)
		cs := map[string]any{"source": text, "position": posKind, "offender": offKind, "interpreter": workload}
		switch {
		case pan != nil:
			c.Violate("check-panic", fmt.Sprintf("loading panicked: %v\n%s", pan, text), cs)
		case err == nil:
			c.Violate("offender-accepted:"+workload+":"+posKind, fmt.Sprintf("%s at position %s was accepted by the %s check pass\n%s", offKind, posKind, workload, text), cs)
		default:
			pe, ok := err.(*errchain.PlError)
			if !ok || len(pe.PosChain) == 0 {
				c.Violate("load-error-without-position", fmt.Sprintf("%T %v\n%s", err, err, text), cs)
				return
			}
			p := pe.PosChain[0]
			if p.Pos < off.Span[0] || p.Pos >= off.Span[1] || p.File != "c08.p" {
				c.Violate("load-error-points-elsewhere:"+workload, fmt.Sprintf("offender %s occupies bytes [%d,%d) but the error points at %s:%d:%d (offset %d): %s\n%s",
					offKind, off.Span[0], off.Span[1], p.File, p.Ln, p.Col, p.Pos, pe.Err, text), cs)
			} else if d := drive.CheckPosition(p, "c08.p", text); d != "" {
				c.Violate("load-error-bad-position", d+"\n"+text, cs)
			}
		}
		if c.WantSample() && len(text) < 200 && c.R.Intn(50) == 0 {
			c.Sample(map[string]any{"mutant": text, "position": posKind, "offender": offKind, "verdict": fmt.Sprint(err)})
		}
	}

	slots := gt.ExprSlots(base)
	for _, sl := range slots {
		orig := sl.Get()
		offs := [][2]string{{"unknown-function", "nosuch(1)"}}
		for n := 0; n < 2; n++ {
			offs = append(offs, bad[c.R.Intn(len(bad))])
		}
		for _, o := range offs {
			if o[0] == "use/missing-script" && (sl.Kind == "call-arg" || sl.Kind == "named-arg-value") {
				// a missing script is found at link time, after the
				// enclosing call's own shape check (which a call in a
				// literal-only argument position fails first)
				continue
			}
			off := c08Offender(o[1])
			sl.Set(off)
			text := gt.Print(base, nil)
			check(sl.Kind, o[0], off, text)
		}
		sl.Set(orig)
	}
	// break / continue outside loops
	for _, sp := range gt.StmtPositions(&base) {
		if sp.InLoop {
			continue
		}
		for _, bc := range []*gt.T{gt.Break(), gt.Continue()} {
			undo := sp.Insert(bc)
			text := gt.Print(base, nil)
			kind := "stmt/top"
			switch {
			case sp.InIfAfterLoop:
				kind = "stmt/in-if-after-loop"
			case sp.AfterLoop:
				kind = "stmt/right-after-loop"
			case sp.Depth > 0:
				kind = "stmt/in-branch"
			}
			check(kind, bc.K.String()+"-outside-loop", bc, text)
			undo()
		}
	}
}

// subset loads v1 bases with random subsets of the function tables: a call
// of a function missing from either table must be rejected, everything else
// accepted.
func (k c08) subset(c *mon.Ctx) {
	base := gt.ParenthesizeStmts(k.base(c, false))
	src := gt.Print(base, nil)
	used := map[string]bool{}
	gt.WalkStmts(base, func(t *gt.T) {
		if t.K == gt.KCall {
			used[t.S] = true
		}
	})
	call := map[string]plrt.FuncCall{}
	check := map[string]plrt.FuncCheck{}
	missing := ""
	for name, f := range funcs.FuncsMap {
		switch c.R.Intn(6) {
		case 0: // absent from both
			if used[name] {
				missing = name
			}
		case 1: // callable but no checker
			call[name] = f
			if used[name] {
				missing = name
			}
		default:
			call[name] = f
			check[name] = funcs.FuncsCheckMap[name]
		}
	}
	drive.Init()
	var errs map[string]error
	var pan any
	func() {
		defer func() { pan = recover() }()
		_, errs = engine.ParseScript(map[string]string{"c08.p": src}, call, check)
	}()
	c.Eval(1)
	c.Nontrivial("subset|" + src + "|" + missing)
	info := map[string]any{"source": src, "missing": missing}
	err := errs["c08.p"]
	switch {
	case pan != nil:
		c.Violate("check-panic", fmt.Sprintf("loading with a partial function table panicked: %v\n%s", pan, src), info)
	case missing != "" && err == nil:
		c.Violate("unregistered-function-accepted", fmt.Sprintf("function %s is not (fully) registered but the script was accepted\n%s", missing, src), info)
	case missing == "" && err != nil:
		c.Violate("valid-program-rejected:subset", fmt.Sprintf("all used functions are registered, yet: %v\n%s", err, src), info)
	}
	if missing != "" {
		c.Count("subset_cases_with_missing_function", 1)
	}
}

// bare-offenders (exhaustive, v1 and v2): the offender in the SMALLEST
// scripts that can hold it - alone, between statements that need no
// parenthesis and no brace, after comments, with CRLF line ends, after a
// finished loop - and with its keyword or name in every letter case the lexer
// accepts. The generated bases above always contain calls and blocks, so a
// loader that decides from the look of the text whether a script needs
// checking at all is only visible here.
var c08BareOffenders = []string{"break", "BREAK", "Break", "bReAk", "continue", "CONTINUE", "Continue", "cOnTiNuE", "nosuch()", "NoSuch(1)", "nosuch\n(\n)", "x = nosuch()", "x = [nosuch()]"}
var c08BareContexts = []string{"OFF", "OFF\n", "\nOFF", "x = 1\nOFF", "OFF\nx = 1\n", "x = 1; OFF; y = 2", "# note\nOFF\n", "x = \"s\"\nOFF\n", "x = [1, 2]\ny = x[0]\nOFF\n",
	"a\nOFF", "\n\n  OFF  \n\n", "x = 1 # comment\nOFF # comment", "x = 1\r\nOFF\r\n", "x = 'b r e a k'\nOFF", "x = 1.5 + 2 * 3 - a\ny = !x\nOFF\nz = x == y",
	"for e in [1] { x = e }\nOFF\n", "for e in [1] { if e { break } }\nOFF", "if a { OFF }", "if a { x = 1 } else { OFF }", "if a { x = 1 } elif b { y = 2\nOFF\n}",
	"for i = 0; i < 1; i = i + 1 { continue }\nif a {\n  OFF\n}\n", "x = {\"k\": 1}\nOFF", "\xef\xbb\xbfx = 1\nOFF"}

func c08BareCase(i int64) (src, off string, v2 bool) {
	v2 = i%2 == 1
	i /= 2
	off = c08BareOffenders[int(i)%len(c08BareOffenders)]
	ctx := c08BareContexts[int(i)/len(c08BareOffenders)]
	return strings.Replace(ctx, "OFF", off, 1), off, v2
}

func (k c08) bareOffenders(c *mon.Ctx, i int64) {
	src, off, v2 := c08BareCase(i)
	load, name := c08Loader(loadV1Err), "v1"
	if v2 {
		load, name = loadV2Err, "v2"
	}
	// the context alone (offender replaced by a plain statement) shows
	// whether the loader takes the surroundings at all (a BOM, say)
	ctxOnly := strings.Replace(src, off, "w = 0", 1)
	if e, p := load(ctxOnly); e != nil || p != nil {
		c.Count("bare_contexts_not_accepted_by_themselves", 1)
		return
	}
	err, pan := load(src)
	c.Eval(1)
	c.Nontrivial(src + name)
	c.Cell("bare_offenders", off)
	cs := map[string]any{"source": src, "offender": off, "interpreter": name}
	at := strings.Index(src, off)
	switch {
	case pan != nil:
		c.Violate("check-panic", fmt.Sprintf("loading panicked: %v\n%q", pan, src), cs)
	case err == nil:
		c.Violate("offender-accepted:"+name+":bare", fmt.Sprintf("%q was accepted by the %s check pass in the script %q", off, name, src), cs)
	default:
		pe, ok := err.(*errchain.PlError)
		if !ok || len(pe.PosChain) == 0 {
			c.Violate("load-error-without-position", fmt.Sprintf("%T %v\n%q", err, err, src), cs)
			return
		}
		if p := pe.PosChain[0]; p.Pos < at || p.Pos >= at+len(off) {
			c.Violate("load-error-points-elsewhere:"+name, fmt.Sprintf("the offender %q occupies bytes [%d,%d) of %q but the error points at %s:%d:%d (offset %d): %s", off, at, at+len(off), src, p.File, p.Ln, p.Col, p.Pos, pe.Err), cs)
		} else if d := drive.CheckPosition(p, "c08.p", src); d != "" {
			c.Violate("load-error-bad-position", d+"\n"+src, cs)
		}
	}
}

// decided-conditions (exhaustive, v1 and v2): the offender in code that can
// never run because a constant decides the outcome - the right operand of
// `false && ...` / `true || ...`, the body of `if false`, a loop whose
// condition is false, code after exit() - directly and below every kind of
// expression node (slice object and bounds, index, list, map, unary, paren,
// comparison, call argument). Load-time checking is about the text, not
// about what can execute.
var c08DecidedOuter = []string{"if false && E {\n}\n", "if true || E {\n}\n", "if a {\n} elif false && E {\n}\n", "if a {\n} elif true || E {\n} else {\n}\n", "for ; false && E; {\n}\n", "x = false && E\n", "x = true || E\n",
	"if false && a && E {\n}\n", "if (false && E) {\n}\n", "if !(true || E) {\n}\n", "if false {\n  x = E\n}\n", "for ; false; {\n  x = E\n}\n", "for e in [] {\n  x = E\n}\n", "if true {\n} else {\n  x = E\n}\n", "if false && (a || E) {\n}\n", "if false && a {\n} elif a {\n  if true || E {\n  }\n}\n"}
var c08DecidedInner = []string{"OFF", "s[OFF:]", "s[:OFF]", "s[::OFF]", "s[1:OFF:2]", "s[OFF]", "[OFF]", "{\"k\": OFF}", "-OFF", "(OFF)", "OFF == 1", "1 + OFF", "s[OFF:] == \"x\"", "[s[:OFF]]", "!OFF", "OFF in s", "s in [OFF]"}
var c08DecidedOff = []string{"nosuch()", "len()", "nosuch(1, x = 2)"}
var c08DecidedOffV2 = []string{"nosuch()", "f()", "f(1, 2, 3)"} // f(a, b = 0) is the declared function of the v2 table

func c08DecidedCase(i int64) (src, off string, v2 bool) {
	v2 = i%2 == 1
	i /= 2
	off = c08DecidedOff[int(i)%len(c08DecidedOff)]
	if v2 {
		off = c08DecidedOffV2[int(i)%len(c08DecidedOff)]
	}
	i /= int64(len(c08DecidedOff))
	in := c08DecidedInner[int(i)%len(c08DecidedInner)]
	out := c08DecidedOuter[int(i)/len(c08DecidedInner)]
	return "s = \"text\"\na = 1\n" + strings.Replace(out, "E", strings.Replace(in, "OFF", off, 1), 1), off, v2
}

func (k c08) decided(c *mon.Ctx, i int64) {
	src, off, v2 := c08DecidedCase(i)
	load, name := c08Loader(loadV1Err), "v1"
	if v2 {
		load, name = loadV2Err, "v2"
	}
	// the same text with a harmless operand in the offender's place must load
	if e, p := load(strings.Replace(src, off, "a", 1)); e != nil || p != nil {
		c.Count("decided_contexts_not_accepted_by_themselves", 1)
		c.Cell("decided_contexts_not_accepted", firstLineOf(fmt.Sprint(e)))
		return
	}
	err, pan := load(src)
	c.Eval(1)
	c.Nontrivial(src + name)
	cs := map[string]any{"source": src, "offender": off, "interpreter": name}
	at := strings.Index(src, off)
	switch {
	case pan != nil:
		c.Violate("check-panic", fmt.Sprintf("loading panicked: %v\n%s", pan, src), cs)
	case err == nil:
		c.Violate("offender-accepted:"+name+":decided", fmt.Sprintf("%s was accepted by the %s check pass in code a constant keeps from running\n%s", off, name, src), cs)
	default:
		pe, ok := err.(*errchain.PlError)
		if !ok || len(pe.PosChain) == 0 {
			c.Violate("load-error-without-position", fmt.Sprintf("%T %v\n%s", err, err, src), cs)
			return
		}
		if p := pe.PosChain[0]; p.Pos < at || p.Pos >= at+len(off) {
			c.Violate("load-error-points-elsewhere:"+name, fmt.Sprintf("the offender %s occupies bytes [%d,%d) but the error points at %s:%d:%d (offset %d): %s\n%s", off, at, at+len(off), p.File, p.Ln, p.Col, p.Pos, pe.Err, src), cs)
		}
	}
}
