package gen

import (
	"math/rand"

	"verif/internal/gt"
)

// ArgKind is a class of argument spellings a builtin's checker accepts.
type ArgKind uint8

const (
	AKey       ArgKind = iota // identifier | attribute expression | string literal | `_`
	AKeyNoLit                 // identifier | attribute expression
	AStr                      // string literal
	ABool                     // bool literal
	AExpr                     // arbitrary expression
	AStrOrKey                 // string literal | identifier | attribute expression
	APattern                  // string literal holding a valid grok pattern
	ACastType                 // "bool" | "int" | "float" | "str" | "string"
	APrecision                // "s" | "ms"
	ATimeFmt                  // a layout name of the datetime table (or junk)
	AZone                     // a time-zone spelling
	AXPath                    // an XPath expression (string literal)
	ARegexp                   // a regular expression (string literal)
	AScript                   // string literal naming a sibling script
)

// Shape is one argument list a builtin accepts. Variadic: the last kind may
// repeat 0..3 times.
type Shape struct {
	Name     string
	Args     []ArgKind
	Variadic bool
	// Fixed optionally pins a choice argument (used by tables that want one
	// entry per choice).
	Fixed string
}

// Shapes lists, per shipped builtin, the argument shapes its checker accepts
// (derived from the *Checking functions).
var Shapes = []Shape{
	{Name: "add_key", Args: []ArgKind{AKey}, Variadic: false},
	{Name: "add_key", Args: []ArgKind{AKey, AExpr}, Variadic: false},
	{Name: "get_key", Args: []ArgKind{AKey}, Variadic: false},
	{Name: "set_tag", Args: []ArgKind{AKey}, Variadic: false},
	{Name: "set_tag", Args: []ArgKind{AKey, AStrOrKey}, Variadic: false},
	{Name: "drop_key", Args: []ArgKind{AKey}, Variadic: false},
	{Name: "rename", Args: []ArgKind{AKey, AKeyNoLit}, Variadic: false},
	{Name: "cast", Args: []ArgKind{AKey, ACastType}, Variadic: false},
	{Name: "set_measurement", Args: []ArgKind{AKey}, Variadic: false},
	{Name: "set_measurement", Args: []ArgKind{AKey, ABool}, Variadic: false},
	{Name: "len", Args: []ArgKind{AExpr}, Variadic: false},
	{Name: "load_json", Args: []ArgKind{AExpr}, Variadic: false},
	{Name: "strfmt", Args: []ArgKind{AKey, AStr, AExpr}, Variadic: true},
	{Name: "printf", Args: []ArgKind{AKey, AExpr}, Variadic: true},
	{Name: "trim", Args: []ArgKind{AKey}, Variadic: false},
	{Name: "trim", Args: []ArgKind{AKey, AStr}, Variadic: false},
	{Name: "uppercase", Args: []ArgKind{AKey}, Variadic: false},
	{Name: "replace", Args: []ArgKind{AKey, ARegexp, AStr}, Variadic: false},
	{Name: "url_decode", Args: []ArgKind{AKey}, Variadic: false},
	{Name: "exit", Args: nil, Variadic: false},
	{Name: "grok", Args: []ArgKind{AKey, APattern}, Variadic: false},
	{Name: "grok", Args: []ArgKind{AKey, APattern, ABool}, Variadic: false},
	{Name: "add_pattern", Args: []ArgKind{AStr, APattern}, Variadic: false},
	{Name: "xml", Args: []ArgKind{AKey, AXPath, AKey}, Variadic: false},
	{Name: "datetime", Args: []ArgKind{AKey, APrecision, ATimeFmt}, Variadic: false},
	{Name: "default_time", Args: []ArgKind{AKey}, Variadic: false},
	{Name: "default_time", Args: []ArgKind{AKey, AZone}, Variadic: false},
	{Name: "sql_cover", Args: []ArgKind{AKey}, Variadic: false},
}

var (
	KeyPool     = []string{"f1", "f2", "t1", "message", "_", "v", "w", "nosuch", "n1"}
	FmtPool     = []string{"%v", "%d-%s", "%s", "%5.2f|%t", "%", "%!", "plain", "%v %v %v", "%q", "%x", "%[2]d", "%*d", ""}
	PatternPool = []string{"%{WORD:w1}", "%{INT:n1:int} %{WORD:w1}", "%{NUMBER:x:float}", "%{WORD:b1:bool}", "%{GREEDYDATA:rest}", "%{IP:ip} %{NOTSPACE:u}",
		"(?P<raw>\\d+)", "%{WORD:w1:str} %{INT:n1}", "plain", "%{DATA:d}x", ""}
	CastPool   = []string{"bool", "int", "float", "str", "string"}
	TimeFmts   = []string{"RFC3339", "ANSIC", "RFC822", "Kitchen", "StampNano", "nosuch", ""}
	Zones      = []string{"", "+8", "-3:30", "Asia/Tokyo", "UTC", "CST", "+99", "Mars/Olympus", "+0", "Asia/Shanghai"}
	XPaths     = []string{"/a/b", "//b/text()", "/a/@id", "//nosuch", "/a/b[2]", "///", "count(//b)", ""}
	Regexps    = []string{"a", "[0-9]+", "(\\w+)@(\\w+)", "^\\s+|\\s+$", "(", "[", "a*?", "é", ""}
	ReplPool   = []string{"", "X", "$1", "${2}-$1", "$$", "\\1"}
	CutsetPool = []string{"", " ", "ab", "\t\n ", "é"}
)

// BuiltinArgs draws the arguments for one shape; expr supplies arbitrary
// expressions; scripts the names use() may target.
type BuiltinArgs struct {
	R    *rand.Rand
	Expr func() *gt.T
	Keys []string
	Attr bool // allow attribute expressions as keys
}

func (b *BuiltinArgs) pick(l []string) string { return l[b.R.Intn(len(l))] }

func (b *BuiltinArgs) key(lit bool) *gt.T {
	k := b.pick(b.Keys)
	switch b.R.Intn(6) {
	case 0:
		if lit {
			return gt.Str(k)
		}
	case 1:
		if b.Attr {
			return gt.Attr(gt.Ident(k), gt.Ident(b.pick([]string{"x", "y"})))
		}
	}
	return gt.Ident(k)
}

// Arg draws one argument of the given kind.
func (b *BuiltinArgs) Arg(k ArgKind) *gt.T {
	switch k {
	case AKey:
		return b.key(true)
	case AKeyNoLit:
		return b.key(false)
	case AStr:
		return gt.Str(b.pick(append(append([]string{}, FmtPool...), CutsetPool...)))
	case ABool:
		return gt.Bool(b.R.Intn(2) == 0)
	case AExpr:
		return b.Expr()
	case AStrOrKey:
		if b.R.Intn(2) == 0 {
			return gt.Str(b.pick([]string{"tv", "", "héllo"}))
		}
		return b.key(false)
	case APattern:
		return gt.Str(b.pick(PatternPool))
	case ACastType:
		return gt.Str(b.pick(CastPool))
	case APrecision:
		return gt.Str(b.pick([]string{"s", "ms", "us", ""}))
	case ATimeFmt:
		return gt.Str(b.pick(TimeFmts))
	case AZone:
		return gt.Str(b.pick(Zones))
	case AXPath:
		return gt.Str(b.pick(XPaths))
	case ARegexp:
		return gt.Str(b.pick(Regexps))
	case AScript:
		return gt.Str("lib.p")
	}
	return b.Expr()
}

// Call builds a call of the given shape.
func (b *BuiltinArgs) Call(s Shape) *gt.T {
	var args []*gt.T
	for i, k := range s.Args {
		if s.Variadic && i == len(s.Args)-1 {
			for n := b.R.Intn(4); n > 0; n-- {
				args = append(args, b.Arg(k))
			}
			continue
		}
		args = append(args, b.Arg(k))
	}
	if s.Name == "strfmt" && len(args) >= 2 {
		args[1] = gt.Str(b.pick(FmtPool))
	}
	if s.Name == "replace" && len(args) == 3 {
		args[2] = gt.Str(b.pick(ReplPool))
	}
	if s.Name == "trim" && len(args) == 2 {
		args[1] = gt.Str(b.pick(CutsetPool))
	}
	return gt.Call(s.Name, args...)
}
