package gen

import (
	"math"
	"math/rand"

	"verif/internal/gt"
)

// Ty is the generator's static guess of an expression's type.
type Ty uint8

const (
	TyAny Ty = iota
	TyNil
	TyBool
	TyInt
	TyFloat
	TyStr
	TyList
	TyMap
)

// Prog generates semantically meaningful programs: mostly well-typed (so
// that they run for a while), terminating by construction, with probes after
// every statement. The reference interpreter decides what they must do.
type Prog struct {
	R  *rand.Rand
	V2 bool // only read names that are certainly defined; allow multi-assignment

	Names     []string // variable pool (few names, so shadowing is common)
	PointKeys []string // v1: keys of the input point that may be read as names

	IllTyped   int  // 1-in-N chance that an operand ignores the wanted type (0 = never)
	Unbound    int  // v1: 1-in-N chance that an operand is an unbound name (point key or nil)
	Containers bool // lists, maps, index paths, slices, aliasing
	Probes     bool // p(...) after every statement
	AddKey     bool // add_key(o1|o2, expr) / add_key(var) snapshots into the point
	Multi      bool // v2: multi() calls in multi-assignments
	// ReadUndefined: v2: 1-in-N probes also read a name that is NOT in scope
	// (the run must end in an error there; a stale value is the bug)
	ReadUndefined int
	Boom          bool // boom() may appear as a statement
	ExitCalls     bool // exit() may appear as a statement
	UseTargets    []string
	MaxDepth      int
	MaxStmts      int

	scopes    []map[string]Ty
	protected map[string]bool
	loopDepth int
	stmts     int
	tID       int
}

func NewProg(r *rand.Rand) *Prog {
	return &Prog{R: r, Names: []string{"a", "b", "c", "d", "s", "l", "m"}, IllTyped: 12, Unbound: 14, Containers: true, Probes: true,
		MaxDepth: 3, MaxStmts: 25, protected: map[string]bool{}}
}

func (g *Prog) push() { g.scopes = append(g.scopes, map[string]Ty{}) }
func (g *Prog) pop()  { g.scopes = g.scopes[:len(g.scopes)-1] }

func (g *Prog) lookup(n string) (Ty, bool) {
	for i := len(g.scopes) - 1; i >= 0; i-- {
		if t, ok := g.scopes[i][n]; ok {
			return t, true
		}
	}
	return TyAny, false
}

// define mirrors the language's assignment rule on the generator's scopes.
func (g *Prog) define(n string, t Ty) {
	for i := len(g.scopes) - 1; i >= 0; i-- {
		if _, ok := g.scopes[i][n]; ok {
			g.scopes[i][n] = t
			return
		}
	}
	g.scopes[len(g.scopes)-1][n] = t
}

func (g *Prog) defined() []string {
	seen := map[string]bool{}
	var out []string
	for _, n := range g.Names {
		if _, ok := g.lookup(n); ok && !seen[n] {
			seen[n] = true
			out = append(out, n)
		}
	}
	for _, n := range []string{"i", "j", "k", "e", "ch"} {
		if _, ok := g.lookup(n); ok && !seen[n] {
			seen[n] = true
			out = append(out, n)
		}
	}
	return out
}

func (g *Prog) varsOf(t Ty) []string {
	var out []string
	for _, n := range g.defined() {
		if vt, _ := g.lookup(n); vt == t || t == TyAny {
			out = append(out, n)
		}
	}
	return out
}

func (g *Prog) pick(l []string) string { return l[g.R.Intn(len(l))] }

var progStrs = []string{"", "a", "ab", "héllo", "x y", "0", "abc", "\xffz", "世"}

func (g *Prog) intLit() *gt.T {
	switch g.R.Intn(10) {
	case 0:
		return gt.Int(0)
	case 1:
		return gt.Int(-1)
	case 2:
		return gt.Int(math.MaxInt64)
	case 3:
		return gt.Int(-math.MaxInt64)
	case 4:
		return gt.Int(int64(1)<<53 + 1)
	default:
		return gt.Int(int64(g.R.Intn(9)))
	}
}

func (g *Prog) floatLit() *gt.T {
	switch g.R.Intn(6) {
	case 0:
		return gt.Float(0)
	case 1:
		return gt.Float(-1.5)
	case 2:
		return gt.Float(1e300)
	default:
		return gt.Float(float64(g.R.Intn(40)) / 4)
	}
}

// T wraps e as t(id, e) with a fresh id so that evaluation order and count
// become observable.
func (g *Prog) T(e *gt.T) *gt.T {
	g.tID++
	return gt.Call("t", gt.Int(int64(g.tID)), e)
}

// Expr generates an expression whose value is probably of type want.
func (g *Prog) Expr(want Ty, d int) *gt.T {
	r := g.R
	if g.IllTyped > 0 && r.Intn(g.IllTyped) == 0 {
		want = Ty(r.Intn(8))
	}
	if want == TyAny {
		want = Ty(1 + r.Intn(7))
		if !g.Containers && (want == TyList || want == TyMap) {
			want = TyInt
		}
	}
	// a variable of the wanted type
	if vs := g.varsOf(want); len(vs) > 0 && r.Intn(3) == 0 {
		return gt.Ident(g.pick(vs))
	}
	if !g.V2 && g.Unbound > 0 && r.Intn(g.Unbound) == 0 {
		// v1: an unbound name reads the point key or nil
		if len(g.PointKeys) > 0 && r.Intn(2) == 0 {
			return gt.Ident(g.pick(g.PointKeys))
		}
		return gt.Ident(g.pick(g.Names))
	}
	leaf := d <= 0
	switch want {
	case TyNil:
		return gt.Nil()
	case TyBool:
		if leaf || r.Intn(4) == 0 {
			return gt.Bool(r.Intn(2) == 0)
		}
		switch r.Intn(6) {
		case 0:
			return gt.Bin(g.pick([]string{"<", "<=", ">", ">="}), g.Expr(g.num(), d-1), g.Expr(g.num(), d-1))
		case 1:
			t := Ty(1 + r.Intn(7))
			return gt.Bin(g.pick([]string{"==", "!="}), g.Expr(t, d-1), g.Expr(t, d-1))
		case 2:
			return gt.Bin(g.pick([]string{"&&", "||"}), g.Expr(TyBool, d-1), g.Expr(TyBool, d-1))
		case 3:
			return gt.Unary("!", g.Expr(TyAny, d-1))
		case 4:
			if g.Containers {
				return gt.Bin("in", g.Expr(TyAny, d-1), g.Expr(TyList, d-1))
			}
			return gt.Bin("in", g.Expr(TyStr, d-1), g.Expr(TyStr, d-1))
		default:
			return gt.Bin("==", g.Expr(TyAny, d-1), g.Expr(TyAny, d-1))
		}
	case TyInt:
		if leaf || r.Intn(3) == 0 {
			return g.intLit()
		}
		switch r.Intn(6) {
		case 0:
			return gt.Unary("-", g.nonLit(TyInt, d-1))
		case 1:
			return gt.Call("len", g.Expr(g.pickTy(TyStr, TyList, TyMap), d-1))
		case 2:
			return gt.Bin(g.pick([]string{"/", "%"}), g.Expr(TyInt, d-1), g.divisor(d-1))
		default:
			return gt.Bin(g.pick([]string{"+", "-", "*"}), g.Expr(TyInt, d-1), g.Expr(TyInt, d-1))
		}
	case TyFloat:
		if leaf || r.Intn(3) == 0 {
			return g.floatLit()
		}
		a, b := g.Expr(TyFloat, d-1), g.Expr(g.num(), d-1)
		if r.Intn(2) == 0 {
			a, b = b, a
		}
		op := g.pick([]string{"+", "-", "*", "/"})
		if op == "/" && isZeroLit(b) {
			b = gt.Float(2.5)
		}
		return gt.Bin(op, a, b)
	case TyStr:
		if leaf || r.Intn(3) == 0 {
			return gt.Str(g.pick(progStrs))
		}
		if g.Containers && r.Intn(3) == 0 {
			return g.sliceOf(TyStr, d-1)
		}
		return gt.Bin("+", g.Expr(TyStr, d-1), g.Expr(TyStr, d-1))
	case TyList:
		if !g.Containers {
			return g.intLit()
		}
		if !leaf && r.Intn(4) == 0 {
			return g.sliceOf(TyList, d-1)
		}
		n := r.Intn(4)
		if r.Intn(5) == 0 {
			// an all-literal nested list (a candidate for constant folding)
			return gt.List(gt.List(gt.Int(int64(r.Intn(3))), gt.Int(0)), gt.List(gt.Str("n"), gt.Int(1)))
		}
		e := make([]*gt.T, n)
		for i := range e {
			e[i] = g.Expr(TyAny, d-1)
		}
		return gt.List(e...)
	case TyMap:
		if !g.Containers {
			return g.intLit()
		}
		n := r.Intn(3)
		var kv []*gt.T
		used := map[string]bool{}
		for i := 0; i < n; i++ {
			k := g.pick([]string{"k", "q", "x", ""})
			if used[k] {
				continue
			}
			used[k] = true
			kv = append(kv, gt.Str(k), g.Expr(TyAny, d-1))
		}
		return gt.Map(kv...)
	}
	return g.intLit()
}

func (g *Prog) num() Ty { return g.pickTy(TyInt, TyInt, TyFloat, TyBool) }

func (g *Prog) pickTy(ts ...Ty) Ty { return ts[g.R.Intn(len(ts))] }

// nonLit avoids a bare numeric literal (a sign in front of one is folded by
// the parser, which would change the tree).
func (g *Prog) nonLit(t Ty, d int) *gt.T {
	for n := 0; n < 8; n++ {
		e := g.Expr(t, d)
		if e.K != gt.KInt && e.K != gt.KFloat {
			return e
		}
	}
	return gt.Paren(g.Expr(t, d))
}

func (g *Prog) divisor(d int) *gt.T {
	if g.R.Intn(5) != 0 {
		return gt.Int(int64(1 + g.R.Intn(5)))
	}
	e := g.Expr(TyInt, d)
	if isZeroLit(e) {
		// a literal zero divisor is a load-time error; keep run-time zero
		// divisors reachable through variables only
		return gt.Int(int64(1 + g.R.Intn(5)))
	}
	return e
}

func (g *Prog) bound(d int) *gt.T {
	r := g.R
	switch r.Intn(8) {
	case 0:
		return gt.Int(int64(r.Intn(3)))
	case 1:
		return gt.Int(-int64(1 + r.Intn(3)))
	case 2:
		return gt.Int(int64(r.Intn(12)) - 6)
	case 3:
		if vs := g.varsOf(TyInt); len(vs) > 0 {
			return gt.Ident(g.pick(vs))
		}
	}
	return gt.Int(int64(r.Intn(6)) - 2)
}

func (g *Prog) sliceOf(t Ty, d int) *gt.T {
	var obj *gt.T
	if vs := g.varsOf(t); len(vs) > 0 && g.R.Intn(2) == 0 {
		obj = gt.Ident(g.pick(vs))
	} else if t == TyStr {
		obj = gt.Str(g.pick(progStrs))
	} else {
		obj = g.Expr(TyList, 0)
	}
	if !SliceObjOK(obj) {
		if t == TyStr {
			obj = gt.Str(g.pick(progStrs))
		} else {
			obj = gt.List(gt.Int(1), gt.Int(2), gt.Int(3))
		}
	}
	form := SliceForms[g.R.Intn(len(SliceForms))]
	step := g.bound(d)
	if isZeroLit(step) {
		step = gt.Int(2)
	}
	return SliceForm(obj, form, g.bound(d), g.bound(d), step)
}

func (g *Prog) newStmt() bool {
	g.stmts++
	return g.stmts <= g.MaxStmts
}

func (g *Prog) probe() *gt.T {
	var args []*gt.T
	if g.V2 {
		for _, n := range g.defined() {
			args = append(args, gt.Ident(n))
		}
		if g.ReadUndefined > 0 && g.R.Intn(g.ReadUndefined) == 0 {
			for _, n := range append(append([]string{}, g.Names...), "i", "j", "k", "e", "ch") {
				if _, ok := g.lookup(n); !ok {
					args = append(args, gt.Ident(n))
					break
				}
			}
		}
	} else {
		for _, n := range g.Names {
			args = append(args, gt.Ident(n))
		}
		for _, n := range []string{"i", "j", "k", "e", "ch"} {
			if _, ok := g.lookup(n); ok {
				args = append(args, gt.Ident(n))
			}
		}
		if g.AddKey {
			args = append(args, gt.Ident("o1"), gt.Ident("o2"))
		}
	}
	return gt.Call("p", args...)
}

func (g *Prog) assignable() string {
	for n := 0; n < 20; n++ {
		name := g.pick(g.Names)
		if !g.protected[name] {
			return name
		}
	}
	return g.Names[0]
}

// simple returns one simple (non-compound) statement.
func (g *Prog) simple(d int) *gt.T {
	r := g.R
	switch r.Intn(10) {
	case 0, 1, 2, 3:
		name := g.assignable()
		t := Ty(1 + r.Intn(7))
		if !g.Containers && (t == TyList || t == TyMap) {
			t = TyInt
		}
		e := g.Expr(t, d)
		g.define(name, t)
		return gt.Assign("=", gt.Ident(name), e)
	case 4, 5:
		if !g.V2 && len(g.PointKeys) > 0 && r.Intn(5) == 0 {
			// compound assignment on a name that (probably) exists only as a
			// point key: it must create a local variable
			name := g.pick(g.PointKeys)
			if !g.protected[name] {
				op := g.pick([]string{"+=", "-=", "*="})
				rhs := g.Expr(g.pickTy(TyInt, TyStr, TyFloat), d-1)
				return gt.Assign(op, gt.Ident(name), rhs)
			}
		}
		// compound assignment on a defined numeric or string variable
		for _, t := range []Ty{TyInt, TyFloat, TyStr} {
			vs := g.varsOf(t)
			var ok []string
			for _, v := range vs {
				if !g.protected[v] {
					ok = append(ok, v)
				}
			}
			if len(ok) > 0 && r.Intn(2) == 0 {
				name := g.pick(ok)
				op := g.pick([]string{"+=", "-=", "*="})
				if t == TyStr {
					op = "+="
				}
				rhs := g.Expr(t, d-1)
				if r.Intn(6) == 0 {
					op = g.pick([]string{"/=", "%="})
					rhs = g.divisor(d - 1)
				}
				return gt.Assign(op, gt.Ident(name), rhs)
			}
		}
		fallthrough
	case 6:
		if g.Containers {
			if s := g.containerStmt(d); s != nil {
				return s
			}
		}
		fallthrough
	case 7:
		if g.V2 && g.Multi && r.Intn(3) == 0 {
			// multi-value calls spread over several targets, alone and mixed
			// with further right-hand expressions
			names := []string{}
			for _, n := range g.Names {
				if !g.protected[n] {
					names = append(names, n)
				}
			}
			if len(names) >= 4 {
				r.Shuffle(len(names), func(i, j int) { names[i], names[j] = names[j], names[i] })
				var lhs, rhs []*gt.T
				switch r.Intn(5) {
				case 0:
					lhs, rhs = idents(names[:2]), []*gt.T{gt.Call("multi")}
				case 1:
					lhs, rhs = idents(names[:3]), []*gt.T{gt.Call("multi"), g.Expr(TyInt, d-1)}
				case 2:
					lhs, rhs = idents(names[:3]), []*gt.T{g.Expr(TyStr, d-1), gt.Call("multi")}
				case 3:
					lhs, rhs = idents(names[:4]), []*gt.T{gt.Call("multi"), gt.Call("multi")}
				default:
					lhs, rhs = idents(names[:4]), []*gt.T{gt.Call("multi"), g.Expr(TyInt, d-1), g.T(g.Expr(TyStr, 0))}
				}
				for _, l := range lhs {
					g.define(l.S, TyAny)
				}
				return gt.MultiAssign(lhs, rhs)
			}
		}
		if g.V2 && r.Intn(2) == 0 {
			// multi-assignment / swap
			a, b := g.assignable(), g.assignable()
			if a != b {
				ea, eb := g.Expr(TyInt, d-1), g.Expr(TyStr, d-1)
				if da := g.defined(); len(da) >= 2 && r.Intn(2) == 0 {
					ea, eb = gt.Ident(b), gt.Ident(a)
					if _, ok := g.lookup(a); !ok {
						ea, eb = g.Expr(TyInt, d-1), g.Expr(TyStr, d-1)
					} else if _, ok := g.lookup(b); !ok {
						ea, eb = g.Expr(TyInt, d-1), g.Expr(TyStr, d-1)
					}
				}
				g.define(a, TyAny)
				g.define(b, TyAny)
				return gt.MultiAssign([]*gt.T{gt.Ident(a), gt.Ident(b)}, []*gt.T{ea, eb})
			}
		}
		return g.Expr(TyAny, d)
	case 8:
		if g.AddKey && r.Intn(2) == 0 {
			if ds := g.defined(); len(ds) > 0 && r.Intn(3) == 0 {
				return gt.Call("add_key", gt.Ident(g.pick(ds)))
			}
			return gt.Call("add_key", gt.Ident(g.pick([]string{"o1", "o2"})), g.Expr(TyAny, d))
		}
		if g.Boom && r.Intn(6) == 0 {
			return gt.Call("boom")
		}
		if g.ExitCalls && r.Intn(6) == 0 {
			return ExitStmt(r)
		}
		if len(g.UseTargets) > 0 && r.Intn(2) == 0 {
			return gt.Call("use", gt.Str(g.pick(g.UseTargets)))
		}
		return g.Expr(TyAny, d)
	default:
		name := g.assignable()
		e := g.Expr(TyInt, d)
		g.define(name, TyInt)
		return gt.Assign("=", gt.Ident(name), e)
	}
}

func (g *Prog) containerStmt(d int) *gt.T {
	r := g.R
	lists, maps := g.varsOf(TyList), g.varsOf(TyMap)
	switch r.Intn(7) {
	case 5, 6:
		// a slice of a list must be a new list: keep both alive
		if len(lists) > 0 {
			src := g.pick(lists)
			dst := g.assignable()
			if dst != src {
				form := SliceForms[r.Intn(len(SliceForms))]
				step := g.bound(d)
				if isZeroLit(step) || r.Intn(2) == 0 {
					step = gt.Int(1)
				}
				g.define(dst, TyList)
				return gt.Assign("=", gt.Ident(dst), SliceForm(gt.Ident(src), form, gt.Int(int64(r.Intn(2))), g.bound(d), step))
			}
		}
	case 0:
		// alias
		if vs := append(append([]string{}, lists...), maps...); len(vs) > 0 {
			src := g.pick(vs)
			t, _ := g.lookup(src)
			dst := g.assignable()
			if dst != src {
				g.define(dst, t)
				return gt.Assign("=", gt.Ident(dst), gt.Ident(src))
			}
		}
	case 1:
		if len(lists) > 0 {
			if r.Intn(3) == 0 {
				// depth-2 write (an error when the element is not a container)
				return gt.Assign(g.pick([]string{"=", "=", "+="}), gt.Index(g.pick(lists), gt.Int(int64(r.Intn(2))), gt.Int(int64(r.Intn(2)))), g.Expr(TyInt, 0))
			}
			return gt.Assign("=", gt.Index(g.pick(lists), g.bound(d)), g.Expr(TyAny, d-1))
		}
	case 2:
		if len(maps) > 0 {
			return gt.Assign("=", gt.Index(g.pick(maps), gt.Str(g.pick([]string{"k", "q", "n"}))), g.Expr(TyAny, d-1))
		}
	case 3:
		// read through a path into a variable
		if vs := append(append([]string{}, lists...), maps...); len(vs) > 0 {
			src := g.pick(vs)
			var ix *gt.T
			if t, _ := g.lookup(src); t == TyList {
				ix = g.bound(d)
			} else {
				ix = gt.Str(g.pick([]string{"k", "q", "n"}))
			}
			dst := g.assignable()
			if dst != src {
				g.define(dst, TyAny)
				return gt.Assign("=", gt.Ident(dst), gt.Index(src, ix))
			}
		}
	case 4:
		if len(lists) > 0 {
			return gt.Assign(g.pick([]string{"+=", "-=", "*="}), gt.Index(g.pick(lists), g.bound(d)), g.Expr(TyInt, d-1))
		}
	}
	return nil
}

var counters = []string{"i", "j", "k"}

// ExitStmt is a statement that calls exit() in one of its spellings: as a
// call statement, as the source of an assignment, parenthesised, or inside a
// list literal. After any of them no later statement of the script runs.
func ExitStmt(r *rand.Rand) *gt.T {
	switch r.Intn(6) {
	case 0:
		return gt.Assign("=", gt.Ident("zx"), gt.Call("exit"))
	case 1:
		return gt.Paren(gt.Call("exit"))
	case 2:
		return gt.List(gt.Call("exit"))
	}
	return gt.Call("exit")
}

// Block generates n statements (with probes) in a fresh scope.
func (g *Prog) Block(n, d int) []*gt.T {
	g.push()
	defer g.pop()
	return g.stmtsIn(n, d)
}

func (g *Prog) stmtsIn(n, d int) []*gt.T {
	var out []*gt.T
	for i := 0; i < n && g.newStmt(); i++ {
		out = append(out, g.Stmt(d)...)
	}
	return out
}

// Stmt returns one statement followed by its probe (and, for loops with an
// omitted init clause, preceded by the initialisation).
func (g *Prog) Stmt(d int) []*gt.T {
	r := g.R
	var out []*gt.T
	k := r.Intn(10)
	if d <= 0 && k >= 6 {
		k = 0
	}
	switch {
	case k < 6:
		if g.loopDepth > 0 && r.Intn(7) == 0 {
			// break / continue, guarded so that the loop body is not dead code
			bc := gt.Break()
			if r.Intn(2) == 0 {
				bc = gt.Continue()
			}
			if r.Intn(3) == 0 {
				return []*gt.T{bc}
			}
			return []*gt.T{gt.If(g.Expr(TyBool, 1), bc)}
		}
		out = append(out, g.simple(2))
	case k == 6 || k == 7:
		g.push() // scope of the if statement itself (conditions)
		// one block in six is empty: `if c {}` still ends the chain when c holds
		bl := func() int {
			if r.Intn(6) == 0 {
				return 0
			}
			return 1 + r.Intn(2)
		}
		t := gt.If(g.cond(), g.Block(bl(), d-1)...)
		for n := r.Intn(3); n > 0; n-- {
			t.Elif(g.cond(), g.Block(bl(), d-1)...)
		}
		if r.Intn(2) == 0 {
			t.ElseDo(g.Block(bl(), d-1)...)
		}
		g.pop()
		out = append(out, t)
	case k == 8:
		out = append(out, g.forLoop(d)...)
	default:
		out = append(out, g.forIn(d))
	}
	if g.Probes {
		out = append(out, g.probe())
	}
	return out
}

// cond draws a condition from every truthiness class.
func (g *Prog) cond() *gt.T {
	r := g.R
	switch r.Intn(12) {
	case 0:
		return gt.Int(0)
	case 1:
		return gt.Float(0)
	case 2:
		return gt.Str("")
	case 3:
		return gt.Nil()
	case 4:
		return gt.List()
	case 5:
		return gt.Map()
	case 6:
		return g.Expr(TyAny, 1)
	case 7:
		if ds := g.defined(); len(ds) > 0 {
			return gt.Ident(g.pick(ds))
		}
	}
	return g.Expr(TyBool, 2)
}

func (g *Prog) forLoop(d int) []*gt.T {
	r := g.R
	if g.loopDepth >= len(counters) {
		return []*gt.T{g.simple(1)}
	}
	ctr := counters[g.loopDepth]
	n := int64(r.Intn(4))
	shape := r.Intn(8)
	var pre []*gt.T
	init := gt.Assign("=", gt.Ident(ctr), gt.Int(0))
	cond := gt.Bin("<", gt.Ident(ctr), gt.Int(n))
	loop := gt.Assign("=", gt.Ident(ctr), gt.Bin("+", gt.Ident(ctr), gt.Int(1)))
	if r.Intn(3) == 0 {
		loop = gt.Assign("+=", gt.Ident(ctr), gt.Int(1))
	}
	g.push() // the for statement's own scope (holds the init variable)
	var initC, condC, loopC *gt.T
	if shape&1 != 0 {
		initC = init
		g.define(ctr, TyInt)
	} else {
		// the counter lives in the enclosing scope
		g.pop()
		g.define(ctr, TyInt)
		pre = append(pre, init)
		g.push()
	}
	if shape&2 != 0 {
		condC = cond
	}
	if shape&4 != 0 {
		loopC = loop
	}
	if loopC != nil && r.Intn(5) == 0 {
		// the loop clause is a call with an effect (a probe); the counter is
		// advanced at the top of the body instead
		loopC = gt.Call("p", gt.Str("loop-clause"), gt.Ident(ctr))
		if g.AddKey && r.Intn(2) == 0 {
			loopC = gt.Call("add_key", gt.Ident("o2"), gt.Ident(ctr))
		}
	}
	wasProtected := g.protected[ctr]
	g.protected[ctr] = true
	g.loopDepth++
	g.push()
	var body []*gt.T
	if loopC == nil || loopC.K == gt.KCall {
		body = append(body, gt.Clone(loop))
	}
	if condC == nil {
		lim := n
		if loopC == nil || loopC.K == gt.KCall {
			lim = n + 1
		}
		body = append(body, gt.If(gt.Bin(">=", gt.Ident(ctr), gt.Int(lim)), gt.Break()))
	}
	body = append(body, g.stmtsIn(1+r.Intn(3), d-1)...)
	g.pop()
	g.loopDepth--
	g.protected[ctr] = wasProtected
	g.pop()
	return append(pre, gt.For(initC, condC, loopC, body...))
}

func (g *Prog) forIn(d int) *gt.T {
	r := g.R
	var it *gt.T
	v := g.pick([]string{"e", "ch", "e"})
	vt := TyAny
	switch r.Intn(16) % 6 {
	case 0:
		it = gt.Str(g.pick(progStrs))
		vt = TyStr
	case 1:
		if vs := g.varsOf(TyStr); len(vs) > 0 {
			it = gt.Ident(g.pick(vs))
			vt = TyStr
			break
		}
		fallthrough
	case 2:
		if g.Containers {
			if vs := g.varsOf(TyList); len(vs) > 0 {
				it = gt.Ident(g.pick(vs))
				break
			}
		}
		fallthrough
	case 3:
		if g.Containers {
			n := r.Intn(4)
			e := make([]*gt.T, n)
			for i := range e {
				e[i] = g.Expr(g.pickTy(TyInt, TyStr, TyBool, TyFloat), 0)
			}
			it = gt.List(e...)
			break
		}
		it = gt.Str(g.pick(progStrs))
		vt = TyStr
	case 4:
		if g.Containers {
			// maps with at most one key iterate deterministically
			if r.Intn(2) == 0 {
				it = gt.Map(gt.Str(g.pick([]string{"k", "q"})), g.Expr(TyInt, 0))
			} else {
				it = gt.Map()
			}
			vt = TyStr
			break
		}
		fallthrough
	default:
		it = g.Expr(TyAny, 1) // sometimes not iterable: an error
		for it.K == gt.KBool || it.K == gt.KNil || it.K == gt.KInt || it.K == gt.KFloat {
			it = gt.Str(g.pick(progStrs)) // literal non-iterables are rejected by the parser
			vt = TyStr
		}
	}
	g.push() // the statement's scope
	g.push() // per-iteration scope: the loop variable follows assignment rules
	if _, ok := g.lookup(v); !ok {
		g.define(v, vt)
	}
	wasProtected := g.protected[v]
	g.protected[v] = true
	g.loopDepth++
	body := g.stmtsIn(r.Intn(4), d-1)
	g.loopDepth--
	g.protected[v] = wasProtected
	g.pop()
	g.pop()
	return gt.ForIn(v, it, body...)
}

// Program generates a whole script.
func (g *Prog) Program() []*gt.T {
	g.scopes = nil
	g.push()
	if g.V2 {
		g.push()
	}
	g.stmts = 0
	n := 3 + g.R.Intn(6)
	return g.stmtsIn(n, g.MaxDepth)
}

// SliceObjOK reports whether the grammar admits e as the object of a slice
// expression (identifier, basic literal, list literal, slice, call).
func SliceObjOK(e *gt.T) bool {
	switch e.K {
	case gt.KIdent, gt.KStr, gt.KBool, gt.KNil, gt.KList, gt.KSlice, gt.KCall:
		return true
	case gt.KInt, gt.KFloat:
		return gt.Prec(e) >= 8
	}
	return false
}

func idents(names []string) []*gt.T {
	out := make([]*gt.T, len(names))
	for i, n := range names {
		out[i] = gt.Ident(n)
	}
	return out
}
