package main

import (
	"fmt"
	"math"
	"strings"
	"time"
	"unicode/utf8"

	"verif/internal/drive"
	"verif/internal/gen"
	"verif/internal/gt"
	"verif/internal/mon"
	"verif/internal/ref"
)

// C11: field-manipulating builtins have exactly their documented effect.

type c11 struct{}

func init() {
	register(c11{})
	mon.Assumptions["C11"] = []string{
		"per-builtin models in internal/ref/builtins_c11.go, written from funcs/md/fn.md and the property: subject = variable of that name if one exists else the point key (`_` = message), get_key reads the point only, destination = field (or the existing tag) / measurement / stdout / return value, every other key, the measurement and the time unchanged",
		"format verbs go through the same fmt engine on both sides; regular expressions, URL decoding and JSON through the standard library",
		"conversions the documents do not fix (non-numeric strings to numbers, containers to scalars) are not compared; an undecodable URL / bad regular expression may be an error or a no-op",
	}
}

func (c11) ID() string { return "C11" }
func (c11) Rule() string {
	return "table (exhaustive): every shape of the 15 builtins x subject source {variable only, field only, tag only, variable shadowing a field, absent} x 17 subject values of every type x key spelled as identifier / string literal / `_`, on a point with bystander keys; random: the same with seeded points, arguments (formats, cutsets, regular expressions, replacement templates) and values. After the call a probe reads the key back three ways; the final point (every key with Go types, measurement, time), captured standard output, probe trace and error presence must equal the model. Non-trivial = the subject exists or the call writes. Distinct = (builtin shape, source, value type, key form) cells and distinct programs."
}

var c11Values = []struct {
	Name   string
	Lit    string
	Scalar any // value when stored in the point (nil Scalar with !Point: not storable)
	Point  bool
}{
	{"nil", "nil", nil, true},
	{"true", "true", true, true},
	{"false", "false", false, true},
	{"int7", "7", int64(7), true},
	{"int-3", "-3", int64(-3), true},
	{"int0", "0", int64(0), true},
	{"int2^53+1", "9007199254740993", int64(9007199254740993), true},
	{"float2.5", "2.5", 2.5, true},
	{"float-0.0", "0.0", 0.0, true},
	{"str-padded", `"  padded text\t"`, "  padded text\t", true},
	{"str-utf8", `"héllo wörld"`, "héllo wörld", true},
	{"str-url", `"a%20b%2Fc+d"`, "a%20b%2Fc+d", true},
	{"str-badurl", `"100%zz"`, "100%zz", true},
	{"str-json", `"{\"a\": [1, 2.5, \"x\"], \"b\": null}"`, `{"a": [1, 2.5, "x"], "b": null}`, true},
	{"str-num", `"12"`, "12", true},
	{"str-float", `"1.9"`, "1.9", true},
	{"str-bool", `"true"`, "true", true},
	{"str-empty", `""`, "", true},
	// numeric-looking strings in every spelling a conversion routine may or may not understand
	{"str-lead0", `"010"`, "010", true},
	{"str-octalish", `"0644"`, "0644", true},
	{"str-hex", `"0x1F"`, "0x1F", true},
	{"str-bin", `"0b11"`, "0b11", true},
	{"str-neg0", `"-0100"`, "-0100", true},
	{"str-exp", `"1e3"`, "1e3", true},
	{"str-plus", `"+5"`, "+5", true},
	{"str-spaced", `" 12 "`, " 12 ", true},
	{"str-underscore", `"1_000"`, "1_000", true},
	{"str-big", `"9007199254740993"`, "9007199254740993", true},
	{"str-T", `"T"`, "T", true},
	{"str-inf", `"inf"`, "inf", true},
	{"str-dotted", `"010.50"`, "010.50", true},
	{"list", `[1, "a", [2.5]]`, nil, false},
	{"map", `{"k": 1, "j": [true]}`, nil, false},
}

var c11Sources = []string{"variable", "field", "tag", "variable-over-field", "absent"}
var c11KeyForms = []string{"ident", "strlit", "underscore"}
var c11Nest = []string{"top", "if", "for", "forin-in-if", "else-of-elif"}

var c11Shapes = func() []gen.Shape {
	want := map[string]bool{"add_key": true, "get_key": true, "set_tag": true, "drop_key": true, "rename": true, "cast": true, "set_measurement": true,
		"len": true, "load_json": true, "strfmt": true, "printf": true, "trim": true, "uppercase": true, "replace": true, "url_decode": true}
	var out []gen.Shape
	for _, s := range gen.Shapes {
		if want[s.Name] && s.Name != "cast" {
			out = append(out, s)
		}
	}
	// one cast shape per target type so that the table covers all of them
	for _, ty := range gen.CastPool {
		out = append(out, gen.Shape{Name: "cast", Args: []gen.ArgKind{gen.AKey, gen.ACastType}, Variadic: false, Fixed: ty})
	}
	return out
}()

func (c11) Plan(tier string, seed int64) []mon.Workload {
	n := int64(len(c11Shapes) * len(c11Sources) * len(c11Values) * len(c11KeyForms) * len(c11Nest))
	rnd := int64(2500)
	if tier == "thorough" {
		rnd = 200000
	}
	return []mon.Workload{{Name: "table", N: n, Exhaustive: true}, {Name: "random", N: rnd}, {Name: "sequences", N: rnd / 2},
		{Name: "after-error", N: rnd / 4},
		{Name: "alias-pairs", N: int64(len(c11AliasOps) * len(c11AliasKeys) * len(c11AliasKeys) * 3), Exhaustive: true},
		{Name: "shared-parts", N: int64(len(c11SharedBuilds) * len(c11SharedUses)), Exhaustive: true},
		{Name: "string-edges", N: int64(len(c11EdgeOps) * len(c11EdgeVals) * 5), Exhaustive: true},
		{Name: "read-move-op", N: int64(len(c11RMReads) * len(c11RMMoves) * len(c11RMOps) * 3), Exhaustive: true},
		{Name: "long-subjects", N: int64(len(c11LongOps) * len(c11LongSizes) * 3), Exhaustive: true},
		{Name: "printf-across-use", N: int64(len(c11PUMains) * len(c11PUMids) * len(c11PULeaves)), Exhaustive: true}}
}

// string-edges (exhaustive): the string builtins on subjects whose ENDS are
// unusual - every Unicode white-space character, zero-width characters,
// letters with multi-byte case mappings, percent escapes of multi-byte runes -
// as a field, a tag and a variable.
var c11EdgeVals = []string{"\u00a0pad\u00a0", "\u3000x\u2003", "\u0085y\u2028", " \t mix\u00a0 ", "\u200bzero\u200b", "\u1680\u205f", "\u2029p\u202f", "\u2000\u200a q \u2001",
	"x", "", "  ", "àé ß ǆ i", "%E4%B8%96+x%20", "%zz", "a%", "\v\fz\r\n", "xxaxx", "\u00a0"}
var c11EdgeOps = []string{"trim(k)", "trim(k, \"\")", "trim(k, \" \")", "trim(k, \"x\u00a0\")", "uppercase(k)", "url_decode(k)", "replace(k, \"^\\\\s+\", \"<\")", "cast(k, \"str\")",
	"strfmt(out, \"%s|%q|%d\", k, k, len(k))", "trim(k)\ntrim(k, \"p\")\nuppercase(k)"}

// read-move-op (exhaustive): a read of the key k (every way a script can read
// a point key, or none), then the key is moved away, removed or replaced
// (rename, drop, rename another key onto it ...), then - with nothing in
// between - each builtin of the property operates on k. What the builtin
// finds is what the point holds at that moment; a key that is gone is a
// silent no-op that fabricates nothing.
var c11RMReads = []string{"", "x = k", "x = get_key(k)", "x = len(k)", "if k == 1 {\n}", "printf(\"%v\\n\", k)", "strfmt(y, \"%v\", k)", "x = [k, k]", "for e in [1, 2] {\n  x = k\n}", "x = k\nx = o", "x = o\nx = k"}
var c11RMMoves = []string{"rename(nw, k)", "drop_key(k)", "rename(nw, k)\nrename(k, o)", "rename(o, k)", "set_tag(k)", "rename(nw, k)\nrename(k, nw)", "drop_key(k)\nrename(k, o)", "k2 = 1", "rename(nw, k)\nx = nw"}
var c11RMOps = []string{"trim(k)", "uppercase(k)", "replace(k, \"a\", \"b\")", "url_decode(k)", "cast(k, \"int\")", "cast(k, \"str\")", "cast(k, \"bool\")", "cast(k, \"float\")", "add_key(k)", "set_tag(k)",
	"rename(z, k)", "drop_key(k)", "x = load_json(k)\np(x)", "set_measurement(k)", "strfmt(k, \"%v|%v\", k, 1)", "p(len(k), get_key(k), k)", "printf(\"%v\\n\", k)", "trim(k, \"a\")"}

// long-subjects (exhaustive): every builtin of the property on a subject of
// 255..65537 bytes (both sides of 2^8, 2^10, 2^12, 2^16) - padded with blanks,
// with percent escapes, upper and lower case letters and multi-byte characters
// all through - as a field, a tag and a variable.
var c11LongSizes = []int{255, 256, 257, 1023, 1024, 1025, 4095, 4096, 4097, 65535, 65536, 65537}
var c11LongOps = []string{"trim(k)", "trim(k, \" a\")", "uppercase(k)", "url_decode(k)", "replace(k, \"aB\", \"<>\")", "replace(k, \"(a)(B)\", \"$2$1\")", "cast(k, \"str\")", "cast(k, \"int\")", "cast(k, \"bool\")",
	"strfmt(out, \"%s|%d\", k, len(k))", "strfmt(k, \"%v%v\", k, k)", "add_key(k2, k)", "set_tag(k)", "rename(k2, k)", "x = load_json(k)\np(x)", "set_measurement(k)", "printf(\"%s\\n\", k)", "p(len(k), get_key(k))",
	"add_key(k)\nuppercase(k)\ntrim(k)", "set_tag(k2, k)\nreplace(k2, \"é\", \"e\")"}

func c11LongSubject(i int64) c11Case {
	where := int(i % 3)
	i /= 3
	n := c11LongSizes[int(i)%len(c11LongSizes)]
	op := c11LongOps[int(i)/len(c11LongSizes)]
	val := "  " + strings.Repeat("aB%41+cé ", n/10+1)
	for len(val) > n-2 || !utf8.ValidString(val) {
		val = val[:len(val)-1]
	}
	for len(val) < n-2 {
		val += "x"
	}
	val += "  "
	pt := ref.NewPoint("meas", map[string]string{"bt": "bystander"}, map[string]any{"b1": int64(41)}, time.Unix(1700000123, 0))
	text := op + "\np(get_key(k), get_key(k2), get_key(out), len(k))\n"
	switch where {
	case 0:
		pt.Fields["k"] = val
	case 1:
		pt.Tags["k"] = val
	case 2:
		text = "k = \"" + val + "\"\n" + text
	}
	o := drive.Parse("long-subjects", text)
	if o.Err != nil {
		panic("c11: long-subjects program does not parse: " + o.Err.Error())
	}
	l, err := gt.FromStmts(o.Stmts)
	if err != nil {
		panic(err)
	}
	return c11Case{Stmts: gt.CloneStmts(l), Point: pt, Cell: "long-subjects"}
}

// printf-across-use (exhaustive): what a run has printed is on the standard
// output when the run returns - whoever printed it (the script itself, a
// script reached through use(), two levels down) and however the run ends
// (normally, by exit() in a callee, by a run-time error in a callee after it
// has printed, by an error in the caller after the callee returned).
var c11PUMains = []string{
	"printf(\"A;\")\nuse(\"mid.p\")\nprintf(\"C;\")\n",
	"use(\"mid.p\")\nprintf(\"C;\")\n",
	"printf(\"A;\")\nuse(\"mid.p\")\n",
	"printf(\"A%d;\", 1)\nuse(\"mid.p\")\nprintf(\"C;\")\nx = 1 / zero\n",
	"for i = 0; i < 2; i = i + 1 {\n  printf(\"A%d;\", i)\n  use(\"mid.p\")\n}\nprintf(\"C;\")\n",
	"if true {\n  use(\"mid.p\")\n}\nprintf(\"C;\")\n",
}
var c11PUMids = []string{"LEAF", "printf(\"M;\")\nuse(\"leaf.p\")\nprintf(\"N;\")\n", "use(\"leaf.p\")\n", "printf(\"M;\")\nuse(\"leaf.p\")\nw = [1]\ny = w[5]\n"}
var c11PULeaves = []string{
	"printf(\"B=%d;\", 5)\n",
	"printf(\"B=%d;\", 5)\nw = [1]\ny = w[5]\n",
	"w = [1]\ny = w[5]\nprintf(\"B;\")\n",
	"printf(\"B;\")\nexit()\nprintf(\"never;\")\n",
	"printf(\"B1;\")\nprintf(\"B2;\")\nx = 1 / zero\n",
	"for e in [1, 2] {\n  printf(\"b%d;\", e)\n  if e == 2 {\n    y = e[0]\n  }\n}\n",
	"add_key(k, 1)\n",
}

func c11PrintfUse(i int64) map[string]string {
	leaf := c11PULeaves[int(i)%len(c11PULeaves)]
	i /= int64(len(c11PULeaves))
	mid := c11PUMids[int(i)%len(c11PUMids)]
	main := c11PUMains[int(i)/len(c11PUMids)]
	srcs := map[string]string{"main.p": "zero = 0\n" + main}
	if mid == "LEAF" {
		srcs["mid.p"] = "zero = 0\n" + leaf
	} else {
		srcs["mid.p"] = mid
		srcs["leaf.p"] = "zero = 0\n" + leaf
	}
	return srcs
}

func c11RunPrintfUse(c *mon.Ctx, i int64) {
	srcs := c11PrintfUse(i)
	info := map[string]any{"scripts": srcs}
	prog := &ref.Program{Scripts: map[string][]*gt.T{}, Funcs: ref.Merge(ref.ProbeFuncs(), ref.FieldFuncs())}
	for name, text := range srcs {
		o := drive.Parse(name, text)
		if o.Err != nil {
			panic("c11: printf-across-use script does not parse: " + text + ": " + o.Err.Error())
		}
		l, err := gt.FromStmts(o.Stmts)
		if err != nil {
			panic(err)
		}
		prog.Scripts[name] = gt.CloneStmts(l)
	}
	mp := ref.NewPoint("m", nil, map[string]any{"message": "x"}, time.Unix(1700000000, 0))
	model := mp.Clone()
	mo := ref.Run(prog, "main.p", model, modelBudget)
	if mo.Unspecified != "" {
		c.Count("not_compared_unspecified", 1)
		c.Cell("unspecified_reasons", firstLineOf(mo.Unspecified))
		return
	}
	loaded, errs := drive.LoadV1(srcs)
	c.Eval(1)
	if len(errs) > 0 {
		c.Violate("valid-program-rejected", fmt.Sprintf("%v\n%s", errs, srcDump(srcs)), info)
		return
	}
	want := mo.Shared.Stdout.String()
	for run := 1; run <= 2; run++ {
		real := drive.PointFromModel(mp)
		var ro drive.Outcome
		stdout := drive.CaptureStdout(func() { ro = drive.RunV1(loaded["main.p"], real, &drive.RunState{Budget: 20000}) })
		c.Eval(1)
		c.Count("compared", 1)
		c.Nontrivial(fmt.Sprint("printf-use", i))
		if ro.Panic != nil {
			c.Violate("panic", fmt.Sprintf("%v\n%s", ro.Panic, srcDump(srcs)), info)
			return
		}
		if (ro.Err != nil) != (mo.Err != nil) {
			c.Violate("error-presence:printf-across-use", fmt.Sprintf("run %d: real error %s, reference error %v\n%s", run, drive.ErrString(ro.Err), mo.Err != nil, srcDump(srcs)), info)
			return
		}
		if stdout != want {
			c.Violate("stdout-differs:printf-across-use", fmt.Sprintf("run %d of the loaded set wrote %q to the standard output; the scripts printed %q before the run ended (error: %v)\n%s", run, stdout, want, mo.Err != nil, srcDump(srcs)), info)
			return
		}
		if d := comparePoint(real, model); d != "" {
			c.Violate("point-mismatch:printf-across-use", d+"\n"+srcDump(srcs), info)
			return
		}
	}
}

func c11ReadMoveOp(i int64) c11Case {
	kind := int(i % 3)
	i /= 3
	op := c11RMOps[int(i)%len(c11RMOps)]
	i /= int64(len(c11RMOps))
	mv := c11RMMoves[int(i)%len(c11RMMoves)]
	rd := c11RMReads[int(i)/len(c11RMMoves)]
	pt := ref.NewPoint("meas", map[string]string{"bt": "bystander"}, map[string]any{"b1": int64(41), "o": " other a "}, time.Unix(1700000123, 0))
	switch kind {
	case 0:
		pt.Fields["k"] = " abc a%41 "
	case 1:
		pt.Fields["k"] = int64(7)
	case 2:
		pt.Tags["k"] = "tag a "
	}
	text := rd + "\n" + mv + "\n" + op + "\np(get_key(k), get_key(nw), get_key(o), get_key(z), get_key(y), get_key(b1))\n"
	o := drive.Parse("read-move-op", text)
	if o.Err != nil {
		panic("c11: read-move-op program does not parse: " + text + ": " + o.Err.Error())
	}
	l, err := gt.FromStmts(o.Stmts)
	if err != nil {
		panic(err)
	}
	return c11Case{Stmts: gt.CloneStmts(l), Point: pt, Cell: "read-move-op"}
}

func c11EdgeCase(i int64) c11Case {
	where := int(i % 5)
	i /= 5
	val := c11EdgeVals[int(i)%len(c11EdgeVals)]
	op := c11EdgeOps[int(i)/len(c11EdgeVals)]
	text := op + "\np(get_key(k), k, get_key(out), len(k))\n"
	pt := ref.NewPoint("meas", map[string]string{"bt": "bystander"}, map[string]any{"b1": int64(41)}, time.Unix(1700000123, 0))
	switch where {
	case 0:
		pt.Fields["k"] = val
	case 1:
		pt.Tags["k"] = val
	case 2:
		if strings.ContainsAny(val, "\n\r\"\\") {
			return c11Case{Skip: true}
		}
		text = "k = \"" + val + "\"\n" + text
	case 3:
		// a variable that exists but holds no value (assigned from a call that
		// returns nothing), over a field / over nothing: not a subject
		pt.Fields["k"] = val
		text = "k = drop_key(nosuchkey)\n" + text
	case 4:
		text = "k = set_tag(other, \"" + strings.Trim(strings.Map(func(r rune) rune {
			if r == '"' || r == '\\' || r < ' ' {
				return -1
			}
			return r
		}, val), " ") + "\")\n" + text
	}
	o := drive.Parse("string-edges", text)
	if o.Err != nil {
		return c11Case{Skip: true}
	}
	l, err := gt.FromStmts(o.Stmts)
	if err != nil {
		return c11Case{Skip: true}
	}
	return c11Case{Stmts: gt.CloneStmts(l), Point: pt, Cell: "edges"}
}

// alias-pairs (exhaustive): `_` stands for `message` in every spelling of a
// key (identifier, string literal) and in both argument positions, also when
// both arguments name the same key through different spellings; message is a
// field, a tag, or absent.
// shared-parts (exhaustive): strfmt / printf format every argument they are
// given: a container whose parts are SHARED (the same list twice, a map in a
// list and in a list inside it) is not a container that contains itself.
var c11SharedBuilds = []string{"b = [1, 2]\na = [b, b]", "b = {\"k\": 1}\na = {\"p\": b, \"q\": b}", "m = [7]\na = [m, [m]]", "b = [1]\nc = [b, b]\na = [c, c, b]", "b = []\na = [b, b]",
	"b = [1, 2]\na = [[1, 2], [1, 2]]", "b = [1]\na = [b]\nb[0] = a"}
var c11SharedUses = []string{"fs = [\"<%v>\\n\", \"[%v]\\n\", \"{%v}\\n\"]\nfor f in fs {\n  printf(f, a)\n}\nfor i = 0; i < 3; i = i + 1 {\n  g = fs[i]\n  printf(g, i)\n}", "strfmt(out, \"%v\", a)", "strfmt(out, \"%v|%v\", a, b)", "printf(\"%v\\n\", a)", "strfmt(out, \"%s and %d\", a, 1)", "add_key(out, a)", "strfmt(out, \"%v %v\", b, b)"}

func c11SharedCase(i int64) c11Case {
	use := c11SharedUses[int(i)%len(c11SharedUses)]
	build := c11SharedBuilds[int(i)/len(c11SharedUses)]
	text := build + "\n" + use + "\np(get_key(out))\n"
	o := drive.Parse("shared-parts", text)
	if o.Err != nil {
		return c11Case{Skip: true}
	}
	l, err := gt.FromStmts(o.Stmts)
	if err != nil {
		return c11Case{Skip: true}
	}
	pt := ref.NewPoint("meas", nil, map[string]any{"b1": int64(41)}, time.Unix(1700000123, 0))
	return c11Case{Stmts: gt.CloneStmts(l), Point: pt, Cell: "shared"}
}

var c11AliasKeys = []string{"_", "message", "\"_\"", "\"message\"", "k"}
var c11AliasOps = []string{"rename(A, B)", "add_key(A, B)", "rename(A, B)\nrename(B, A)", "set_tag(A)\nrename(B, A)", "strfmt(A, \"%v|%v\", B, 1)", "add_key(A, 5)\ndrop_key(B)", "cast(A, \"str\")\nuppercase(B)"}

func c11AliasCase(i int64) c11Case {
	where := int(i % 3)
	i /= 3
	b := c11AliasKeys[int(i)%len(c11AliasKeys)]
	i /= int64(len(c11AliasKeys))
	a := c11AliasKeys[int(i)%len(c11AliasKeys)]
	op := c11AliasOps[int(i)/len(c11AliasKeys)]
	text := strings.ReplaceAll(strings.ReplaceAll(op, "A", a), "B", b) + "\np(get_key(_), get_key(message), get_key(k), len(_))\n"
	o := drive.Parse("alias-pairs", text)
	if o.Err != nil {
		return c11Case{Skip: true}
	}
	l, err := gt.FromStmts(o.Stmts)
	if err != nil {
		return c11Case{Skip: true}
	}
	// which argument positions take a string literal as key spelling is the
	// checkers' business (C08): combinations they reject are not cases here
	if _, lerr := drive.LoadV1One("alias-pairs", text); lerr != nil {
		return c11Case{Skip: true}
	}
	pt := ref.NewPoint("meas", map[string]string{"bt": "bystander"}, map[string]any{"k": "kay", "b1": int64(41)}, time.Unix(1700000123, 0))
	switch where {
	case 0:
		pt.Fields["message"] = "the message"
	case 1:
		pt.Tags["message"] = "tagged message"
	}
	return c11Case{Stmts: gt.CloneStmts(l), Point: pt, Cell: "alias"}
}

// after-error: "from the script variable of that name IF ONE EXISTS": a
// variable of an EARLIER run is not one. Each case first runs a script that
// assigns variables named like the point keys the builtins work on and then
// fails inside a block (every block form), and straight afterwards runs an
// ordinary random case, whose outcome must be that of the case run alone.
var c11Failing = []string{
	"if true {\n  x = 1 / zero\n}\n",
	"if false {\n} elif true {\n  x = 1 / zero\n}\n",
	"if false {\n} else {\n  x = 1 / zero\n}\n",
	"for i = 0; i < 2; i = i + 1 {\n  x = 1 / zero\n}\n",
	"for e in [1, 2] {\n  x = 1 / zero\n}\n",
	"for e in \"ab\" {\n  if e == \"a\" {\n    x = 1 / zero\n  }\n}\n",
	"for i = 0; i < 2; i = i + 1 {\n  if true {\n    for e in {\"q\": 1} {\n      l = [1]\n      x = l[5]\n    }\n  }\n}\n",
	"x = 1 / zero\n",
	"if true {\n  url_decode(bad)\n  cast(bad, \"int\")\n  x = bad[7]\n}\n",
}

// beforeRealRun, when set, runs between the load and the real run of a
// builtin case.
var beforeRealRun func()

var c11PoisonScripts = map[string]*scriptT{}

func c11Poison(c *mon.Ctx) {
	text := "k = \"stale-variable\"\nmessage = \"stale message\"\no = [\"stale\"]\nb1 = 999\nb2 = nil\nbt = \"stale tag\"\nt2 = 1.5\nzero = 0\nbad = \"%zz\"\n" +
		c11Failing[c.R.Intn(len(c11Failing))]
	s := c11PoisonScripts[text]
	if s == nil {
		var err error
		s, err = drive.LoadV1One("poison.p", text)
		if err != nil {
			panic("c11: poison script rejected: " + err.Error())
		}
		c11PoisonScripts[text] = s
	}
	beforeRealRun = func() { c11PoisonRun(c, s) }
}

func c11PoisonRun(c *mon.Ctx, s *scriptT) {
	pt := drive.NewPoint("other", map[string]string{"bt": "x"}, map[string]any{"k": "other point"}, time.Unix(1, 0))
	o := drive.RunV1(s, pt, &drive.RunState{Budget: 5000})
	c.Eval(1)
	if o.Err != nil {
		c.Count("preceding_runs_that_failed_in_a_block", 1)
	}
}

type c11Case struct {
	Stmts []*gt.T
	Point *ref.Point
	Cell  string
	Skip  bool
}

func parseLit(text string) *gt.T { return c08Offender(text) }

func (c11) build(c *mon.Ctx, workload string, i int64) c11Case {
	var shape gen.Shape
	var src, kf, nest int
	var val int
	if workload == "table" {
		nest = int(i % int64(len(c11Nest)))
		i /= int64(len(c11Nest))
		kf = int(i % int64(len(c11KeyForms)))
		i /= int64(len(c11KeyForms))
		val = int(i % int64(len(c11Values)))
		i /= int64(len(c11Values))
		src = int(i % int64(len(c11Sources)))
		shape = c11Shapes[i/int64(len(c11Sources))]
	} else {
		kf, val, src = c.R.Intn(len(c11KeyForms)), c.R.Intn(len(c11Values)), c.R.Intn(len(c11Sources))
		nest = c.R.Intn(len(c11Nest))
		shape = c11Shapes[c.R.Intn(len(c11Shapes))]
	}
	v := c11Values[val]
	key := "k"
	if c11KeyForms[kf] == "underscore" {
		key = "message"
	}
	pt := ref.NewPoint("meas", map[string]string{"bt": "bystander"}, map[string]any{"b1": int64(41), "b2": "by", "o": "old"}, time.Unix(1700000123, 456000))
	if workload == "random" {
		pt = gen.ModelPoint(c.R, []string{"b1", "b2", "o", "message"}, []string{"bt", "t2"})
		delete(pt.Fields, "k")
		delete(pt.Tags, "k")
		if key == "message" {
			delete(pt.Fields, "message")
		}
	}
	var stmts []*gt.T
	source := c11Sources[src]
	switch source {
	case "variable":
		stmts = append(stmts, gt.Assign("=", gt.Ident(key), parseLit(v.Lit)))
	case "field":
		if !v.Point {
			return c11Case{Skip: true}
		}
		pt.Fields[key] = v.Scalar
	case "tag":
		s, ok := v.Scalar.(string)
		if !ok {
			return c11Case{Skip: true}
		}
		delete(pt.Fields, key)
		pt.Tags[key] = s
	case "variable-over-field":
		pt.Fields[key] = "field-value"
		stmts = append(stmts, gt.Assign("=", gt.Ident(key), parseLit(v.Lit)))
	case "absent":
		if val != 0 && workload == "table" {
			return c11Case{Skip: true} // the value plays no role
		}
	}
	keyNode := func() *gt.T {
		switch c11KeyForms[kf] {
		case "strlit":
			return gt.Str(key)
		case "underscore":
			return gt.Ident("_")
		}
		return gt.Ident(key)
	}
	ba := &gen.BuiltinArgs{R: c.R, Keys: []string{key}}
	ba.Expr = func() *gt.T {
		switch c.R.Intn(5) {
		case 0:
			return gt.Ident(key)
		case 1:
			return gt.Int(int64(c.R.Intn(100)))
		case 2:
			return gt.Str("arg")
		case 3:
			return gt.Ident("b1")
		}
		return gt.Float(1.5)
	}
	call := ba.Call(shape)
	// place the key in the key positions
	for ai, ak := range shape.Args {
		if ai >= len(call.Kids) {
			break
		}
		switch ak {
		case gen.AKey:
			call.Kids[ai] = keyNode()
		case gen.AKeyNoLit:
			if c11KeyForms[kf] == "underscore" {
				call.Kids[ai] = gt.Ident("_")
			} else {
				call.Kids[ai] = gt.Ident(key)
			}
		}
	}
	if shape.Name == "cast" && shape.Fixed != "" {
		call.Kids[1] = gt.Str(shape.Fixed)
	}
	switch shape.Name {
	case "rename":
		// rename(new, old): old is the subject, new a fresh or existing key
		call.Kids[0] = gt.Ident([]string{"fresh", "o", "bt"}[c.R.Intn(3)])
	case "len", "load_json":
		call.Kids[0] = gt.Ident(key)
	case "xml":
	}
	if shape.Name == "printf" {
		call.Kids[0] = gt.Str(gen.FmtPool[c.R.Intn(len(gen.FmtPool))] + "\n")
		if c.R.Intn(3) == 0 {
			call.Kids[0] = gt.Ident(key)
		}
	}
	// the call site: at top level or inside nested blocks (the subject
	// variable, if any, is declared outside)
	var site []*gt.T
	switch shape.Name {
	case "len", "load_json", "get_key":
		site = []*gt.T{gt.Assign("=", gt.Ident("r"), call), gt.Call("p", gt.Ident("r"))}
	default:
		site = []*gt.T{call}
	}
	switch c11Nest[nest] {
	case "top":
		stmts = append(stmts, site...)
	case "if":
		stmts = append(stmts, gt.If(gt.Bool(true), site...))
	case "for":
		stmts = append(stmts, gt.For(gt.Assign("=", gt.Ident("zi"), gt.Int(0)), gt.Bin("<", gt.Ident("zi"), gt.Int(1)), gt.Assign("=", gt.Ident("zi"), gt.Bin("+", gt.Ident("zi"), gt.Int(1))), site...))
	case "forin-in-if":
		stmts = append(stmts, gt.If(gt.Int(1), gt.ForIn("ze", gt.List(gt.Int(1)), site...)))
	case "else-of-elif":
		stmts = append(stmts, gt.If(gt.Bool(false), gt.Call("p", gt.Str("no"))).Elif(gt.Nil(), gt.Call("p", gt.Str("no"))).ElseDo(site...))
	}
	stmts = append(stmts, gt.Call("p", gt.Ident(key), gt.Call("get_key", gt.Ident(key)), gt.Call("len", gt.Ident(key)), gt.Ident("fresh"), gt.Ident("o"), gt.Ident("bt")))
	shapeName := fmt.Sprintf("%s/%d%s", shape.Name, len(shape.Args), shape.Fixed)
	return c11Case{Stmts: stmts, Point: pt, Cell: fmt.Sprintf("%s | %s | %s | %s", shapeName, source, v.Name, c11KeyForms[kf]+" | "+c11Nest[nest])}
}

func (k c11) Describe(c *mon.Ctx, workload string, i int64) any {
	if workload == "sequences" {
		cs := k.sequence(c)
		return map[string]any{"source": gt.Print(gt.ParenthesizeStmts(cs.Stmts), nil), "point": cs.Point.Show()}
	}
	if workload == "shared-parts" {
		cs := c11SharedCase(i)
		if cs.Skip {
			return "skipped combination"
		}
		return map[string]any{"source": gt.Print(gt.ParenthesizeStmts(cs.Stmts), nil)}
	}
	if workload == "printf-across-use" {
		return map[string]any{"scripts": c11PrintfUse(i)}
	}
	if workload == "long-subjects" {
		cs := c11LongSubject(i)
		return map[string]any{"source_head": firstN(gt.Print(gt.ParenthesizeStmts(cs.Stmts), nil), 3), "index": i}
	}
	if workload == "read-move-op" {
		cs := c11ReadMoveOp(i)
		return map[string]any{"source": gt.Print(gt.ParenthesizeStmts(cs.Stmts), nil), "point": cs.Point.Show()}
	}
	if workload == "string-edges" {
		cs := c11EdgeCase(i)
		if cs.Skip {
			return "skipped combination"
		}
		return map[string]any{"source": gt.Print(gt.ParenthesizeStmts(cs.Stmts), nil), "point": cs.Point.Show()}
	}
	if workload == "alias-pairs" {
		cs := c11AliasCase(i)
		if cs.Skip {
			return "skipped combination"
		}
		return map[string]any{"source": gt.Print(gt.ParenthesizeStmts(cs.Stmts), nil), "point": cs.Point.Show()}
	}
	if workload == "after-error" {
		workload = "random"
	}
	cs := k.build(c, workload, i)
	if cs.Skip {
		return "skipped combination"
	}
	return map[string]any{"source": gt.Print(gt.ParenthesizeStmts(cs.Stmts), nil), "point": cs.Point.Show(), "cell": cs.Cell}
}

// sequence: several builtin calls in a row on a small key set, with reads in
// between: an effect of one call on ANOTHER key (or on a later call) shows up
// in the full-point comparison.
func (c11) sequence(c *mon.Ctx) c11Case {
	r := c.R
	keys := []string{"k", "k2", "o", "bt", "fresh"}
	pt := ref.NewPoint("meas", map[string]string{"bt": "bystander", "k2": "tagged"}, map[string]any{"k": "  Text a%20b  ", "o": int64(5), "b1": 2.5}, time.Unix(1700000123, 0))
	var stmts []*gt.T
	readAll := func() *gt.T {
		a := []*gt.T{}
		for _, k := range keys {
			a = append(a, gt.Call("get_key", gt.Ident(k)))
		}
		return gt.Call("p", a...)
	}
	n := 2 + r.Intn(4)
	for j := 0; j < n; j++ {
		shape := c11Shapes[r.Intn(len(c11Shapes))]
		if shape.Name == "printf" || shape.Name == "load_json" || shape.Name == "len" {
			shape = c11Shapes[0]
		}
		ba := &gen.BuiltinArgs{R: r, Keys: keys}
		ba.Expr = func() *gt.T {
			switch r.Intn(4) {
			case 0:
				return gt.Ident(keys[r.Intn(len(keys))])
			case 1:
				return gt.Int(int64(r.Intn(9)))
			case 2:
				return gt.List(gt.Int(1), gt.Str("x"))
			}
			return gt.Str("v" + fmt.Sprint(j))
		}
		call := ba.Call(shape)
		if shape.Name == "cast" && shape.Fixed != "" {
			call.Kids[1] = gt.Str(shape.Fixed)
		}
		stmts = append(stmts, call, readAll())
	}
	return c11Case{Stmts: stmts, Point: pt, Cell: ""}
}

func (k c11) Run(c *mon.Ctx, workload string, i int64) {
	if workload == "sequences" {
		cs := k.sequence(c)
		runBuiltinCase(c, cs.Stmts, cs.Point, "", ref.Merge(ref.ProbeFuncs(), ref.FieldFuncs()), "c11.p")
		return
	}
	if workload == "shared-parts" {
		cs := c11SharedCase(i)
		if cs.Skip {
			return
		}
		runBuiltinCase(c, cs.Stmts, cs.Point, cs.Cell, ref.Merge(ref.ProbeFuncs(), ref.FieldFuncs()), "c11.p")
		return
	}
	if workload == "printf-across-use" {
		c11RunPrintfUse(c, i)
		return
	}
	if workload == "long-subjects" {
		cs := c11LongSubject(i)
		runBuiltinCase(c, cs.Stmts, cs.Point, cs.Cell, ref.Merge(ref.ProbeFuncs(), ref.FieldFuncs()), "c11.p")
		return
	}
	if workload == "read-move-op" {
		cs := c11ReadMoveOp(i)
		runBuiltinCase(c, cs.Stmts, cs.Point, cs.Cell, ref.Merge(ref.ProbeFuncs(), ref.FieldFuncs()), "c11.p")
		return
	}
	if workload == "string-edges" {
		cs := c11EdgeCase(i)
		if cs.Skip {
			c.Count("string_edges_skipped", 1)
			return
		}
		runBuiltinCase(c, cs.Stmts, cs.Point, cs.Cell, ref.Merge(ref.ProbeFuncs(), ref.FieldFuncs()), "c11.p")
		return
	}
	if workload == "alias-pairs" {
		cs := c11AliasCase(i)
		if cs.Skip {
			return
		}
		runBuiltinCase(c, cs.Stmts, cs.Point, cs.Cell, ref.Merge(ref.ProbeFuncs(), ref.FieldFuncs()), "c11.p")
		return
	}
	if workload == "after-error" {
		cs := k.build(c, "random", i)
		if cs.Skip {
			return
		}
		c11Poison(c)
		defer func() { beforeRealRun = nil }()
		runBuiltinCase(c, cs.Stmts, cs.Point, cs.Cell, ref.Merge(ref.ProbeFuncs(), ref.FieldFuncs()), "c11.p")
		return
	}
	cs := k.build(c, workload, i)
	if cs.Skip {
		return
	}
	runBuiltinCase(c, cs.Stmts, cs.Point, cs.Cell, ref.Merge(ref.ProbeFuncs(), ref.FieldFuncs()), "c11.p")
}

// runBuiltinCase is shared by C11 and C12.
func runBuiltinCase(c *mon.Ctx, stmtsIn []*gt.T, pt *ref.Point, cell string, funcs map[string]ref.Builtin, name string) {
	runBuiltinCaseNorm(c, gt.ParenthesizeStmts(stmtsIn), pt, cell, funcs, name)
}

// runBuiltinCaseLoadErr: the model says the program must be rejected at load.
func runBuiltinCaseLoadErr(c *mon.Ctx, stmts []*gt.T, pt *ref.Point, reason string) {
	src := gt.Print(stmts, nil)
	_, err := drive.LoadV1One("c12.p", src)
	c.Eval(1)
	c.Nontrivial(src)
	c.Count("programs_that_must_be_rejected_at_load", 1)
	if err == nil {
		c.Violate("invalid-pattern-program-accepted", fmt.Sprintf("the scoping model says this program must be rejected at load time (%s) but it was accepted\n%s", reason, src),
			map[string]any{"source": src, "reason": reason})
	}
}

// runBuiltinCaseNorm takes already parenthesised statements (so that side
// tables keyed by node stay valid).
func runBuiltinCaseNorm(c *mon.Ctx, stmts []*gt.T, pt *ref.Point, cell string, funcs map[string]ref.Builtin, name string) {
	src := gt.Print(stmts, nil)
	info := map[string]any{"source": src, "point": pt.Show(), "cell": cell}
	prog := &ref.Program{Scripts: map[string][]*gt.T{name: stmts}, Funcs: funcs}
	model := pt.Clone()
	mo := ref.Run(prog, name, model, modelBudget)
	script, err := drive.LoadV1One(name, src)
	c.Eval(1)
	if cell != "" {
		c.Cell("cells", cell)
	}
	if err != nil {
		if mo.LoadErr {
			c.Count("rejected_at_load_as_modelled", 1)
			return
		}
		c.Violate("valid-program-rejected", fmt.Sprintf("rejected at load: %v\n%s", err, src), info)
		return
	}
	if mo.LoadErr {
		c.Violate("invalid-program-accepted", fmt.Sprintf("the model says this program must be rejected at load time (%s)\n%s", mo.Unspecified, src), info)
		return
	}
	real := drive.PointFromModel(pt)
	var ro drive.Outcome
	if beforeRealRun != nil {
		// history injected between load and run (the load itself would
		// re-initialise a pooled task)
		beforeRealRun()
	}
	stdout := drive.CaptureStdout(func() { ro = drive.RunV1(script, real, &drive.RunState{Budget: 20000}) })
	// the failure note is compared by its documented prefix only
	if m, ok := model.Fields["pl_msg"].(string); ok && m == ref.PlMsgPrefix {
		if r, ok := real.Fields["pl_msg"].(string); ok && len(r) >= len(m) && r[:len(m)] == m {
			real.Fields["pl_msg"] = m
		}
	}
	if mo.Unspecified != "" {
		c.Count("not_compared_unspecified", 1)
		c.Cell("unspecified_reasons", firstLineOf(mo.Unspecified))
		if ro.Panic != nil {
			c.Violate("panic", fmt.Sprintf("%v\n%s\n%s", ro.Panic, firstN(ro.Stack, 20), src), info)
		}
		return
	}
	c.Count("compared", 1)
	c.Nontrivial(src + "|" + pt.Show())
	if mo.Err != nil && mo.Err.Unsure {
		// error or no-op, never a value: either the real run reports an
		// error too, or it left the point exactly as the model has it
		// (unchanged by the failing call)
		c.Count("error_or_noop_cases", 1)
		if ro.Panic != nil {
			c.Violate("panic", fmt.Sprintf("%v\n%s", ro.Panic, src), info)
		} else if ro.Err == nil {
			if d := comparePoint(real, model); d != "" {
				c.Violate("data-error-fabricated-value", fmt.Sprintf("the call cannot succeed (%s) yet the point changed: %s\n--- program\n%s--- point before\n%s", mo.Err.Msg, d, src, pt.Show()), info)
			}
		}
		return
	}
	if r := compareRun(ro, mo, cmpOpts{Point: model, RealPoint: real}); r != nil {
		c.Violate(r.Class+":"+builtinOf(stmts), fmt.Sprintf("%s\n--- program\n%s--- point before\n%s", r.Detail, src, pt.Show()), info)
		return
	}
	if want := mo.Shared.Stdout.String(); want != stdout {
		c.Violate("stdout-differs", fmt.Sprintf("standard output %q, expected %q\n--- program\n%s", stdout, want, src), info)
		return
	}
	// no memory: the same loaded script run again, and the same text loaded
	// again and run, have exactly the documented effect too
	for pass := 0; pass < 2; pass++ {
		s, what := script, "the SECOND run of the same loaded script"
		if pass == 1 {
			what = "the run of a SECOND load of the same text"
			if s, err = drive.LoadV1One(name, src); err != nil {
				c.Violate("second-load-rejected", fmt.Sprintf("accepted by the first load, rejected by the second: %v\n%s", err, src), info)
				return
			}
		}
		real2 := drive.PointFromModel(pt)
		var ro2 drive.Outcome
		stdout2 := drive.CaptureStdout(func() { ro2 = drive.RunV1(s, real2, &drive.RunState{Budget: 20000}) })
		c.Eval(1)
		c.Count("second_runs_and_second_loads", 1)
		if m, ok := model.Fields["pl_msg"].(string); ok && m == ref.PlMsgPrefix {
			if r, ok := real2.Fields["pl_msg"].(string); ok && len(r) >= len(m) && r[:len(m)] == m {
				real2.Fields["pl_msg"] = m
			}
		}
		if r := compareRun(ro2, mo, cmpOpts{Point: model, RealPoint: real2}); r != nil {
			c.Violate("again-differs:"+r.Class+":"+builtinOf(stmts), fmt.Sprintf("%s differs from the reference (the first run agreed): %s\n--- program\n%s--- point before\n%s", what, r.Detail, src, pt.Show()), info)
			return
		}
		if want := mo.Shared.Stdout.String(); want != stdout2 {
			c.Violate("again-differs:stdout", fmt.Sprintf("%s: standard output %q, expected %q\n--- program\n%s", what, stdout2, want, src), info)
			return
		}
	}
	if c.WantSample() && c.R.Intn(40) == 0 {
		c.Sample(map[string]any{"source": src, "point_before": pt.Show(), "point_after": model.Show(), "stdout": stdout})
	}
}

func firstLineOf(s string) string {
	if len(s) > 60 {
		return s[:60]
	}
	return s
}

func builtinOf(stmts []*gt.T) string {
	name := "?"
	skip := map[string]bool{"p": true, "t": true, "get_key": true, "len": true}
	gt.WalkStmts(stmts, func(t *gt.T) {
		if t.K == gt.KCall && (!skip[t.S] || name == "?") {
			if !skip[t.S] {
				name = t.S
			} else if name == "?" {
				name = "?"
			}
		}
	})
	if name == "?" {
		gt.WalkStmts(stmts, func(t *gt.T) {
			if t.K == gt.KCall && name == "?" && t.S != "p" {
				name = t.S
			}
		})
	}
	return name
}

var _ = math.Abs
