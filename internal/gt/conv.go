package gt

import (
	"fmt"

	"github.com/GuanceCloud/platypus/pkg/ast"
	"github.com/GuanceCloud/platypus/pkg/token"
)

// ConvError is raised (as a panic value, recovered by FromStmts) when the
// tree returned by the parser is incomplete: a nil node where the grammar
// requires one, or a node of an unknown kind.
type ConvError struct{ Msg string }

func (e *ConvError) Error() string { return e.Msg }

func bad(format string, a ...any) { panic(&ConvError{fmt.Sprintf(format, a...)}) }

// FromStmts converts a parsed statement list. A structurally incomplete
// tree yields an error.
func FromStmts(l ast.Stmts) (out []*T, err error) {
	defer func() {
		if r := recover(); r != nil {
			if ce, ok := r.(*ConvError); ok {
				err = ce
				return
			}
			err = &ConvError{fmt.Sprintf("panic while walking the parsed tree: %v", r)}
		}
	}()
	out = make([]*T, 0, len(l))
	for i, n := range l {
		if n == nil {
			bad("statement %d is nil", i)
		}
		out = append(out, fromNode(n))
	}
	return out, nil
}

func (t *T) pos(k string, p token.LnColPos) {
	if t.Pos == nil {
		t.Pos = map[string]int{}
		t.LC = map[string][2]int{}
	}
	t.Pos[k] = int(p.Pos)
	t.LC[k] = [2]int{p.Ln, p.Col}
}

func fromBlock(owner *T, name string, b *ast.BlockStmt) []*T {
	if b == nil {
		bad("%s: nil block", name)
	}
	owner.pos(name+"L", b.LBracePos)
	owner.pos(name+"R", b.RBracePos)
	out := make([]*T, 0, len(b.Stmts))
	for i, s := range b.Stmts {
		if s == nil {
			bad("%s: statement %d is nil", name, i)
		}
		out = append(out, fromNode(s))
	}
	return out
}

func fromList(what string, l []*ast.Node) []*T {
	out := make([]*T, 0, len(l))
	for i, n := range l {
		if n == nil {
			bad("%s: element %d is nil", what, i)
		}
		out = append(out, fromNode(n))
	}
	return out
}

func must(what string, n *ast.Node) *T {
	if n == nil {
		bad("%s is nil", what)
	}
	return fromNode(n)
}

func opt(n *ast.Node) *T {
	if n == nil {
		return nil
	}
	return fromNode(n)
}

// safeStartPos evaluates the derived start position of a node; a panic
// inside it is reported as offset -2.
func safeStartPos(n *ast.Node) (p token.LnColPos) {
	defer func() {
		if recover() != nil {
			p = token.LnColPos{Pos: -2, Ln: -2, Col: -2}
		}
	}()
	return ast.NodeStartPos(n)
}

func fromNode(n *ast.Node) *T {
	t := fromNode1(n)
	if t != nil {
		t.pos("@StartPos", safeStartPos(n))
	}
	return t
}

func fromNode1(n *ast.Node) *T {
	switch n.NodeType {
	case ast.TypeIdentifier:
		e := n.Identifier()
		t := &T{K: KIdent, S: e.Name}
		t.pos("Start", e.Start)
		return t
	case ast.TypeStringLiteral:
		e := n.StringLiteral()
		t := &T{K: KStr, S: e.Val}
		t.pos("Start", e.Start)
		return t
	case ast.TypeIntegerLiteral:
		e := n.IntegerLiteral()
		t := &T{K: KInt, I: e.Val}
		t.pos("Start", e.Start)
		return t
	case ast.TypeFloatLiteral:
		e := n.FloatLiteral()
		t := &T{K: KFloat, F: e.Val}
		t.pos("Start", e.Start)
		return t
	case ast.TypeBoolLiteral:
		e := n.BoolLiteral()
		t := &T{K: KBool, B: e.Val}
		t.pos("Start", e.Start)
		return t
	case ast.TypeNilLiteral:
		t := &T{K: KNil}
		t.pos("Start", n.NilLiteral().Start)
		return t
	case ast.TypeListLiteral:
		e := n.ListLiteral()
		t := &T{K: KList, Kids: fromList("list", e.List)}
		t.pos("LBracket", e.LBracket)
		t.pos("RBracket", e.RBracket)
		return t
	case ast.TypeMapLiteral:
		e := n.MapLiteral()
		t := &T{K: KMap}
		for i, kv := range e.KeyValeList {
			t.Kids = append(t.Kids, must(fmt.Sprintf("map key %d", i), kv[0]), must(fmt.Sprintf("map value %d", i), kv[1]))
		}
		if t.Kids == nil {
			t.Kids = []*T{}
		}
		t.pos("LBrace", e.LBrace)
		t.pos("RBrace", e.RBrace)
		return t
	case ast.TypeParenExpr:
		e := n.ParenExpr()
		t := &T{K: KParen, Kids: []*T{must("paren operand", e.Param)}}
		t.pos("LParen", e.LParen)
		t.pos("RParen", e.RParen)
		return t
	case ast.TypeUnaryExpr:
		e := n.UnaryExpr()
		t := &T{K: KUnary, Op: string(e.Op), Kids: []*T{must("unary operand", e.RHS)}}
		t.pos("OpPos", e.OpPos)
		return t
	case ast.TypeArithmeticExpr:
		e := n.ArithmeticExpr()
		t := &T{K: KArith, Op: string(e.Op), Kids: []*T{must("lhs", e.LHS), must("rhs", e.RHS)}}
		t.pos("OpPos", e.OpPos)
		return t
	case ast.TypeConditionalExpr:
		e := n.ConditionalExpr()
		t := &T{K: KCond, Op: string(e.Op), Kids: []*T{must("lhs", e.LHS), must("rhs", e.RHS)}}
		t.pos("OpPos", e.OpPos)
		return t
	case ast.TypeInExpr:
		e := n.InExpr()
		t := &T{K: KIn, Op: string(e.Op), Kids: []*T{must("lhs", e.LHS), must("rhs", e.RHS)}}
		t.pos("OpPos", e.OpPos)
		return t
	case ast.TypeIndexExpr:
		e := n.IndexExpr()
		t := &T{K: KIndex, Kids: fromList("index", e.Index)}
		if e.Obj == nil {
			t.NoObj = true
		} else {
			t.S = e.Obj.Name
			t.pos("ObjStart", e.Obj.Start)
		}
		if len(e.LBracket) != len(e.Index) || len(e.RBracket) != len(e.Index) {
			bad("index expression with %d indices, %d/%d bracket positions", len(e.Index), len(e.LBracket), len(e.RBracket))
		}
		for i := range e.Index {
			t.pos(fmt.Sprintf("LBracket%d", i), e.LBracket[i])
			t.pos(fmt.Sprintf("RBracket%d", i), e.RBracket[i])
		}
		return t
	case ast.TypeAttrExpr:
		e := n.AttrExpr()
		t := &T{K: KAttr, Kids: []*T{must("attr object", e.Obj), must("attr name", e.Attr)}}
		t.pos("Start", e.Start)
		return t
	case ast.TypeSliceExpr:
		e := n.SliceExpr()
		t := &T{K: KSlice, Kids: []*T{must("slice object", e.Obj)}, Start: opt(e.Start), End: opt(e.End), Step: opt(e.Step), Colon2: e.Colon2}
		t.pos("LBracket", e.LBracket)
		t.pos("RBracket", e.RBracket)
		return t
	case ast.TypeCallExpr:
		e := n.CallExpr()
		t := &T{K: KCall, S: e.Name, Kids: fromList("call argument", e.Param), Orig: e}
		t.pos("NamePos", e.NamePos)
		t.pos("LParen", e.LParen)
		t.pos("RParen", e.RParen)
		return t
	case ast.TypeAssignmentExpr:
		e := n.AssignmentExpr()
		t := &T{K: KAssign, Op: string(e.Op), LHS: fromList("assignment target", e.LHS), RHS: fromList("assignment source", e.RHS)}
		if len(t.LHS) == 0 || len(t.RHS) == 0 {
			bad("assignment with empty side")
		}
		t.pos("OpPos", e.OpPos)
		return t
	case ast.TypeIfelseStmt:
		e := n.IfelseStmt()
		t := &T{K: KIf}
		if len(e.IfList) == 0 {
			bad("if statement without branches")
		}
		for i, el := range e.IfList {
			if el == nil {
				bad("if branch %d is nil", i)
			}
			t.Conds = append(t.Conds, must("if condition", el.Condition))
			t.pos(fmt.Sprintf("If%d", i), el.Start)
			t.Blocks = append(t.Blocks, fromBlock(t, fmt.Sprintf("Block%d", i), el.Block))
		}
		if e.Else != nil {
			t.HasElse = true
			t.pos("ElsePos", e.ElsePos)
			t.Else = fromBlock(t, "Else", e.Else)
		}
		return t
	case ast.TypeForStmt:
		e := n.ForStmt()
		t := &T{K: KFor, Init: opt(e.Init), Cond: opt(e.Cond), Loop: opt(e.Loop)}
		t.pos("ForPos", e.ForPos)
		t.Body = fromBlock(t, "Body", e.Body)
		return t
	case ast.TypeForInStmt:
		e := n.ForInStmt()
		t := &T{K: KForIn, Kids: []*T{must("loop variable", e.Varb), must("iterable", e.Iter)}}
		t.pos("ForPos", e.ForPos)
		t.pos("InPos", e.InPos)
		t.Body = fromBlock(t, "Body", e.Body)
		return t
	case ast.TypeBreakStmt:
		t := &T{K: KBreak}
		t.pos("Start", n.BreakStmt().Start)
		return t
	case ast.TypeContinueStmt:
		t := &T{K: KContinue}
		t.pos("Start", n.ContinueStmt().Start)
		return t
	}
	bad("node of unexpected kind %v", n.NodeType)
	return nil
}
