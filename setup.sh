#!/bin/sh
# MANIFEST.setup_cmd: warm offline build of the monitor binaries.
cd "$(dirname "$0")" || exit 1
ROOT=$(pwd)
export GOFLAGS=-mod=mod GOPROXY=off GOSUMDB=off GOTOOLCHAIN=local
mkdir -p .build evidence
go build -tags verif -o .build/vcheck ./cmd/vcheck || exit 1
go build -race -tags verif -o .build/vcheck-race ./cmd/vcheck || exit 1
(cd /repo && go build -o "$ROOT/.build/platypus" ./cmd/platypus) || exit 1
echo "setup ok"
