#!/usr/bin/env python3
"""Validate MANIFEST.json and every evidence file against the harness schemas."""
import json, sys, glob, jsonschema
ok = True
def v(path, schema):
    global ok
    try:
        jsonschema.validate(json.load(open(path)), json.load(open(schema)))
    except Exception as e:
        ok = False
        print("INVALID", path, str(e)[:300])
v('MANIFEST.json', '/root/.vp/MANIFEST.schema.json')
for f in sorted(glob.glob('evidence/*.json')):
    v(f, '/root/.vp/EVIDENCE.schema.json')
m = json.load(open('MANIFEST.json'))
ids = [json.loads(l)['id'] for l in open('properties.jsonl')]
claimed = [c['property_id'] for c in m['checks']]
na = [c['property_id'] for c in m.get('not_applicable', [])]
for i in ids:
    if (i in claimed) == (i in na):
        ok = False
        print("property", i, "must be exactly one of claimed / not_applicable")
print("ok" if ok else "FAILED")
sys.exit(0 if ok else 1)
