package main

import (
	"strings"

	"verif/internal/drive"
	"verif/internal/gt"
)

// stale-lookup (exhaustive; shared by C03 on v1 and C18 on v2): a loop whose
// body creates locals and reads them in a LATER iteration before assigning
// them again, behind a guard that names no variable (tick() counts its own
// calls): the loop's scope is new in every iteration, so the read sees no
// variable (v1: the point's key or nil; v2: an error) - whatever the
// interpreter looked up last in the iteration before.
var staleLoopHeads = []string{
	"for x in [1, 2, 3] {\n",
	"for x in \"abc\" {\n",
	"for i = 0; i < 3; i = i + 1 {\n",
	"for x in [[1], [2]] {\n",
	"for o in [1, 2] {\n  for x in [5, 6] {\n",
}
var staleBodies = []string{
	"  if tick() > 1 {\n    p(t)\n  }\n  t = 7\n  p(t)\n",
	"  if tick() > 1 {\n    y = t\n    p(y)\n  }\n  t = \"a\"\n  z = t\n",
	"  if tick() == 2 {\n    p(t)\n  }\n  t = 7\n  p(t)\n",
	"  if true {\n    if tick() > 1 {\n      p(t)\n    }\n  }\n  t = 1\n  p(t)\n",
	"  if tick() > 1 {\n    p(u)\n    p(t)\n  }\n  t = 7\n  u = 8\n  p(t)\n  p(u)\n",
	"  if tick() > 2 {\n    p(t)\n  }\n  t = [tick()]\n  p(t[0])\n",
	"  if tick() > 1 {\n    t += 1\n    p(t)\n  }\n  t = 7\n  p(t)\n",
	"  if tick() > 1 {\n    p(len(t))\n  }\n  t = \"abc\"\n  p(len(t))\n",
	"  if tick() > 1 {\n    for e in t {\n      p(e)\n    }\n  }\n  t = [1]\n  p(t)\n",
	"  if tick() > 1 {\n    p(t[0])\n  }\n  t = [7]\n  p(t[0])\n",
}

func staleLookupN() int64 { return int64(len(staleLoopHeads) * len(staleBodies)) }

func staleLookupProgram(i int64) []*gt.T {
	body := staleBodies[int(i)%len(staleBodies)]
	head := staleLoopHeads[int(i)/len(staleBodies)]
	tail := "}\n"
	if strings.Count(head, "{") == 2 {
		body = strings.ReplaceAll(body, "\n  ", "\n    ")
		body = "  " + body
		tail = "  }\n}\n"
	}
	text := head + body + tail + "p(\"end\")\n"
	o := drive.Parse("stale-lookup", text)
	if o.Err != nil {
		panic("stale-lookup program does not parse: " + text + ": " + o.Err.Error())
	}
	l, err := gt.FromStmts(o.Stmts)
	if err != nil {
		panic(err)
	}
	return gt.CloneStmts(l)
}
