package ref

import (
	"fmt"
	"math"
	"strings"
	"unicode/utf8"

	"verif/internal/gt"
)

// Event is one observable effect of a run (a probe call).
type Event struct {
	Kind   string // "p", "t", ...
	Script string
	ID     any   // t(id, v): the id
	Vals   []Val // deep copies at the time of the call
}

func (e Event) String() string {
	var sb strings.Builder
	sb.WriteString(e.Kind)
	if e.Script != "" {
		sb.WriteString("@" + e.Script)
	}
	if e.ID != nil {
		sb.WriteString("#" + Show(e.ID))
	}
	sb.WriteString("(")
	for i, v := range e.Vals {
		if i > 0 {
			sb.WriteString(", ")
		}
		sb.WriteString(Show(v.V) + ":" + v.T.String())
	}
	sb.WriteString(")")
	return sb.String()
}

// RunErr is a reported run-time error: the node at fault (whose span in the
// printed source the real error position must lie in) and, for errors that
// crossed use() boundaries, the call sites innermost first.
type RunErr struct {
	Msg    string
	Node   *gt.T
	Script string
	Sites  []Site
	// Unsure marks errors whose presence the documents do not fix (the
	// comparison then accepts either outcome).
	Unsure bool
}

type Site struct {
	Script string
	Call   *gt.T
}

func (e *RunErr) Error() string { return e.Msg }

// Budget is raised when the step budget is exhausted.
type Budget struct{}

// TooBig is raised when a value outgrows what the monitors are willing to
// build (the real run is then skipped).
type TooBig struct{}

// Unspecified is raised (as a panic, recovered by Run) when the program
// reaches behaviour that neither the documents nor the properties fix; the
// case is then not compared.
type Unspecified struct{ Why string }

func unspec(why string) { panic(Unspecified{why}) }

// Builtin is a model function. It receives the call node (argument syntax
// matters to many builtins) and returns the call's value.
type Builtin func(in *Interp, call *gt.T) (Val, *RunErr)

// Program is a set of scripts sharing one function table.
type Program struct {
	Scripts map[string][]*gt.T
	Funcs   map[string]Builtin
	V2      bool
}

// Interp is the state of one script activation.
type Interp struct {
	Prog   *Program
	Name   string
	Point  *Point // v1 only; may be nil (then unbound names read nil)
	scopes []map[string]*Val
	exit   bool
	brk    bool
	cont   bool
	Shared *Shared
}

// Shared is the state common to all activations of one run.
type Shared struct {
	Events []Event
	Steps  int64
	Budget int64
	Stdout strings.Builder
	// MapOrderDependent is set when the run iterated a map with more than
	// one key (the order of the following events is then unspecified).
	MapOrderDependent bool
	Ticks             int64 // tick() calls so far
}

// Outcome of a reference run.
type Outcome struct {
	Err         *RunErr
	Events      []Event
	Unspecified string // non-empty: do not compare
	Budget      bool
	TooBig      bool // a value outgrew 1 MiB: do not run the real code on this case
	LoadErr     bool // the program must be rejected at load time (reason in Unspecified)
	Shared      *Shared
}

// Run executes script `name` of prog on point pt.
func Run(prog *Program, name string, pt *Point, budget int64) (out Outcome) {
	sh := &Shared{Budget: budget}
	in := &Interp{Prog: prog, Name: name, Point: pt, Shared: sh}
	in.push()
	if prog.V2 {
		in.push()
	}
	defer func() {
		out.Events = sh.Events
		out.Shared = sh
		if r := recover(); r != nil {
			switch x := r.(type) {
			case Unspecified:
				out.Unspecified = x.Why
			case Budget:
				out.Budget = true
			case TooBig:
				out.Budget = true
				out.TooBig = true
			default:
				panic(r)
			}
		}
	}()
	out.Err = in.block(prog.Scripts[name])
	return
}

func (in *Interp) push() { in.scopes = append(in.scopes, map[string]*Val{}) }
func (in *Interp) pop()  { in.scopes = in.scopes[:len(in.scopes)-1] }

func (in *Interp) tick() {
	in.Shared.Steps++
	if in.Shared.Budget > 0 && in.Shared.Steps > in.Shared.Budget {
		panic(Budget{})
	}
}

func (in *Interp) errAt(n *gt.T, format string, a ...any) *RunErr {
	return &RunErr{Msg: fmt.Sprintf(format, a...), Node: n, Script: in.Name}
}

func key(name string, v2 bool) string {
	if name == "_" && !v2 {
		return "message"
	}
	return name
}

// lookup finds a variable (not the point).
func (in *Interp) lookupVar(name string) *Val {
	name = key(name, in.Prog.V2)
	for i := len(in.scopes) - 1; i >= 0; i-- {
		if v, ok := in.scopes[i][name]; ok {
			return v
		}
	}
	return nil
}

// Get reads a name: variable, else (v1) point key; ok=false when neither.
func (in *Interp) Get(name string) (Val, bool) {
	if v := in.lookupVar(name); v != nil {
		return *v, true
	}
	if !in.Prog.V2 && in.Point != nil {
		if v, ok := in.Point.Get(key(name, false)); ok {
			return v, true
		}
	}
	return NilV, false
}

// Set assigns: nearest enclosing definition, else a new local.
func (in *Interp) Set(name string, v Val) {
	name = key(name, in.Prog.V2)
	for i := len(in.scopes) - 1; i >= 0; i-- {
		if p, ok := in.scopes[i][name]; ok {
			*p = v
			return
		}
	}
	c := v
	in.scopes[len(in.scopes)-1][name] = &c
}

func (in *Interp) stop() bool { return in.exit || in.brk || in.cont }

func (in *Interp) block(stmts []*gt.T) *RunErr {
	for _, s := range stmts {
		if _, err := in.stmt(s); err != nil {
			in.exit = true
			return err
		}
		if in.stop() {
			return nil
		}
	}
	return nil
}

func (in *Interp) scoped(stmts []*gt.T) *RunErr {
	in.push()
	defer in.pop()
	return in.block(stmts)
}

// need enforces that a value is present where the language requires one.
// v1 lets a void flow on (its consumers treat it like their "other type"
// case); v2 must raise an error.
func (in *Interp) need(v Val, n *gt.T) *RunErr {
	if in.Prog.V2 && noValue(v) {
		return in.errAt(n, "no value")
	}
	return nil
}

func noValue(v Val) bool { return v.T == TVoid || v.T == TMulti }

func (in *Interp) stmt(t *gt.T) (Val, *RunErr) {
	switch t.K {
	case gt.KIf:
		in.tick()
		in.push()
		defer in.pop()
		for i, c := range t.Conds {
			v, err := in.eval(c)
			if err != nil {
				return Void, err
			}
			if err := in.need(v, c); err != nil {
				return Void, err
			}
			if Truthy(v) {
				return Void, in.scoped(t.Blocks[i])
			}
		}
		if t.HasElse {
			return Void, in.scoped(t.Else)
		}
		return Void, nil
	case gt.KFor:
		in.tick()
		in.push()
		defer in.pop()
		if t.Init != nil {
			if _, err := in.stmt(t.Init); err != nil {
				return Void, err
			}
		}
		for {
			in.tick()
			if t.Cond != nil {
				v, err := in.stmt(t.Cond)
				if err != nil {
					return Void, err
				}
				if err := in.need(v, t.Cond); err != nil {
					return Void, err
				}
				if !Truthy(v) {
					break
				}
			}
			if err := in.scoped(t.Body); err != nil {
				return Void, err
			}
			if in.brk {
				in.brk = false
				break
			}
			in.cont = false
			if in.exit {
				break
			}
			if t.Loop != nil {
				if _, err := in.stmt(t.Loop); err != nil {
					return Void, err
				}
			}
		}
		return Void, nil
	case gt.KForIn:
		in.tick()
		in.push()
		defer in.pop()
		it, err := in.eval(t.Kids[1])
		if err != nil {
			return Void, err
		}
		if err := in.need(it, t.Kids[1]); err != nil {
			return Void, err
		}
		name := t.Kids[0].S
		var items []Val
		live := func(i int) Val { return items[i] }
		n := 0
		switch x := it.V.(type) {
		case string:
			for _, r := range x {
				items = append(items, Val{string(r), TStr})
			}
			n = len(items)
		case []any:
			n = len(x)
			live = func(i int) Val { return Of(x[i]) }
		case map[string]any:
			if len(x) > 1 {
				in.Shared.MapOrderDependent = true
			}
			for k := range x {
				items = append(items, Val{k, TStr})
			}
			n = len(items)
		default:
			return Void, in.errAt(t.Kids[1], "%s is not iterable", it.T)
		}
		for i := 0; i < n; i++ {
			in.tick()
			in.push()
			in.Set(name, live(i))
			err := in.block(t.Body)
			in.pop()
			if m, ok := it.V.(map[string]any); ok && len(m) != n {
				// keys added or removed while iterating: which keys are
				// still visited is unspecified
				in.Shared.MapOrderDependent = true
			}
			if err != nil {
				return Void, err
			}
			if in.brk {
				in.brk = false
				break
			}
			in.cont = false
			if in.exit {
				break
			}
		}
		return Void, nil
	case gt.KBreak:
		in.tick()
		in.brk = true
		return Void, nil
	case gt.KContinue:
		in.tick()
		in.cont = true
		return Void, nil
	case gt.KAssign:
		return in.assign(t)
	}
	return in.eval(t)
}

func (in *Interp) eval(t *gt.T) (Val, *RunErr) {
	in.tick()
	switch t.K {
	case gt.KNil:
		return NilV, nil
	case gt.KBool:
		return Val{t.B, TBool}, nil
	case gt.KInt:
		return Val{t.I, TInt}, nil
	case gt.KFloat:
		return Val{t.F, TFloat}, nil
	case gt.KStr:
		return Val{t.S, TStr}, nil
	case gt.KIdent:
		v, ok := in.Get(t.S)
		if !ok && in.Prog.V2 {
			return Void, in.errAt(t, "name %s is not defined", t.S)
		}
		return v, nil
	case gt.KParen:
		return in.eval(t.Kids[0])
	case gt.KList:
		out := make([]any, 0, len(t.Kids))
		for _, k := range t.Kids {
			v, err := in.eval(k)
			if err != nil {
				return Void, err
			}
			if noValue(v) {
				if in.Prog.V2 {
					return Void, in.errAt(k, "no value")
				}
				unspec("void list element")
			}
			out = append(out, v.V)
		}
		return Val{out, TList}, nil
	case gt.KMap:
		out := map[string]any{}
		for i := 0; i+1 < len(t.Kids); i += 2 {
			k, err := in.eval(t.Kids[i])
			if err != nil {
				return Void, err
			}
			if err := in.need(k, t.Kids[i]); err != nil {
				return Void, err
			}
			ks, ok := k.V.(string)
			if !ok {
				return Void, in.errAt(t.Kids[i], "map key must be a string, got %s", k.T)
			}
			v, err := in.eval(t.Kids[i+1])
			if err != nil {
				return Void, err
			}
			if noValue(v) {
				return Void, in.errAt(t.Kids[i+1], "no value")
			}
			out[ks] = v.V
		}
		return Val{out, TMap}, nil
	case gt.KUnary:
		return in.unary(t)
	case gt.KArith:
		l, err := in.eval(t.Kids[0])
		if err != nil {
			return Void, err
		}
		if err := in.need(l, t.Kids[0]); err != nil {
			return Void, err
		}
		r, err := in.eval(t.Kids[1])
		if err != nil {
			return Void, err
		}
		if err := in.need(r, t.Kids[1]); err != nil {
			return Void, err
		}
		v, msg := Arith(t.Op, l, r)
		if msg != "" {
			return Void, in.errAt(t, "%s", msg)
		}
		return v, nil
	case gt.KCond:
		return in.cond(t)
	case gt.KIn:
		l, err := in.eval(t.Kids[0])
		if err != nil {
			return Void, err
		}
		if err := in.need(l, t.Kids[0]); err != nil {
			return Void, err
		}
		r, err := in.eval(t.Kids[1])
		if err != nil {
			return Void, err
		}
		if err := in.need(r, t.Kids[1]); err != nil {
			return Void, err
		}
		v, msg := In(l, r)
		if msg != "" {
			return Void, in.errAt(t, "%s", msg)
		}
		return v, nil
	case gt.KIndex:
		return in.indexGet(t)
	case gt.KSlice:
		return in.slice(t)
	case gt.KAttr:
		// attribute expressions have no value
		return Void, nil
	case gt.KCall:
		f, ok := in.Prog.Funcs[t.S]
		if !ok {
			unspec("call of unregistered function " + t.S)
		}
		return f(in, t)
	case gt.KAssign:
		return in.assign(t)
	}
	panic("ref: cannot evaluate " + t.K.String())
}

func (in *Interp) unary(t *gt.T) (Val, *RunErr) {
	v, err := in.eval(t.Kids[0])
	if err != nil {
		return Void, err
	}
	if err := in.need(v, t.Kids[0]); err != nil {
		return Void, err
	}
	switch t.Op {
	case "!":
		if v.T == TVoid || v.T == TInvalid {
			unspec("! applied to no value")
		}
		return Val{!Truthy(v), TBool}, nil
	case "+", "-":
		switch x := v.V.(type) {
		case bool:
			n := int64(0)
			if x {
				n = 1
			}
			if t.Op == "-" {
				n = -n
			}
			return Val{n, TInt}, nil
		case int64:
			if t.Op == "-" {
				return Val{-x, TInt}, nil
			}
			return Val{x, TInt}, nil
		case float64:
			if t.Op == "-" {
				return Val{-x, TFloat}, nil
			}
			return Val{x, TFloat}, nil
		}
		return Void, in.errAt(t, "bad operand type for unary %s: %s", t.Op, v.T)
	}
	panic("ref: unary " + t.Op)
}

func numeric(t Type) bool { return t == TInt || t == TFloat || t == TBool }

func toInt(v Val) int64 {
	switch x := v.V.(type) {
	case bool:
		if x {
			return 1
		}
		return 0
	case int64:
		return x
	}
	panic("ref: toInt")
}

func toFloat(v Val) float64 {
	switch x := v.V.(type) {
	case bool:
		if x {
			return 1
		}
		return 0
	case int64:
		return float64(x)
	case float64:
		return x
	}
	panic("ref: toFloat")
}

// Arith implements + - * / % (msg != "" is a reported error).
func Arith(op string, l, r Val) (Val, string) {
	okT := func(t Type) bool { return numeric(t) || t == TStr }
	if !okT(l.T) || !okT(r.T) {
		return Void, fmt.Sprintf("unsupported operand types for %s: %s and %s", op, l.T, r.T)
	}
	if l.T == TStr || r.T == TStr {
		if op == "+" && l.T == TStr && r.T == TStr {
			if len(l.V.(string))+len(r.V.(string)) > 1<<20 {
				panic(TooBig{})
			}
			return Val{l.V.(string) + r.V.(string), TStr}, ""
		}
		return Void, fmt.Sprintf("unsupported operand types for %s: %s and %s", op, l.T, r.T)
	}
	if l.T == TFloat || r.T == TFloat {
		a, b := toFloat(l), toFloat(r)
		switch op {
		case "+":
			return Val{a + b, TFloat}, ""
		case "-":
			return Val{a - b, TFloat}, ""
		case "*":
			return Val{a * b, TFloat}, ""
		case "/":
			if b == 0 {
				return Void, "division by zero"
			}
			return Val{a / b, TFloat}, ""
		}
		return Void, "float modulo"
	}
	a, b := toInt(l), toInt(r)
	switch op {
	case "+":
		return Val{a + b, TInt}, ""
	case "-":
		return Val{a - b, TInt}, ""
	case "*":
		return Val{a * b, TInt}, ""
	case "/":
		if b == 0 {
			return Void, "division by zero"
		}
		if a == math.MinInt64 && b == -1 {
			return Val{a, TInt}, "" // 64-bit wrap
		}
		return Val{a / b, TInt}, ""
	case "%":
		if b == 0 {
			return Void, "modulo by zero"
		}
		if b == -1 {
			return Val{int64(0), TInt}, ""
		}
		return Val{a % b, TInt}, ""
	}
	panic("ref: arith " + op)
}

// Equal is the == table.
func Equal(l, r Val) bool {
	switch {
	case numeric(l.T):
		if !numeric(r.T) {
			return false
		}
		if l.T == TFloat || r.T == TFloat {
			return toFloat(l) == toFloat(r)
		}
		return toInt(l) == toInt(r)
	case l.T == TStr:
		return r.T == TStr && l.V.(string) == r.V.(string)
	case l.T == TNil:
		return r.T == TNil
	case l.T == TList || l.T == TMap:
		return DeepEqual(l.V, r.V, false)
	}
	unspec("equality on " + l.T.String())
	return false
}

// Compare implements < <= > >= (msg != "" is a reported error).
func Compare(op string, l, r Val) (Val, string) {
	if !numeric(l.T) || !numeric(r.T) {
		return Void, fmt.Sprintf("%s and %s are not comparable", l.T, r.T)
	}
	var res bool
	if l.T == TFloat || r.T == TFloat {
		a, b := toFloat(l), toFloat(r)
		switch op {
		case "<":
			res = a < b
		case "<=":
			res = a <= b
		case ">":
			res = a > b
		case ">=":
			res = a >= b
		}
	} else {
		a, b := toInt(l), toInt(r)
		switch op {
		case "<":
			res = a < b
		case "<=":
			res = a <= b
		case ">":
			res = a > b
		case ">=":
			res = a >= b
		}
	}
	return Val{res, TBool}, ""
}

func (in *Interp) cond(t *gt.T) (Val, *RunErr) {
	l, err := in.eval(t.Kids[0])
	if err != nil {
		return Void, err
	}
	if err := in.need(l, t.Kids[0]); err != nil {
		return Void, err
	}
	if l.T == TBool {
		if t.Op == "||" && l.V.(bool) {
			return Val{true, TBool}, nil
		}
		if t.Op == "&&" && !l.V.(bool) {
			return Val{false, TBool}, nil
		}
	}
	r, err := in.eval(t.Kids[1])
	if err != nil {
		return Void, err
	}
	if err := in.need(r, t.Kids[1]); err != nil {
		return Void, err
	}
	if l.T == TVoid || r.T == TVoid {
		unspec("void operand of " + t.Op)
	}
	switch t.Op {
	case "==":
		return Val{Equal(l, r), TBool}, nil
	case "!=":
		return Val{!Equal(l, r), TBool}, nil
	case "&&", "||":
		if l.T != TBool || r.T != TBool {
			return Void, in.errAt(t, "unsupported operand types for %s: %s and %s", t.Op, l.T, r.T)
		}
		if t.Op == "&&" {
			return Val{l.V.(bool) && r.V.(bool), TBool}, nil
		}
		return Val{l.V.(bool) || r.V.(bool), TBool}, nil
	}
	v, msg := Compare(t.Op, l, r)
	if msg != "" {
		return Void, in.errAt(t, "%s", msg)
	}
	return v, nil
}

// In implements membership (msg != "" is a reported error).
func In(l, r Val) (Val, string) {
	switch x := r.V.(type) {
	case string:
		s, ok := l.V.(string)
		if !ok {
			return Void, "left operand of in must be a string"
		}
		return Val{strings.Contains(x, s), TBool}, ""
	case map[string]any:
		s, ok := l.V.(string)
		if !ok {
			return Void, "left operand of in must be a string"
		}
		_, has := x[s]
		return Val{has, TBool}, ""
	case []any:
		if l.T == TVoid {
			unspec("void in list")
		}
		for _, e := range x {
			if DeepEqual(l.V, e, false) {
				return Val{true, TBool}, ""
			}
		}
		return Val{false, TBool}, ""
	}
	return Void, "right operand of in must be a string, map or list"
}

// walk resolves obj[i0][i1]... for reading. Index expressions are evaluated
// as the walk proceeds; a missing map key ends the walk with nil.
func (in *Interp) indexGet(t *gt.T) (Val, *RunErr) { return in.indexWalk(t, true) }

func (in *Interp) indexWalk(t *gt.T, precheck bool) (Val, *RunErr) {
	if t.NoObj {
		return Void, &RunErr{Msg: "index expression without object", Node: t, Script: in.Name}
	}
	base, ok := in.Get(t.S)
	if !ok {
		return Void, in.errAt(t, "%s not found", t.S)
	}
	if precheck && base.T != TList && base.T != TMap {
		return Void, in.errAt(t, "%s is not indexable", base.T)
	}
	cur := base.V
	for _, ix := range t.Kids {
		k, err := in.eval(ix)
		if err != nil {
			return Void, err
		}
		if err := in.need(k, ix); err != nil {
			return Void, err
		}
		switch c := cur.(type) {
		case map[string]any:
			s, ok := k.V.(string)
			if !ok {
				return Void, in.errAt(ix, "map key must be a string")
			}
			v, has := c[s]
			if !has {
				return NilV, nil
			}
			cur = v
		case []any:
			n, ok := k.V.(int64)
			if !ok {
				return Void, in.errAt(ix, "list index must be an integer")
			}
			i, ok := normIndex(n, len(c))
			if !ok {
				return Void, in.errAt(ix, "list index out of range")
			}
			cur = c[i]
		default:
			return Void, in.errAt(ix, "cannot index %s", TypeOf(cur))
		}
	}
	return Of(cur), nil
}

func normIndex(n int64, length int) (int, bool) {
	if n < 0 {
		n += int64(length)
	}
	if n < 0 || n >= int64(length) {
		return 0, false
	}
	return int(n), true
}

func (in *Interp) indexSet(t *gt.T, v Val) *RunErr {
	if t.NoObj {
		return &RunErr{Msg: "index expression without object", Node: t, Script: in.Name}
	}
	base, ok := in.Get(t.S)
	if !ok {
		return in.errAt(t, "%s not found", t.S)
	}
	cur := base.V
	for j, ix := range t.Kids {
		k, err := in.eval(ix)
		if err != nil {
			return err
		}
		if err := in.need(k, ix); err != nil {
			return err
		}
		last := j == len(t.Kids)-1
		switch c := cur.(type) {
		case map[string]any:
			s, ok := k.V.(string)
			if !ok {
				return in.errAt(ix, "map key must be a string")
			}
			if last {
				c[s] = v.V
				return nil
			}
			nx, has := c[s]
			if !has {
				return in.errAt(ix, "key not found")
			}
			cur = nx
		case []any:
			n, ok := k.V.(int64)
			if !ok {
				return in.errAt(ix, "list index must be an integer")
			}
			i, ok := normIndex(n, len(c))
			if !ok {
				return in.errAt(ix, "list index out of range")
			}
			if last {
				c[i] = v.V
				return nil
			}
			cur = c[i]
		default:
			return in.errAt(ix, "cannot index %s", TypeOf(cur))
		}
	}
	return nil
}

func (in *Interp) slice(t *gt.T) (Val, *RunErr) {
	obj, err := in.eval(t.Kids[0])
	if err != nil {
		return Void, err
	}
	if err := in.need(obj, t.Kids[0]); err != nil {
		return Void, err
	}
	var bv [3]Val
	var present [3]bool
	for i, b := range []*gt.T{t.Start, t.End, t.Step} {
		if b == nil {
			continue
		}
		v, err := in.eval(b)
		if err != nil {
			return Void, err
		}
		if err := in.need(v, b); err != nil {
			return Void, err
		}
		bv[i], present[i] = v, true
	}
	if obj.T != TStr && obj.T != TList {
		return Void, in.errAt(t, "%s cannot be sliced", obj.T)
	}
	var ip [3]*int64
	for _, i := range []int{2, 0, 1} {
		if !present[i] {
			continue
		}
		switch x := bv[i].V.(type) {
		case int64:
			c := x
			ip[i] = &c
		case nil:
			// Python reads None as "omitted"; the documents are silent.
			unspec("nil slice bound")
		default:
			return Void, in.errAt([]*gt.T{t.Start, t.End, t.Step}[i], "slice bound must be an integer, got %s", bv[i].T)
		}
	}
	step := int64(1)
	if ip[2] != nil {
		step = *ip[2]
		if step == 0 {
			return Void, in.errAt(t.Step, "slice step must not be zero")
		}
	}
	switch x := obj.V.(type) {
	case string:
		idx := SliceIndices(len(x), ip[0], ip[1], step)
		b := make([]byte, len(idx))
		for i, j := range idx {
			b[i] = x[j]
		}
		return Val{string(b), TStr}, nil
	case []any:
		idx := SliceIndices(len(x), ip[0], ip[1], step)
		out := make([]any, len(idx))
		for i, j := range idx {
			out[i] = x[j]
		}
		return Val{out, TList}, nil
	}
	panic("unreachable")
}

func compoundOp(op string) string { return strings.TrimSuffix(op, "=") }

func (in *Interp) assign(t *gt.T) (Val, *RunErr) {
	in.tick()
	if in.Prog.V2 {
		return in.assignV2(t)
	}
	if len(t.LHS) != 1 || len(t.RHS) != 1 {
		return Void, in.errAt(t, "multiple assignment is not supported")
	}
	r, err := in.eval(t.RHS[0])
	if err != nil {
		return Void, err
	}
	l := t.LHS[0]
	switch l.K {
	case gt.KIdent:
		if t.Op == "=" {
			in.Set(l.S, r)
			return r, nil
		}
		cur, ok := in.Get(l.S)
		if !ok {
			unspec("compound assignment to an undefined name")
		}
		if r.T == TVoid || cur.T == TVoid {
			unspec("compound assignment with void")
		}
		v, msg := Arith(compoundOp(t.Op), cur, r)
		if msg != "" {
			return Void, in.errAt(t, "%s", msg)
		}
		in.Set(l.S, v)
		return v, nil
	case gt.KIndex:
		if r.T == TVoid {
			unspec("void stored through an index")
		}
		if t.Op == "=" {
			if err := in.indexSet(l, r); err != nil {
				return Void, err
			}
			return r, nil
		}
		cur, err := in.indexWalk(l, false)
		if err != nil {
			return Void, err
		}
		v, msg := Arith(compoundOp(t.Op), cur, r)
		if msg != "" {
			return Void, in.errAt(t, "%s", msg)
		}
		if err := in.indexSet(l, v); err != nil {
			return Void, err
		}
		return v, nil
	}
	unspec("assignment to " + l.K.String())
	return Void, nil
}

func (in *Interp) assignV2(t *gt.T) (Val, *RunErr) {
	var vals []Val
	for _, e := range t.RHS {
		var v Val
		var err *RunErr
		var multi []Val
		if e.K == gt.KCall {
			v, multi, err = in.callMulti(e)
		} else {
			v, err = in.eval(e)
		}
		if err != nil {
			return Void, err
		}
		if multi != nil {
			if len(t.LHS) == 1 {
				return Void, in.errAt(e, "multiple return values")
			}
			vals = append(vals, multi...)
			continue
		}
		if noValue(v) {
			return Void, in.errAt(e, "no value")
		}
		vals = append(vals, v)
	}
	if len(vals) != len(t.LHS) {
		return Void, in.errAt(t, "assignment count mismatch")
	}
	for i, l := range t.LHS {
		v := vals[i]
		if t.Op != "=" {
			if len(vals) != 1 {
				return Void, in.errAt(t, "compound assignment needs one value")
			}
			cur, err := in.eval(l)
			if err != nil {
				return Void, err
			}
			if noValue(cur) {
				return Void, in.errAt(l, "no value")
			}
			nv, msg := Arith(compoundOp(t.Op), cur, v)
			if msg != "" {
				return Void, in.errAt(t, "%s", msg)
			}
			v = nv
		}
		switch l.K {
		case gt.KIdent:
			in.Set(l.S, v)
		case gt.KIndex:
			if err := in.indexSet(l, v); err != nil {
				return Void, err
			}
		default:
			return Void, in.errAt(l, "cannot assign to %s", l.K)
		}
	}
	return Void, nil
}

// MultiBuiltin is implemented by model functions that return several values.
var MultiResults = map[string]func(in *Interp, call *gt.T) ([]Val, *RunErr){}

func (in *Interp) callMulti(e *gt.T) (Val, []Val, *RunErr) {
	if m, ok := MultiResults[e.S]; ok {
		in.tick()
		vs, err := m(in, e)
		return Void, vs, err
	}
	v, err := in.eval(e)
	return v, nil, err
}

// Runes splits a string the way for-in iterates it.
func Runes(s string) []string {
	var out []string
	for _, r := range s {
		out = append(out, string(r))
	}
	_ = utf8.RuneError
	return out
}
