package drive

import (
	"fmt"
	"io"
	"os"
	"strings"
	"sync"

	"github.com/GuanceCloud/platypus/pkg/ast"
	"github.com/GuanceCloud/platypus/pkg/errchain"
	"github.com/GuanceCloud/platypus/pkg/parser"
)

// stderr watcher: os.Stderr is replaced once per process by a scratch file;
// after each observed call the file offset tells whether the code under
// observation wrote to it (the parser's internal recover dumps "parser
// panic: ..." there). The Go runtime's own fatal messages go to fd 2
// directly and are not affected.
var (
	watchOnce sync.Once
	watchFile *os.File
	watchOff  int64
)

func watchStderr() {
	watchOnce.Do(func() {
		f, err := os.CreateTemp("", "verif-stderr")
		if err != nil {
			return
		}
		os.Remove(f.Name())
		watchFile = f
		os.Stderr = f
	})
}

// stderrDelta returns what was written to os.Stderr since the last call.
func stderrDelta() string {
	if watchFile == nil {
		return ""
	}
	off, err := watchFile.Seek(0, io.SeekCurrent)
	if err != nil || off == watchOff {
		return ""
	}
	n := off - watchOff
	if n > 1<<16 {
		n = 1 << 16
	}
	buf := make([]byte, n)
	watchFile.ReadAt(buf, watchOff)
	watchOff = off
	if off > 64<<20 {
		watchFile.Truncate(0)
		watchFile.Seek(0, io.SeekStart)
		watchOff = 0
	}
	return string(buf)
}

// ParseObs is everything observable about one ParsePipeline call.
type ParseObs struct {
	Stmts  ast.Stmts
	Err    error
	Panic  any
	Stderr string // non-empty: the parser recovered an internal panic
}

// Parse calls the real parser under observation.
func Parse(name, text string) (o ParseObs) {
	Init()
	watchStderr()
	func() {
		defer func() { o.Panic = recover() }()
		o.Stmts, o.Err = parser.ParsePipeline(name, text)
	}()
	o.Stderr = stderrDelta()
	return
}

// RefLnCol is the reference line/column of a byte offset: lines are
// separated by '\n', columns are 1-based byte columns.
func RefLnCol(text string, pos int) (ln, col int) {
	ln, col = 1, 1
	for i := 0; i < pos && i < len(text); i++ {
		if text[i] == '\n' {
			ln++
			col = 1
		} else {
			col++
		}
	}
	return
}

// CheckPosition validates one error position against the source text.
func CheckPosition(p errchain.Position, file, text string) string {
	switch {
	case p.File != file:
		return fmt.Sprintf("position names file %q, expected %q", p.File, file)
	case p.Pos < 0 || p.Pos > len(text):
		return fmt.Sprintf("offset %d outside the source (length %d); ln=%d col=%d", p.Pos, len(text), p.Ln, p.Col)
	case p.Ln < 1 || p.Col < 1:
		return fmt.Sprintf("line/column %d:%d is not a position", p.Ln, p.Col)
	}
	if ln, col := RefLnCol(text, p.Pos); ln != p.Ln || col != p.Col {
		return fmt.Sprintf("offset %d is line %d column %d, but the error says %d:%d", p.Pos, ln, col, p.Ln, p.Col)
	}
	return ""
}

// CheckParseError validates the shape of a parse error: a PlError with
// exactly one position inside the source. It returns "" when well-formed.
func CheckParseError(err error, file, text string) string {
	pe, ok := err.(*errchain.PlError)
	if !ok || pe == nil {
		return fmt.Sprintf("error is %T (%v), not a positioned *errchain.PlError", err, err)
	}
	if len(pe.PosChain) != 1 {
		return fmt.Sprintf("parse error carries %d positions", len(pe.PosChain))
	}
	if strings.TrimSpace(pe.Err) == "" {
		return "parse error has an empty message"
	}
	return CheckPosition(pe.PosChain[0], file, text)
}

// LexItem is one token of the exported lexer's stream.
type LexItem struct {
	Typ int
	Pos int
	Val string
	Err bool
	EOF bool
}

// LexAll runs the exported lexer over text until EOF, the first ERROR or
// max items.
func LexAll(text string, max int) (items []LexItem, pan any) {
	Init()
	defer func() { pan = recover() }()
	l := parser.Lex(text)
	var it parser.Item
	for len(items) < max {
		l.NextItem(&it)
		li := LexItem{Typ: int(it.Typ), Pos: int(it.Pos), Val: it.Val, Err: it.Typ == parser.ERROR, EOF: it.Typ == parser.EOF}
		items = append(items, li)
		if li.Err || li.EOF {
			break
		}
	}
	return
}
