// Package gen holds the seeded generators: programs, inputs, histories and
// configurations. Every generator draws only from the *rand.Rand it is given.
package gen

import (
	"fmt"
	"math"
	"math/rand"
	"strings"

	"verif/internal/gt"
)

var BinOps = []string{"||", "&&", "in", "==", "!=", "<", "<=", ">", ">=", "+", "-", "*", "/", "%"}
var UnaryOps = []string{"-", "+", "!"}
var AssignOps = []string{"=", "+=", "-=", "*=", "/=", "%="}

// Syntax generates arbitrary (type-blind) syntax trees over the whole
// grammar. It guarantees only what the grammar demands.
type Syntax struct {
	R *rand.Rand
	// Names to draw identifiers and call names from.
	Idents []string
	Calls  []string
	// NoZeroDiv avoids literal zero divisors (rejected by the parser).
	NoZeroDiv bool
	// NoObjIndex allows the object-less `.[i]` form.
	NoObjIndex bool
	// Attr allows attribute expressions.
	Attr bool
	// Strings to draw string literals from.
	// HexSpell: some integer literals are written in hexadecimal
	HexSpell bool
	Strs     []string
	// CallGen, when set, produces every call expression.
	CallGen func(d int) *gt.T
	// BoundedLoops: three-clause loops count a private counter up to a small
	// bound (bodies cannot name it), so every generated program terminates.
	BoundedLoops bool
	// StrMapKeys: map keys are never literals of a non-string kind (the
	// check passes reject those).
	StrMapKeys bool
	// NoMulti suppresses multi-assignment statements.
	NoMulti bool
	loopSeq int
}

func NewSyntax(r *rand.Rand) *Syntax {
	return &Syntax{R: r,
		Idents:    []string{"a", "b", "c", "x", "y", "abc_1", "_", "_u", "naïve", "if x", "1abc", "for"},
		Calls:     []string{"f", "g", "len", "p"},
		NoZeroDiv: true, NoObjIndex: true, Attr: true,
		Strs: []string{"", "a", "héllo", "x y", "a\"b", "it's", "\n", "\\", "#nocomment", "{", "1"},
	}
}

func (s *Syntax) pick(l []string) string { return l[s.R.Intn(len(l))] }

func (s *Syntax) intLit() *gt.T {
	r := s.R
	switch r.Intn(8) {
	case 0:
		return gt.Int(0)
	case 1:
		return gt.Int(int64(r.Intn(10)))
	case 2:
		return gt.Int(-int64(1 + r.Intn(9)))
	case 3:
		return gt.Int(math.MaxInt64)
	case 4:
		return gt.Int(-math.MaxInt64)
	case 5:
		return gt.Int(int64(1) << uint(r.Intn(62)))
	case 6:
		if s.HexSpell {
			// hexadecimal spellings, in particular ones whose last digit is e / E
			v := []int64{0x1e, 0xfe, 0xee, 0xabcde, 0x7E, 0xE, 0x10, 0xdead, 0x1e2e}[r.Intn(9)]
			sp := fmt.Sprintf("%x", v)
			if r.Intn(2) == 0 {
				sp = strings.ToUpper(sp)
			}
			return &gt.T{K: gt.KInt, I: v, Spell: []string{"0x", "0X"}[r.Intn(2)] + sp}
		}
		fallthrough
	default:
		return gt.Int(int64(r.Intn(1000)))
	}
}

func (s *Syntax) floatLit() *gt.T {
	r := s.R
	switch r.Intn(8) {
	case 0:
		return gt.Float(0)
	case 1:
		return gt.Float(0.5)
	case 2:
		return gt.Float(-2.25)
	case 3:
		return gt.Float(1e308)
	case 4:
		return gt.Float(5e-324)
	case 5:
		return gt.Float(math.Inf(1))
	case 6:
		return gt.Float(math.NaN())
	default:
		return gt.Float(float64(r.Intn(1000)) / 8)
	}
}

// Literal returns a basic literal.
func (s *Syntax) Literal() *gt.T {
	switch s.R.Intn(6) {
	case 0:
		return s.intLit()
	case 1:
		return s.floatLit()
	case 2:
		return gt.Bool(s.R.Intn(2) == 0)
	case 3:
		return gt.Nil()
	default:
		return gt.Str(s.pick(s.Strs))
	}
}

func (s *Syntax) nonNegLiteral() *gt.T {
	for {
		l := s.Literal()
		if gt.Prec(l) >= 8 {
			return l
		}
	}
}

func (s *Syntax) ident() *gt.T { return gt.Ident(s.pick(s.Idents)) }

func (s *Syntax) indexExpr(d int) *gt.T {
	n := 1 + s.R.Intn(3)
	idx := make([]*gt.T, n)
	for i := range idx {
		idx[i] = s.Expr(d - 1)
	}
	t := gt.Index(s.pick(s.Idents), idx...)
	if s.NoObjIndex && s.R.Intn(8) == 0 {
		t.S = ""
		t.NoObj = true
		t.Kids = t.Kids[:1]
	}
	return t
}

func (s *Syntax) attrExpr(d int) *gt.T {
	part := func(first bool) *gt.T {
		if s.R.Intn(3) == 0 && d > 0 {
			ix := s.indexExpr(d)
			if ix.NoObj {
				ix.NoObj = false
				ix.S = s.pick(s.Idents)
			}
			return ix
		}
		return s.ident()
	}
	t := gt.Attr(part(true), part(false))
	for n := s.R.Intn(3); n > 0; n-- {
		t = gt.Attr(t, part(false))
	}
	return t
}

// SliceForm builds one of the 24 syntactic slice forms: bit0 start present,
// bit1 end present, bit2 second colon, bit3 step present (needs bit2).
func SliceForm(obj *gt.T, form int, start, end, step *gt.T) *gt.T {
	t := &gt.T{K: gt.KSlice, Kids: []*gt.T{obj}}
	if form&1 != 0 {
		t.Start = start
	}
	if form&2 != 0 {
		t.End = end
	}
	if form&4 != 0 {
		t.Colon2 = true
		if form&8 != 0 {
			t.Step = step
		}
	}
	return t
}

// SliceForms lists the 12 valid (start?, end?, colon2?, step?) combinations;
// with the two object classes of the grammar (identifier / slice_expr_start)
// that makes the 24 productions.
var SliceForms = []int{0, 1, 2, 3, 4, 5, 6, 7, 12, 13, 14, 15}

func (s *Syntax) sliceBound(d int) *gt.T {
	for {
		e := s.Expr(d - 1)
		// the parser rejects float/list/string literals as bounds
		if e.K == gt.KFloat || e.K == gt.KList || e.K == gt.KStr {
			continue
		}
		return e
	}
}

func (s *Syntax) sliceObj(d int) *gt.T {
	switch s.R.Intn(5) {
	case 0:
		return s.nonNegLiteral()
	case 1:
		if d > 0 {
			return s.listLit(d - 1)
		}
	case 2:
		if d > 0 {
			return s.sliceExpr(d - 1)
		}
	case 3:
		if d > 0 {
			return s.callExpr(d - 1)
		}
	}
	return s.ident()
}

func (s *Syntax) sliceExpr(d int) *gt.T {
	form := SliceForms[s.R.Intn(len(SliceForms))]
	return SliceForm(s.sliceObj(d), form, s.sliceBound(d), s.sliceBound(d), s.sliceBound(d))
}

func (s *Syntax) listLit(d int) *gt.T {
	n := s.R.Intn(4)
	e := make([]*gt.T, n)
	for i := range e {
		e[i] = s.Expr(d - 1)
	}
	return gt.List(e...)
}

func (s *Syntax) mapLit(d int) *gt.T {
	n := s.R.Intn(3)
	e := make([]*gt.T, 0, 2*n)
	for i := 0; i < n; i++ {
		k := s.Expr(d - 1)
		if s.StrMapKeys {
			for k.K == gt.KInt || k.K == gt.KFloat || k.K == gt.KBool || k.K == gt.KNil || k.K == gt.KList || k.K == gt.KMap {
				k = gt.Str(s.pick(s.Strs))
			}
		}
		e = append(e, k, s.Expr(d-1))
	}
	return gt.Map(e...)
}

func (s *Syntax) callExpr(d int) *gt.T {
	if s.CallGen != nil {
		return s.CallGen(d)
	}
	n := s.R.Intn(4)
	a := make([]*gt.T, n)
	for i := range a {
		if s.R.Intn(4) == 0 {
			a[i] = gt.Named(s.pick([]string{"a", "b", "key", "_u"}), s.Expr(d-1))
		} else {
			a[i] = s.Expr(d - 1)
		}
	}
	return gt.Call(s.pick(s.Calls), a...)
}

func isZeroLit(t *gt.T) bool {
	return (t.K == gt.KInt && t.I == 0) || (t.K == gt.KFloat && t.F == 0)
}

// Expr returns an expression tree of depth at most d, without the
// parentheses grouping requires (use gt.Parenthesize before printing).
func (s *Syntax) Expr(d int) *gt.T {
	r := s.R
	if d <= 0 {
		if r.Intn(3) == 0 {
			return s.ident()
		}
		return s.Literal()
	}
	switch r.Intn(16) {
	case 0:
		return s.Literal()
	case 1:
		return s.ident()
	case 2:
		return s.listLit(d)
	case 3:
		return s.mapLit(d)
	case 4:
		return gt.Paren(s.Expr(d - 1))
	case 5:
		op := s.pick(UnaryOps)
		e := s.Expr(d - 1)
		if op != "!" && (e.K == gt.KInt || e.K == gt.KFloat) {
			// a sign in front of a numeric literal is folded by the parser:
			// generate the folded form
			if op == "-" {
				if e.K == gt.KInt {
					return gt.Int(-e.I)
				}
				return gt.Float(-e.F)
			}
			return e
		}
		return gt.Unary(op, e)
	case 6:
		return s.indexExpr(d)
	case 7:
		if s.Attr {
			return s.attrExpr(d)
		}
		return s.indexExpr(d)
	case 8:
		return s.sliceExpr(d)
	case 9:
		return s.callExpr(d)
	default:
		op := s.pick(BinOps)
		l, rr := s.Expr(d-1), s.Expr(d-1)
		if s.NoZeroDiv && (op == "/" || op == "%") && isZeroLit(rr) {
			rr = gt.Int(7)
		}
		return gt.Bin(op, l, rr)
	}
}

// Stmt returns a statement of nesting depth at most d.
func (s *Syntax) Stmt(d, ed int, inLoop bool) *gt.T {
	r := s.R
	k := r.Intn(12)
	if d <= 0 && k >= 6 && k <= 9 {
		k = 0
	}
	switch k {
	case 0, 1:
		return s.Expr(ed)
	case 2, 3:
		return gt.Assign("=", s.target(ed), s.Expr(ed))
	case 4:
		return gt.Assign(s.pick(AssignOps[1:]), s.target(ed), s.Expr(ed))
	case 5:
		if s.NoMulti {
			return s.Expr(ed)
		}
		n := 2 + r.Intn(2)
		l := make([]*gt.T, n)
		rr := make([]*gt.T, 1+r.Intn(3))
		for i := range l {
			l[i] = s.target(ed)
		}
		for i := range rr {
			rr[i] = s.Expr(ed)
		}
		return gt.MultiAssign(l, rr)
	case 6, 7:
		t := gt.If(s.Expr(ed), s.Block(d-1, ed, inLoop)...)
		for n := r.Intn(3); n > 0; n-- {
			t.Elif(s.Expr(ed), s.Block(d-1, ed, inLoop)...)
		}
		if r.Intn(2) == 0 {
			t.ElseDo(s.Block(d-1, ed, inLoop)...)
		}
		return t
	case 8:
		if s.BoundedLoops {
			s.loopSeq++
			ctr := gt.Ident("zz" + string(rune('a'+s.loopSeq%26)) + string(rune('a'+s.loopSeq/26%26)))
			return gt.For(gt.Assign("=", ctr, gt.Int(0)), gt.Bin("<", gt.Clone(ctr), gt.Int(int64(r.Intn(4)))),
				gt.Assign("=", gt.Clone(ctr), gt.Bin("+", gt.Clone(ctr), gt.Int(1))), s.Block(d-1, ed, true)...)
		}
		var init, cond, loop *gt.T
		shape := r.Intn(8)
		if shape&1 != 0 {
			init = s.forElem(ed)
		}
		if shape&2 != 0 {
			cond = s.Expr(ed)
		}
		if shape&4 != 0 {
			loop = s.forElem(ed)
		}
		return gt.For(init, cond, loop, s.Block(d-1, ed, true)...)
	case 9:
		it := s.Expr(ed)
		for it.K == gt.KBool || it.K == gt.KNil || it.K == gt.KInt || it.K == gt.KFloat {
			it = s.Expr(ed) // rejected by the parser as "not iterable"
		}
		return gt.ForIn(s.pick(s.Idents), it, s.Block(d-1, ed, true)...)
	case 10:
		if inLoop {
			if r.Intn(2) == 0 {
				return gt.Break()
			}
			return gt.Continue()
		}
		return s.Expr(ed)
	}
	return s.Expr(ed)
}

func (s *Syntax) forElem(ed int) *gt.T {
	if s.R.Intn(2) == 0 {
		return gt.Assign(s.pick(AssignOps), s.target(ed), s.Expr(ed))
	}
	return s.Expr(ed)
}

func (s *Syntax) target(ed int) *gt.T {
	switch s.R.Intn(6) {
	case 0:
		return s.indexExpr(ed)
	case 1:
		return s.Expr(ed)
	}
	return s.ident()
}

// Block returns 0..3 statements.
func (s *Syntax) Block(d, ed int, inLoop bool) []*gt.T {
	n := s.R.Intn(4)
	out := make([]*gt.T, n)
	for i := range out {
		out[i] = s.Stmt(d, ed, inLoop)
	}
	return out
}

// Program returns 1..n statements.
func (s *Syntax) Program(n, d, ed int) []*gt.T {
	k := 1 + s.R.Intn(n)
	out := make([]*gt.T, k)
	for i := range out {
		out[i] = s.Stmt(d, ed, false)
	}
	return out
}
