package main

import (
	"fmt"
	"math"
	"regexp"
	"strings"
	"time"

	"github.com/GuanceCloud/platypus/pkg/inimpl/guancecloud/input"

	"verif/internal/drive"
	"verif/internal/gen"
	"verif/internal/gt"
	"verif/internal/mon"
)

// C01: running a loaded script never crashes the host process.

type c01 struct{}

func init() {
	register(c01{})
	mon.Assumptions["C01"] = []string{
		"this monitor has no opinion about values: it observes panics, process deaths and the shape of returned errors only",
		"programs are generated terminating by construction; a run stopped by the step budget gives no verdict for that case",
		"host-supplied builtins other than the shipped ones and values a script cannot construct are out of reach",
	}
}

func (c01) ID() string             { return "C01" }
func (c01) DeathIsViolation() bool { return true }
func (c01) HangIsViolation() bool  { return false }
func (c01) Rule() string {
	return "type-blind programs over the whole grammar (every expression form in every operand position, extreme integers, every slice form with hostile bounds and steps, object-less index expressions, attribute expressions, compound assignments on every target kind) in which every call is a shipped builtin with an argument shape its checker accepts (or a probe), loaded with the real loader together with a sibling script and, if accepted, run on two hostile points (all InitPt field types plus unsupported ones, NaN, huge uint64, colliding keys); builtin-shapes (exhaustive): every builtin shape x every subject kind. Refuted by a panic, a process death, or a returned error without a position inside the script that was running. Non-trivial = accepted, at least 3 nodes executed and a slice / index / builtin / compound assignment / loop reached. Distinct = distinct (program, point)."
}

// ways of building a value from which a cycle is reachable (w is what gets used)
var c01Cycles = []string{
	"a = [1, 2]\na[0] = a\nw = a",
	"a = [1, 2]\na[0] = a\nw = [a]",
	"a = [1, 2]\na[1] = a\nw = {\"outer\": a}",
	"m = {\"k\": 1}\nm[\"k\"] = m\nw = [0, {\"in\": m}]",
	"a = [0]\nb = [a]\na[0] = b\nw = [b, a]",
	"a = [[0]]\na[0][0] = a\nw = a[0]",
	"m = {\"x\": [1]}\nm[\"x\"][0] = m\nw = m[\"x\"]",
	"a = [1, 2]\na[0] = a\nw = [[[[a]]]]",
}
var c01CycleUses = []string{"strfmt(x, \"%v\", w)", "printf(\"%v\\n\", w)", "strfmt(x, \"%d %s\", 1, w)", "add_key(x, w)", "set_tag(t9, w)", "p(w == w, w in w, len(w))",
	"p(w)", "for e in w { p(len(e)) }", "x = w\ntrim(x)", "x = w\nuppercase(x)", "x = w\ncast(x, \"str\")", "printf(\"%s %v %q\\n\", w, w, w)",
	"x = w\ncast(x, \"int\")", "x = w\ncast(x, \"bool\")", "x = w\ncast(x, \"float\")", "x = w\ndatetime(x, \"s\", \"RFC3339\")", "x = w\nurl_decode(x)",
	"x = w\nsql_cover(x)", "x = w\ngrok(x, \"%{WORD:q}\")", "x = w\nxml(x, \"/a\", q)", "x = w\ndefault_time(x)", "x = w\nreplace(x, \"a\", \"b\")",
	"x = w\nset_measurement(x)", "x = w\nq = load_json(x)", "x = w\nrename(y, x)", "x = w\nset_tag(x)", "x = w\nadd_key(x)", "if w { p(1) }", "p(!w, w + 1)", "p(w[0:1], w[0])",
	// two DISTINCT values of the same cyclic shape (w2 is built like w, see c01Twin)
	"p(w == w2)", "p(w != w2, w2 == w)", "p(w in [w2], [w] == [w2])", "p({\"k\": w} == {\"k\": w2}, [0, w2] != [0, w])", "if w == w2 { p(1) }", "x = w == w2\nadd_key(x)",
	"for e in [w2] { p(e == w, w == e) }", "w[0] = w2\nw2[0] = w\np(w == w2, w2 != w)"}

var c01TwinRe = regexp.MustCompile(`\b(a|b|m|w)\b`)

// c01Twin repeats a construction under other variable names (a2, b2, m2, w2).
func c01Twin(text string) string { return c01TwinRe.ReplaceAllString(text, "${1}2") }

var c01Subjects = []string{"nil", "true", "7", "-9223372036854775807", "2.5", "nan", `""`, `"text"`, `"héllo wörld"`, `"[1,2"`, `"%41%zz"`,
	`"<a id='1'><b>x</b><b>y</b></a>"`, `"2021-05-27 06:54:14.760 UTC"`, `"select * from t where id = 1"`, "[1, \"a\", [2]]", `{"k": 1}`, "[]", "void()", `"caf\xc3"`, `"\xe4\xb8"`}

func (c01) Plan(tier string, seed int64) []mon.Workload {
	n := int64(4000)
	if tier == "thorough" {
		n = 200000
	}
	return []mon.Workload{
		{Name: "programs", N: n},
		{Name: "builtin-shapes", N: int64(len(gen.Shapes) * len(c01Subjects) * 4), Exhaustive: true},
		{Name: "self-containing", N: int64(6 + len(c01Cycles)*len(c01CycleUses))},
		{Name: "store-consume", N: int64(len(c01Stores) * len(c01StoreVals) * len(c01Consumers)), Exhaustive: true},
		{Name: "malformed-table", N: int64(len(c01Holes) * len(c08BadV1)), Exhaustive: true},
		{Name: "malformed-slots", N: n / 40},
		{Name: "time-zones", N: int64(len(c12Times) * len(gen.Zones)), Exhaustive: true},
		{Name: "extreme-index", N: int64(len(c01IdxObjs) * len(c01IdxVals) * len(c01IdxUses)), Exhaustive: true},
		{Name: "failing-callee", N: int64(7 * 3 * len(c01CalleeLibs) * 2), Exhaustive: true},
		{Name: "rebinding-index", N: int64(len(c01RebindObjs) * len(c01RebindNew) * len(c01RebindUses)), Exhaustive: true},
		{Name: "many-locals", N: manyLocalsN(), Exhaustive: true},
		{Name: "deep-run", N: int64(len(c01DeepKinds) * len(c01DeepLevels)), Exhaustive: true},
	}
}

// malformed-*: the property quantifies over scripts ACCEPTED at load time,
// whatever they contain. These workloads offer the loader calls with a wrong
// argument count or kind in every syntactic position; a correct loader
// rejects all of them (that is C08's business, not checked here), but any
// that it lets through is run, because builtins that trust their checker are
// where an accepted malformed call turns into a crash.
var c01Holes = []string{"x = %s", "%s", "if %s {}", "if 0 {} elif %s {}", "for ; %s; { break }", "for %s; ; { break }", "for ; ; %s { break }", "for e in %s {}",
	"x = [%s]", "x = {\"k\": %s}", "x = a[%s]", "x = a[%s:]", "x = a[:%s]", "x = a[::%s]", "x = a[1:2:%s]", "x = \"abcdef\"[0:3:%s]", "x = %s[0]", "x = %s[1:]",
	"x = len(%s)", "add_key(k, %s)", "x += %s", "x = -%s", "x = 1 + %s", "x = %s + 1", "x = !%s", "x = (%s)", "x = %s in a", "x = 1 in %s", "a[%s] = 1",
	"a[0][%s] = 1", "if 1 { for e in [1] { x = a[::%s] } }", "x = a[%s][::%s]", "x = 1 == %s", "x = 1 && %s"}

func (k c01) runMalformed(c *mon.Ctx, workload string, i int64) {
	var texts []string
	var label string
	if workload == "malformed-table" {
		hole := c01Holes[int(i)%len(c01Holes)]
		off := c08BadV1[int(i)/len(c01Holes)]
		label = off[0]
		texts = []string{"a = [1, 2, 3]\n" + strings.ReplaceAll(hole, "%s", off[1]) + "\np(x)\n"}
	} else {
		base := gt.ParenthesizeStmts(c08{}.base(c, false))
		for _, sl := range gt.ExprSlots(base) {
			orig := sl.Get()
			off := c08BadV1[c.R.Intn(len(c08BadV1))]
			sl.Set(c08Offender(off[1]))
			texts = append(texts, gt.Print(base, nil))
			sl.Set(orig)
		}
	}
	for _, text := range texts {
		info := map[string]any{"main.p": text, "offender": label}
		var loadPanic any
		var script *scriptT
		func() {
			defer func() { loadPanic = recover() }()
			ok, _ := drive.LoadV1(map[string]string{"main.p": text})
			script = ok["main.p"]
		}()
		c.Eval(1)
		c.Nontrivial(text)
		if loadPanic != nil {
			c.Violate("load-panic", fmt.Sprintf("loading panicked: %v\n%s", loadPanic, text), info)
			return
		}
		if script == nil {
			c.Count("malformed_rejected_at_load", 1)
			continue
		}
		c.Count("malformed_accepted_and_run", 1)
		for v := 0; v < 2; v++ {
			pt, desc := hostilePoint(c, v)
			rs := &drive.RunState{Budget: 60000}
			var ro drive.Outcome
			drive.CaptureStdout(func() { ro = drive.RunV1(script, pt, rs) })
			c.Eval(1)
			if ro.Panic != nil {
				info["point"] = desc
				c.Violate("run-panic:"+panicSite(ro.Stack), fmt.Sprintf("a script accepted at load time panicked when run: %v\n%s\n--- main.p\n%s--- point: %s", ro.Panic, firstN(ro.Stack, 24), text, desc), info)
				return
			}
		}
	}
}

// store-consume: a builtin writes a value into the point, then the key is
// read back through every kind of consumer (nothing here is a script
// variable, so every read goes through the point's key index).
var c01Stores = []string{"add_key(k, %s)", "v = %s\nadd_key(v)\nrename(k, v)", "set_tag(k, \"x\")\nadd_key(k, %s)", "add_key(k, %s)\nset_tag(k)",
	"add_key(k, %s)\ncast(k, \"str\")", "add_key(k, %s)\ncast(k, \"int\")", "add_key(k, %s)\ntrim(k)", "add_key(k, %s)\nstrfmt(k, \"%%v\", k)",
	"add_key(k, %s)\nrename(k2, k)\nrename(k, k2)", "add_key(k, \"was a string\")\nadd_key(v2, %s)\nrename(k, v2)", "add_key(k, 41)\nadd_key(v2, %s)\nrename(k, v2)", "set_tag(k, \"tag\")\nadd_key(v2, %s)\nset_tag(v2)\nrename(k, v2)", "add_key(k, nil)\nset_tag(k, \"v\")\nadd_key(j, %s)", "add_key(k, %s)\nuppercase(k)", "add_key(k, %s)\ndrop_key(k)\nadd_key(k)"}
var c01StoreVals = []string{"nil", "true", "7", "2.5", "\"text\"", "\"\"", "[1, \"a\", [2]]", "[]", "{\"a\": 1}", "{}", "void()", "-false", "\"[1,2]\"", "\"x\\xff\"", "\"世\\xe4\\xb8\""}
var c01Consumers = []string{"p(len(k))", "p(k[0:1])", "p(k[::-1])", "p(k[0])", "for e in k { p(e) }", "p(k + 1)", "p(k + \"s\")", "p(1 in k)", "p(\"a\" in k)",
	"p(!k, -k)", "p(k == k, k < 1)", "x = k\nx[0] = 1\np(x)", "k[0] = 1", "k += 1", "if k { p(1) }", "trim(k)", "cast(k, \"float\")", "uppercase(k)",
	"strfmt(z, \"%%v %%d %%s\", k, k, k)", "set_tag(k)", "rename(z, k)\np(z)", "default_time(k)", "xml(k, \"/a\", z)", "p(load_json(k))", "replace(k, \"a\", \"b\")",
	"url_decode(k)", "sql_cover(k)", "datetime(k, \"s\", \"RFC3339\")", "grok(k, \"%%{WORD:w}\")", "p(get_key(k))", "set_measurement(k, true)", "printf(\"%%v\\n\", k)",
	"p([k, k], {\"q\": k})", "add_key(o, k)\np(o[0:1], len(o))"}

func hostilePoint(c *mon.Ctx, variant int) (*input.Point, string) {
	r := c.Sub(fmt.Sprint("pt", variant))
	vals := []any{nil, true, false, int64(0), int64(math.MaxInt64), int64(math.MinInt64), int(5), int8(-3), int32(7), uint(9), uint8(200), uint16(65535),
		uint32(1 << 31), uint64(math.MaxUint64), float32(1.5), float64(2.5), math.NaN(), math.Inf(-1), "", "text", "héllo", " 12 ", "%zz", "<a><b>1</b></a>", "caf\xc3", "x\xff", "\xe4\xb8",
		[]byte("bytes"), []any{int64(1), "x"}, map[string]any{"k": 1}, struct{ A int }{1}, time.Unix(5, 0), []string{"s"}, int16(-1), "2021-05-27 06:54:14.760 UTC"}
	fields := map[string]any{}
	tags := map[string]string{}
	desc := []string{}
	for _, k := range []string{"f1", "f2", "message", "v", "a", "", "_", "time"} {
		if r.Intn(3) != 0 {
			v := vals[r.Intn(len(vals))]
			fields[k] = v
			desc = append(desc, fmt.Sprintf("%s=%T(%v)", k, v, v))
		}
	}
	for _, k := range []string{"t1", "b", "f2", "w"} {
		if r.Intn(2) == 0 {
			tags[k] = []string{"", "tv", "3"}[r.Intn(3)]
			desc = append(desc, fmt.Sprintf("tag %s=%q", k, tags[k]))
		}
	}
	// extreme integers of every Go integer type (InitPt converts them to int64)
	fields["u63"] = uint64(1) << 63
	fields["imin"] = int64(math.MinInt64)
	fields["imax"] = int64(math.MaxInt64)
	fields["umax"] = uint64(math.MaxUint64)
	fields["fbig"] = float64(1e300)
	fields["i32"] = int32(math.MinInt32)
	fields["nan_f"] = math.NaN()
	fields["big_list"] = "[1,2,3]"
	pt := input.InitPt(&input.Point{}, "m", tags, fields, time.Unix(1700000000, 0))
	return pt, strings.Join(desc, " ")
}

// extreme-index (exhaustive): every container shape x every extreme integer
// (computed in the script or arriving from the point as int64 / uint64 /
// float) x every way an integer meets a container: index read / write /
// compound, nested, each slice bound and step, repetition and membership.
var c01IdxObjs = []string{"o = [1, 2, 3]", "o = \"héllo\"", "o = {\"k\": [1, 2]}", "o = []", "o = \"\"", "o = [[1], [2, [3]]]", "o = big_list"}
var c01IdxVals = []string{"-9223372036854775807 - 1", "9223372036854775807", "-9223372036854775807", "u63", "imin", "imax", "umax", "-4", "3", "2147483648", "-2147483649",
	"fbig", "0 - imax - 1", "imin + 0", "-(imin)", "imin * 1", "4294967296", "i32", "nan_f"}
var c01IdxUses = []string{"p(o[I])", "o[I] = 1", "o[I] += 1", "p(o[0][I])", "o[\"k\"][I] = 1", "p(o[I:])", "p(o[:I])", "p(o[::I])", "p(o[I:I:I])", "p(o[1][1][I])", "x = o[I]\np(x)",
	"for e in o[I:] { p(e) }", "p(I in o)", "o[1][I] = 5", "p(o[I][I])", "p(o[-1:I:-1])"}

// deep-run (exhaustive): blocks nested 1..150 levels deep that are all
// ENTERED at run time (conditions hold, loops iterate), in five block mixes;
// each level assigns a variable and the innermost one unwinds by normal end,
// break, continue or a run-time error.
var c01DeepKinds = []string{"if", "forin", "for", "mixed", "mixed-error", "mixed-break"}
var c01DeepLevels = []int{1, 2, 7, 8, 9, 10, 15, 16, 17, 31, 33, 64, 65, 150}

func c01DeepRun(i int64) []*gt.T {
	kind := c01DeepKinds[int(i)%len(c01DeepKinds)]
	depth := c01DeepLevels[int(i)/len(c01DeepKinds)]
	var sb strings.Builder
	sb.WriteString("n = 0\n")
	for d := 0; d < depth; d++ {
		k := kind
		if strings.HasPrefix(kind, "mixed") {
			k = []string{"if", "forin", "for"}[d%3]
		}
		switch k {
		case "if":
			fmt.Fprintf(&sb, "if n == %d {\n", d)
		case "forin":
			fmt.Fprintf(&sb, "for e%d in [1, 2] {\n", d)
		default:
			fmt.Fprintf(&sb, "for i%d = 0; i%d < 2; i%d = i%d + 1 {\n", d, d, d, d)
		}
		fmt.Fprintf(&sb, "n = %d\nv%d = n\n", d+1, d)
	}
	switch kind {
	case "mixed-error":
		sb.WriteString("x = 1 / zero\n")
	case "mixed-break":
		sb.WriteString("p(n)\n")
	default:
		sb.WriteString("p(n)\n")
	}
	for d := depth - 1; d >= 0; d-- {
		if strings.HasPrefix(kind, "mixed") && d%3 != 0 || kind == "forin" || kind == "for" {
			sb.WriteString("break\n")
		}
		sb.WriteString("}\n")
	}
	sb.WriteString("p(\"end\", n)\n")
	o := drive.Parse("deep-run", sb.String())
	if o.Err != nil {
		panic("c01: deep-run program does not parse: " + o.Err.Error() + "\n" + sb.String())
	}
	l, err := gt.FromStmts(o.Stmts)
	if err != nil {
		panic(err)
	}
	return gt.CloneStmts(l)
}

func c01ExtremeIndex(i int64) []*gt.T {
	use := c01IdxUses[int(i)%len(c01IdxUses)]
	i /= int64(len(c01IdxUses))
	val := c01IdxVals[int(i)%len(c01IdxVals)]
	obj := c01IdxObjs[int(i)/len(c01IdxVals)]
	text := obj + "\n" + strings.ReplaceAll(use, "I", "("+val+")") + "\np(\"after\")\n"
	o := drive.Parse("extreme-index", text)
	if o.Err != nil {
		panic("c01: extreme-index program does not parse: " + text + ": " + o.Err.Error())
	}
	l, err := gt.FromStmts(o.Stmts)
	if err != nil {
		panic(err)
	}
	return gt.CloneStmts(l)
}

// rebinding-index (exhaustive): an index or slice expression whose key
// re-binds the very variable being indexed (a named argument is an assignment
// inside an expression: `a[len(a = [0])] += 1`), as a read, a plain write and
// every compound write, at depth 1 and 2, with the new value shorter / of the
// other container kind / a scalar. Whatever the outcome, it is a value or a
// reported error.
var c01RebindObjs = []string{"[1, 2, 3]", "[[1, 2, 3], [4, 5, 6], [7, 8, 9]]", "{\"a\": 1, \"b\": [1, 2, 3]}", "\"abcdef\"", "[{\"k\": [1, 2]}, 5, 6]"}
var c01RebindNew = []string{"[0]", "[]", "{\"z\": 1}", "nil", "\"s\"", "7", "[[0]]", "{}"}
var c01RebindUses = []string{"a[len(a = N)] += 1", "a[len(a = N)] = 1", "p(a[len(a = N)])", "a[2][len(a = N)] *= 2", "a[len(a = N)][0] -= 1", "a[\"b\"][len(a = N)] /= 1", "a[\"b\"][len(a = N)] = 9",
	"p(a[len(a = N):])", "p(a[:len(a = N)])", "p(a[0:3:len(a = N)])", "a[1] += len(a = N)", "a[len(b = N)] %= 2", "a[0][\"k\"][len(a = N)] += 1", "x = a[len(a = N)] + a[0]", "a[len(a = N) + 1] += a[0]",
	"p(a[len(_ = N)])", "a[-len(a = N)] += 1", "for e in a {\n  a[len(a = N)] += 1\n}", "a[len(a = N)], a[0] = 1, 2"}

// failing-callee (exhaustive): use() of a script that fails at run time (at
// its top level, inside blocks, after writing the point) - or succeeds, or
// exit()s - called from 0..6 blocks deep in the caller, as a statement, as a
// value argument of a builtin that goes on after a failed argument, and as an
// assignment source, with statements after it at every level, once and in
// every iteration of a loop. The caller's blocks unwind whatever the callee did.
var c01CalleeLibs = []string{"w = [1]\ny = w[5]\n", "add_key(from_lib, 1)\nif true {\n  for e in [1] {\n    zero = 0\n    y = 1 / zero\n  }\n}\n", "add_key(from_lib, 1)\np(\"lib ok\")\n", "exit()\n", "for e in [1, 2] {\n  if e == 2 {\n    y = e[0]\n  }\n}\n"}

func c01FailingCallee(i int64) (main, lib []*gt.T) {
	twice := i%2 == 1
	i /= 2
	libText := c01CalleeLibs[int(i)%len(c01CalleeLibs)]
	i /= int64(len(c01CalleeLibs))
	form := int(i % 3)
	depth := int(i / 3)
	call := []string{"use(\"lib.p\")", "strfmt(z, \"%v|%v\", 1, use(\"lib.p\"))", "z = use(\"lib.p\")"}[form]
	body := call + "\np(\"after the call\")\n"
	if twice {
		body = "for n = 0; n < 2; n = n + 1 {\n" + call + "\np(\"after the call\", n)\n}\n"
	}
	for d := depth; d > 0; d-- {
		switch d % 3 {
		case 0:
			body = "if true {\n" + body + "p(\"leaving if\", " + fmt.Sprint(d) + ")\n}\n"
		case 1:
			body = fmt.Sprintf("for q%d = 0; q%d < 1; q%d = q%d + 1 {\n%sp(\"leaving for\", %d)\n}\n", d, d, d, d, body, d)
		default:
			body = fmt.Sprintf("for r%d in [1] {\n%sp(\"leaving for-in\", %d)\n}\n", d, body, d)
		}
	}
	conv := func(name, text string) []*gt.T {
		o := drive.Parse(name, text)
		if o.Err != nil {
			panic("c01: failing-callee script does not parse: " + text + ": " + o.Err.Error())
		}
		l, err := gt.FromStmts(o.Stmts)
		if err != nil {
			panic(err)
		}
		return gt.CloneStmts(l)
	}
	return conv("main.p", "a = 1\n"+body+"p(\"end of main\", a)\n"), conv("lib.p", libText)
}

func c01Rebinding(i int64) []*gt.T {
	use := c01RebindUses[int(i)%len(c01RebindUses)]
	i /= int64(len(c01RebindUses))
	nw := c01RebindNew[int(i)%len(c01RebindNew)]
	obj := c01RebindObjs[int(i)/len(c01RebindNew)]
	text := "a = " + obj + "\nb = 0\n" + strings.ReplaceAll(use, "N", nw) + "\np(\"survived\")\n"
	o := drive.Parse("rebinding", text)
	if o.Err != nil {
		// a spelling the grammar does not take (multi-assignment on v1): nothing to run
		return []*gt.T{gt.Call("p", gt.Str("not a program"))}
	}
	l, err := gt.FromStmts(o.Stmts)
	if err != nil {
		panic(err)
	}
	return gt.CloneStmts(l)
}

func (c01) build(c *mon.Ctx, workload string, i int64) (main []*gt.T, lib []*gt.T) {
	switch workload {
	case "extreme-index":
		return c01ExtremeIndex(i), nil
	case "rebinding-index":
		return c01Rebinding(i), nil
	case "failing-callee":
		return c01FailingCallee(i)
	case "many-locals":
		return manyLocalsProgram(i), nil
	case "deep-run":
		return c01DeepRun(i), nil
	case "time-zones":
		// every timestamp spelling x every zone spelling (known, numeric,
		// unknown, malformed), the conversion called twice in the script and
		// the script run twice: zone lookups are a natural place for a cache
		zone := gen.Zones[int(i)%len(gen.Zones)]
		text := c12Times[int(i)/len(gen.Zones)]
		call := func(k string) *gt.T {
			c := gt.Call("default_time", gt.Ident(k))
			if zone != "" {
				c.Kids = append(c.Kids, gt.Str(zone))
			}
			return c
		}
		return []*gt.T{gt.Call("add_key", gt.Ident("ts"), gt.Str(text)), call("ts"), gt.Assign("=", gt.Ident("tv"), gt.Str(text)), call("tv"),
			gt.Call("add_key", gt.Ident("ts2"), gt.Str(text)), call("ts2"), gt.Call("datetime", gt.Ident("ts2"), gt.Str("ns"), gt.Str("RFC3339")), gt.Call("p", gt.Ident("ts"), gt.Ident("tv"))}, nil
	case "builtin-shapes":
		variant := int(i % 4)
		i /= 4
		subj := c01Subjects[i%int64(len(c01Subjects))]
		shape := gen.Shapes[i/int64(len(c01Subjects))]
		s := gen.NewSyntax(c.R)
		s.Idents = []string{"v", "w", "f1", "t1"}
		s.CallGen = func(d int) *gt.T { return gt.Call("void") }
		ba := &gen.BuiltinArgs{R: c.R, Expr: func() *gt.T { return s.Expr(1) }, Keys: []string{"v"}, Attr: variant == 3}
		if variant >= 1 {
			ba.Keys = gen.KeyPool
		}
		var stmts []*gt.T
		// subject: a variable named v holding the hostile value (variants 0,1)
		if variant < 2 {
			stmts = append(stmts, gt.Assign("=", gt.Ident("v"), &gt.T{K: gt.KIdent, S: "subject", Spell: subj}))
		}
		call := ba.Call(shape)
		stmts = append(stmts, call, gt.Assign("=", gt.Ident("r"), gt.Clone(call)), gt.Call("p", gt.Ident("r"), gt.Ident("v")),
			gt.If(gt.Clone(call), gt.Call("p", gt.Int(1))))
		return stmts, []*gt.T{gt.Call("p", gt.Str("lib"))}
	case "store-consume":
		ci := int(i % int64(len(c01Consumers)))
		i /= int64(len(c01Consumers))
		vi := int(i % int64(len(c01StoreVals)))
		si := int(i / int64(len(c01StoreVals)))
		text := fmt.Sprintf(strings.ReplaceAll(c01Stores[si], "%%", "%%%%"), c01StoreVals[vi]) + "\n" + strings.ReplaceAll(c01Consumers[ci], "%%", "%") + "\np(\"survived\")\n"
		o := drive.Parse("sc", text)
		if o.Err != nil {
			panic("c01: store-consume program does not parse: " + text + ": " + o.Err.Error())
		}
		l, err := gt.FromStmts(o.Stmts)
		if err != nil {
			panic(err)
		}
		return gt.CloneStmts(l), []*gt.T{gt.Call("p", gt.Str("lib"))}
	case "self-containing":
		if i >= 6 {
			i -= 6
			cyc, use := c01Cycles[int(i)/len(c01CycleUses)], c01CycleUses[int(i)%len(c01CycleUses)]
			if strings.Contains(use, "w2") {
				cyc += "\n" + c01Twin(cyc)
			}
			text := cyc + "\n" + use + "\np(\"survived\")\n"
			o := drive.Parse("cyc", text)
			if o.Err != nil {
				panic("c01: cycle program does not parse: " + text)
			}
			l, err := gt.FromStmts(o.Stmts)
			if err != nil {
				panic(err)
			}
			return gt.CloneStmts(l), []*gt.T{gt.Call("p", gt.Str("lib"))}
		}
		a := gt.Assign("=", gt.Ident("a"), gt.List(gt.Int(1), gt.Int(2)))
		self := gt.Assign("=", gt.Index("a", gt.Int(0)), gt.Ident("a"))
		var use *gt.T
		switch i {
		case 0:
			use = gt.Call("strfmt", gt.Ident("x"), gt.Str("%v"), gt.Ident("a"))
		case 1:
			use = gt.Call("printf", gt.Str("%v\n"), gt.Ident("a"))
		case 2:
			use = gt.Call("add_key", gt.Ident("x"), gt.Ident("a"))
		case 3:
			use = gt.Call("p", gt.Bin("==", gt.Ident("a"), gt.Ident("a")), gt.Bin("in", gt.Ident("a"), gt.Ident("a")), gt.Call("len", gt.Ident("a")))
		case 4:
			use = gt.Call("set_tag", gt.Ident("t9"), gt.Ident("a"))
		default:
			a = gt.Assign("=", gt.Ident("a"), gt.Map(gt.Str("k"), gt.Int(1)))
			self = gt.Assign("=", gt.Index("a", gt.Str("k")), gt.Ident("a"))
			use = gt.Call("strfmt", gt.Ident("x"), gt.Str("%v"), gt.Ident("a"))
		}
		return []*gt.T{a, self, use, gt.Call("p", gt.Str("survived"))}, []*gt.T{gt.Call("p", gt.Str("lib"))}
	}
	s := gen.NewSyntax(c.R)
	s.Idents = []string{"a", "b", "v", "w", "f1", "f2", "t1", "message", "_", "nosuch", "x y"}
	s.BoundedLoops = true
	s.NoMulti = c.R.Intn(4) != 0
	s.Strs = append(s.Strs, "%d %s", "[1,2]", "{\"a\":1}", "a%20b", strings.Repeat("long", 1000),
		// text cut inside a multi-byte character, stray high bytes (what a truncated log line looks like)
		"caf\xc3", "x\xff", "\xe4\xb8", "\xffz", "\xf0\x9f\x98")
	ba := &gen.BuiltinArgs{R: c.R, Keys: gen.KeyPool, Attr: true}
	ba.Expr = func() *gt.T { return s.Expr(1 + c.R.Intn(2)) }
	depth := 0
	s.CallGen = func(d int) *gt.T {
		depth++
		defer func() { depth-- }()
		switch c.R.Intn(9) {
		case 0:
			return gt.Call("p", s.Expr(min(d, 1)))
		case 1:
			return gt.Call("t", gt.Int(int64(c.R.Intn(9))), s.Expr(min(d, 1)))
		case 2:
			return gt.Call([]string{"void", "boom", "exit"}[c.R.Intn(3)])
		case 3:
			return gt.Call("use", gt.Str("lib.p"))
		}
		return ba.Call(gen.Shapes[c.R.Intn(len(gen.Shapes))])
	}
	ed, d := 2+c.R.Intn(2), 2
	main = s.Program(5, d, ed)
	// seed some hostile variables first
	pre := []*gt.T{
		gt.Assign("=", gt.Ident("a"), s.Expr(2)),
		gt.Assign("=", gt.Ident("v"), s.Literal()),
	}
	main = append(pre, main...)
	lib = s.Program(2, 1, 2)
	return main, lib
}

func (k c01) Describe(c *mon.Ctx, workload string, i int64) any {
	if strings.HasPrefix(workload, "malformed-") {
		return map[string]any{"workload": workload, "index": i}
	}
	m, l := k.build(c, workload, i)
	return map[string]any{"main.p": gt.Print(gt.ParenthesizeStmts(m), nil), "lib.p": gt.Print(gt.ParenthesizeStmts(l), nil)}
}

func reached(l []*gt.T) (slice, index, call, compound, loop bool) {
	gt.WalkStmts(l, func(t *gt.T) {
		switch t.K {
		case gt.KSlice:
			slice = true
		case gt.KIndex:
			index = true
		case gt.KCall:
			call = true
		case gt.KFor, gt.KForIn:
			loop = true
		case gt.KAssign:
			if t.Op != "=" {
				compound = true
			}
		}
	})
	return
}

func (k c01) Run(c *mon.Ctx, workload string, i int64) {
	if strings.HasPrefix(workload, "malformed-") {
		k.runMalformed(c, workload, i)
		return
	}
	m, l := k.build(c, workload, i)
	m, l = gt.ParenthesizeStmts(m), gt.ParenthesizeStmts(l)
	srcs := map[string]string{"main.p": gt.Print(m, nil), "lib.p": gt.Print(l, nil)}
	info := map[string]any{"main.p": srcs["main.p"], "lib.p": srcs["lib.p"]}
	var loadPanic any
	var scripts map[string]*scriptT
	func() {
		defer func() { loadPanic = recover() }()
		ok, _ := drive.LoadV1(srcs)
		scripts = map[string]*scriptT{}
		for n, s := range ok {
			scripts[n] = s
		}
	}()
	c.Eval(1)
	if loadPanic != nil {
		c.Violate("load-panic", fmt.Sprintf("loading panicked: %v\n%s", loadPanic, srcs["main.p"]), info)
		return
	}
	script := scripts["main.p"]
	if script == nil {
		c.Count("rejected_at_load", 1)
		return
	}
	c.Count("accepted", 1)
	sl, ix, ca, co, lo := reached(m)
	for v := 0; v < 2; v++ {
		pt, desc := hostilePoint(c, v)
		rs := &drive.RunState{Budget: 60000}
		var ro drive.Outcome
		out := drive.CaptureStdout(func() { ro = drive.RunV1(script, pt, rs) })
		_ = out
		c.Eval(1)
		info["point"] = desc
		if rs.Steps >= 3 && (sl || ix || ca || co || lo) {
			c.Nontrivial(srcs["main.p"] + "|" + desc)
		}
		switch {
		case ro.Panic != nil:
			c.Violate("run-panic:"+panicSite(ro.Stack), fmt.Sprintf("Script.Run panicked: %v\n%s\n--- main.p\n%s--- point: %s", ro.Panic, firstN(ro.Stack, 24), srcs["main.p"], desc), info)
			return
		case ro.Budget:
			c.Count("stopped_by_step_budget", 1)
		case ro.Err != nil:
			c.Count("runs_ending_in_reported_error", 1)
			if len(ro.Err.PosChain) == 0 {
				c.Violate("error-without-position", fmt.Sprintf("error %q has an empty position chain\n%s", ro.Err.Err, srcs["main.p"]), info)
				return
			}
			for j, p := range ro.Err.PosChain {
				text, known := srcs[p.File]
				if !known {
					c.Violate("error-names-unknown-script", fmt.Sprintf("position %d of error %q names %q\n%s", j, ro.Err.Err, p.File, srcs["main.p"]), info)
					return
				}
				if d := drive.CheckPosition(p, p.File, text); d != "" {
					c.Violate("error-position-outside-source", fmt.Sprintf("position %d of error %q: %s\n--- main.p\n%s--- lib.p\n%s", j, ro.Err.Err, d, srcs["main.p"], srcs["lib.p"]), info)
					return
				}
			}
			if ro.Err.PosChain[len(ro.Err.PosChain)-1].File != "main.p" {
				c.Violate("error-chain-does-not-end-in-running-script", fmt.Sprintf("chain %+v\n%s", ro.Err.PosChain, srcs["main.p"]), info)
				return
			}
		default:
			c.Count("runs_ending_in_success", 1)
		}
	}
	gt.WalkStmts(m, func(t *gt.T) {
		if t.K == gt.KCall {
			c.Cell("builtins_called", t.S)
		}
		c.Cell("node_kinds", t.K.String())
	})
	if c.WantSample() && len(srcs["main.p"]) < 400 && workload == "programs" {
		c.Sample(map[string]any{"main.p": srcs["main.p"], "lib.p": srcs["lib.p"]})
	}
}

// panicSite names the first platypus frame below the panic in a stack dump.
func panicSite(stack string) string {
	lines := strings.Split(stack, "\n")
	seenPanic := false
	for _, l := range lines {
		if strings.HasPrefix(l, "panic(") {
			seenPanic = true
			continue
		}
		if seenPanic && strings.Contains(l, "GuanceCloud/platypus") && !strings.HasPrefix(l, "\t") {
			l = strings.TrimPrefix(l, "github.com/GuanceCloud/platypus/")
			if i := strings.Index(l, "("); i > 0 {
				return l[:i]
			}
			return l
		}
	}
	return "unknown"
}
