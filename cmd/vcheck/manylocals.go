package main

import (
	"fmt"
	"strings"

	"verif/internal/drive"
	"verif/internal/gt"
)

// many-locals: loops whose body creates 1..40 new variables per iteration
// (the loop's scope is cleared and refilled each time round), over every
// loop form and 1..3 iterations. Shared by C01 (no crash), C03 (v1 trace)
// and C18 (v2 trace).
var manyLocalsLoops = []string{
	"for e in [1, 2, 3][:N] {\nBODY}\n",
	"for e in \"abc\"[:N] {\nBODY}\n",
	"for e in {\"k\": 1} {\nBODY}\n",
	"for i = 0; i < N; i = i + 1 {\n  e = i\nBODY}\n",
	"for i = 0; i < N; i = i + 1 {\n  e = i\n  if true {\nBODY  }\n}\n",
	"for o in [1, 2][:N] {\n  for e in [7, 8] {\nBODY  }\n  p(o)\n}\n",
}
var manyLocalsCounts = []int{1, 7, 8, 9, 10, 16, 40}

func manyLocalsN() int64 {
	return int64(len(manyLocalsLoops)*len(manyLocalsCounts)*3) + lateOuterN()
}

// late-outer: a block that has created 1..40 variables, then an assignment
// (plain / compound) from a nested block of every kind to an early, the 8th,
// the 9th or the last of them, then a read of all of them after the nested
// block has ended: the assignment must have updated the enclosing variable.
var lateOuterForms = []string{
	"if true {\nASSIGN}\n",
	"if false {} elif true {\nASSIGN}\n",
	"if false {} else {\nASSIGN}\n",
	"for i = 0; i < 2; i = i + 1 {\nASSIGN}\n",
	"for i = 0; i < 2; TARGET = TARGET + 1 {\n  i = i + 1\n}\n",
	"for e in [1, 2] {\nASSIGN}\n",
	"if true {\n  for e in [1] {\n    if true {\nASSIGN    }\n  }\n}\n",
}
var lateOuterAssigns = []string{"  TARGET = 100\n", "  TARGET += 100\n"}

func lateOuterN() int64 {
	return int64(len(lateOuterForms) * len(lateOuterAssigns) * len(manyLocalsCounts) * 4)
}

func lateOuterProgram(i int64) []*gt.T {
	tsel := int(i % 4)
	i /= 4
	cnt := manyLocalsCounts[int(i)%len(manyLocalsCounts)]
	i /= int64(len(manyLocalsCounts))
	as := lateOuterAssigns[int(i)%len(lateOuterAssigns)]
	form := lateOuterForms[int(i)/len(lateOuterAssigns)]
	t := []int{0, 7, 8, cnt - 1}[tsel]
	if t >= cnt {
		t = cnt - 1
	}
	var sb strings.Builder
	names := []string{}
	for k := 0; k < cnt; k++ {
		fmt.Fprintf(&sb, "v%d = %d\n", k, k)
		names = append(names, fmt.Sprintf("v%d", k))
	}
	target := fmt.Sprintf("v%d", t)
	sb.WriteString(strings.ReplaceAll(strings.ReplaceAll(form, "ASSIGN", as), "TARGET", target))
	fmt.Fprintf(&sb, "p(%s)\n", strings.Join(names, ", "))
	fmt.Fprintf(&sb, "%s = %s + 1\np(\"end\", %s)\n", target, target, target)
	o := drive.Parse("late-outer", sb.String())
	if o.Err != nil {
		panic("late-outer program does not parse: " + sb.String() + ": " + o.Err.Error())
	}
	l, err := gt.FromStmts(o.Stmts)
	if err != nil {
		panic(err)
	}
	return gt.CloneStmts(l)
}

func manyLocalsProgram(i int64) []*gt.T {
	if n := int64(len(manyLocalsLoops) * len(manyLocalsCounts) * 3); i >= n {
		return lateOuterProgram(i - n)
	}
	iters := int(i%3) + 1
	i /= 3
	cnt := manyLocalsCounts[int(i)%len(manyLocalsCounts)]
	loop := manyLocalsLoops[int(i)/len(manyLocalsCounts)]
	var body strings.Builder
	for k := 0; k < cnt; k++ {
		fmt.Fprintf(&body, "    v%d = %d\n", k, k)
	}
	fmt.Fprintf(&body, "    p(e, v0, v%d)\n", cnt-1)
	text := "s = 0\n" + strings.ReplaceAll(strings.ReplaceAll(loop, "BODY", body.String()), "N", fmt.Sprint(iters)) + "p(\"end\", s)\n"
	o := drive.Parse("many-locals", text)
	if o.Err != nil {
		panic("many-locals program does not parse: " + text + ": " + o.Err.Error())
	}
	l, err := gt.FromStmts(o.Stmts)
	if err != nil {
		panic(err)
	}
	return gt.CloneStmts(l)
}
