package main

import (
	"fmt"
	"sort"
	"strings"
	"time"

	"verif/internal/drive"
	"verif/internal/gen"
	"verif/internal/gt"
	"verif/internal/mon"
	"verif/internal/ref"
)

// C13: use() shares the point but not variables; exit() ends only its own
// script.

type c13 struct{}

func init() {
	register(c13{})
	mon.Assumptions["C13"] = []string{
		"reference interpreter: fresh variable environment per use(), shared point, per-script exit flag, callee error aborts the caller with the call site appended",
		"frozen de-facto: add_key appends its own call site when its value argument fails",
	}
}

func (c13) ID() string { return "C13" }
func (c13) Rule() string {
	return "seeded call trees of 2..4 scripts (depth <= 3, acyclic) whose bodies read and write the same variable names and the same point keys on both sides of every use(), with use() placed at random statement positions (top level, branches, loops, call arguments), exit() and boom() injected at random statement positions; loaded together with the real loader and run from main.p; the ordered probe trace (with script names), the final point, error presence and the complete position chain (fault position inside the faulting statement of the faulting script, then the exact position of every use call site, innermost first) are compared with the reference. Non-trivial = at least one use() executed and one name shared across it. Distinct = distinct script sets."
}

func (c13) Plan(tier string, seed int64) []mon.Workload {
	n := int64(2000)
	if tier == "thorough" {
		n = 80000
	}
	return []mon.Workload{{Name: "trees", N: n}, {Name: "many-calls", N: int64(len(c13ManyShapes) * len(c13ManyCounts)), Exhaustive: true},
		{Name: "forwarders", N: c13FwdN(), Exhaustive: true}}
}

type c13Case struct {
	Names []string
	Stmts map[string][]*gt.T
	Srcs  map[string]string
	Point *ref.Point
}

func (c13) build(c *mon.Ctx) c13Case {
	n := 2 + c.R.Intn(3)
	names := []string{"main.p", "s1.p", "s2.p", "s3.p"}[:n]
	cs := c13Case{Names: names, Stmts: map[string][]*gt.T{}, Srcs: map[string]string{}}
	for i := n - 1; i >= 0; i-- {
		g := gen.NewProg(c.Sub(names[i]))
		g.Names = []string{"a", "b", "c"}
		g.IllTyped = 60
		g.Unbound = 25
		g.Containers = c.R.Intn(3) == 0
		g.AddKey = true
		g.MaxDepth = 2
		g.MaxStmts = 12
		stmts := g.Program()
		r := c.Sub("inject" + names[i])
		targets := names[i+1:]
		if depthOK := i < 3; depthOK && len(targets) > 0 {
			for k := 1 + r.Intn(3); k > 0; k-- {
				ps := gt.StmtPositions(&stmts)
				p := ps[r.Intn(len(ps))]
				call := gt.Call("use", gt.Str(targets[r.Intn(len(targets))]))
				var st *gt.T = call
				if r.Intn(5) == 0 {
					st = gt.Call("p", call)
				}
				p.Insert(st)
				// probe right after
				ps = gt.StmtPositions(&stmts)
			}
		}
		if r.Intn(3) == 0 {
			ps := gt.StmtPositions(&stmts)
			ps[r.Intn(len(ps))].Insert(gen.ExitStmt(r))
		}
		if r.Intn(4) == 0 {
			ps := gt.StmtPositions(&stmts)
			ps[r.Intn(len(ps))].Insert(gt.Call("boom"))
		}
		// every script ends with a probe so that "continues after use()" is visible
		stmts = append(stmts, gt.Call("p", gt.Str("end-of-"+names[i]), gt.Ident("a"), gt.Ident("b"), gt.Ident("c"), gt.Ident("o1"), gt.Ident("o2")))
		stmts = gt.ParenthesizeStmts(stmts)
		var lay *gt.Layout
		if r.Intn(2) == 0 {
			lay = &gt.Layout{R: c.Sub("lay" + names[i]), Breaks: true, Multibyte: true}
		}
		cs.Stmts[names[i]] = stmts
		cs.Srcs[names[i]] = gt.Print(stmts, lay)
	}
	cs.Point = gen.ModelPoint(c.Sub("pt"), []string{"message", "a", "o1"}, []string{"t1", "b"})
	return cs
}

// many-calls (exhaustive): use() called 1..1000 times in ONE run - in a loop,
// as that many statements in a row, from two nested levels of loops (neither
// of which is long alone), with a callee that exit()s every time. The callee
// runs every time and the caller goes on after every call: the counter it
// keeps in the point and the caller's own variable agree at the end.
var c13ManyCounts = []int{1, 2, 63, 64, 65, 127, 128, 129, 130, 255, 256, 257, 1000}
var c13ManyShapes = []string{"loop", "sequence", "nested", "nested-wide", "callee-exits", "loop-in-branch", "three-levels"}

func c13Many(i int64) c13Case {
	shape := c13ManyShapes[int(i)%len(c13ManyShapes)]
	n := c13ManyCounts[int(i)/len(c13ManyShapes)]
	srcs := map[string]string{}
	leaf := "add_key(cnt, cnt + 1)\nv = \"callee-private\"\n"
	loop := func(times int, callee string) string {
		return fmt.Sprintf("n = 0\nfor i = 0; i < %d; i = i + 1 {\n  use(\"%s\")\n  n = n + 1\n}\n", times, callee)
	}
	switch shape {
	case "loop":
		srcs["main.p"] = loop(n, "s1.p") + "p(\"end-of-main.p\", n, cnt, v)\n"
		srcs["s1.p"] = leaf
	case "sequence":
		srcs["main.p"] = "n = 0\n" + strings.Repeat("use(\"s1.p\")\nn = n + 1\n", n) + "p(\"end-of-main.p\", n, cnt, v)\n"
		srcs["s1.p"] = leaf
	case "nested", "nested-wide":
		a := 1
		for a*a < n {
			a++
		}
		b := (n + a - 1) / a
		if shape == "nested-wide" {
			a, b = 2, (n+1)/2
		}
		srcs["main.p"] = loop(a, "s1.p") + "p(\"end-of-main.p\", n, cnt, v)\n"
		srcs["s1.p"] = loop(b, "s2.p") + "p(\"end-of-s1.p\", n)\n"
		srcs["s2.p"] = leaf
	case "callee-exits":
		srcs["main.p"] = loop(n, "s1.p") + "p(\"end-of-main.p\", n, cnt, v)\n"
		srcs["s1.p"] = leaf + "if true {\n  exit()\n}\nadd_key(not_reached, 1)\n"
	case "loop-in-branch":
		srcs["main.p"] = "if true {\n" + loop(n, "s1.p") + "}\nuse(\"s1.p\")\np(\"end-of-main.p\", n, cnt, v)\n"
		srcs["s1.p"] = leaf
	case "three-levels":
		srcs["main.p"] = "use(\"s1.p\")\nuse(\"s1.p\")\np(\"end-of-main.p\", cnt, v)\n"
		srcs["s1.p"] = loop((n+1)/2, "s2.p") + "use(\"s2.p\")\np(\"end-of-s1.p\", n)\n"
		srcs["s2.p"] = "use(\"s3.p\")\n"
		srcs["s3.p"] = leaf
	}
	cs := c13Case{Stmts: map[string][]*gt.T{}, Srcs: srcs, Point: ref.NewPoint("m", nil, map[string]any{"cnt": int64(0), "message": "x"}, time.Unix(1700000000, 0))}
	for name, text := range srcs {
		cs.Names = append(cs.Names, name)
		o := drive.Parse(name, text)
		if o.Err != nil {
			panic("c13: many-calls script does not parse: " + text + ": " + o.Err.Error())
		}
		l, err := gt.FromStmts(o.Stmts)
		if err != nil {
			panic(err)
		}
		cs.Stmts[name] = gt.CloneStmts(l)
	}
	sort.Strings(cs.Names)
	return cs
}

// forwarders (exhaustive): call trees of 2..4 scripts whose MIDDLE scripts
// are next to nothing - a single use() statement, the same with comments and
// blank lines around it, inside a branch, with one statement before or after
// it - above a leaf that fails at run time, exit()s, or succeeds. A script
// that only forwards is still a script: it has its own variable scope, exit()
// below it ends only the script it is in, and an error from below carries its
// call site.
var c13FwdMids = []string{"use(\"NEXT\")\n", "# only forwards\n\n  use(\"NEXT\")  # that is all\n\n", "use(\"NEXT\")\nadd_key(after_SELF, 1)\n", "if true {\n  use(\"NEXT\")\n}\n", "v = \"mid-private\"\nuse(\"NEXT\")\n",
	"use(\"NEXT\")\nuse(\"NEXT\")\n", "for e in [1] {\n  use(\"NEXT\")\n}\n"}
var c13FwdLeaves = []string{"boom()\n", "zero = 0\nx = 1 / zero\n", "add_key(leaf_ran, 1)\np(\"leaf\", v)\n", "add_key(leaf_ran, 1)\nexit()\nadd_key(not_reached, 1)\n", "add_key(k, boom())\n", "if true {\n  for e in [1] {\n    w = [1]\n    y = w[5]\n  }\n}\n"}

func c13FwdN() int64 {
	m, l := int64(len(c13FwdMids)), int64(len(c13FwdLeaves))
	return l + m*l + m*m*l
}

func c13Forwarders(i int64) c13Case {
	m, l := int64(len(c13FwdMids)), int64(len(c13FwdLeaves))
	var mids []string
	var leaf string
	switch {
	case i < l:
		leaf = c13FwdLeaves[i]
	case i < l+m*l:
		i -= l
		mids, leaf = []string{c13FwdMids[i/l]}, c13FwdLeaves[i%l]
	default:
		i -= l + m*l
		mids, leaf = []string{c13FwdMids[i/(m*l)], c13FwdMids[i/l%m]}, c13FwdLeaves[i%l]
	}
	names := []string{"main.p"}
	for j := range mids {
		names = append(names, fmt.Sprintf("s%d.p", j+1))
	}
	names = append(names, fmt.Sprintf("s%d.p", len(mids)+1))
	srcs := map[string]string{"main.p": "v = \"main-private\"\nadd_key(m0, 1)\nuse(\"s1.p\")\np(\"end-of-main.p\", v, leaf_ran)\n"}
	for j, mid := range mids {
		srcs[names[j+1]] = strings.NewReplacer("NEXT", names[j+2], "SELF", fmt.Sprint(j+1)).Replace(mid)
	}
	srcs[names[len(names)-1]] = leaf
	cs := c13Case{Stmts: map[string][]*gt.T{}, Srcs: srcs, Names: names, Point: ref.NewPoint("m", nil, map[string]any{"message": "x"}, time.Unix(1700000000, 0))}
	for name, text := range srcs {
		o := drive.Parse(name, text)
		if o.Err != nil {
			panic("c13: forwarders script does not parse: " + text + ": " + o.Err.Error())
		}
		t, err := gt.FromStmts(o.Stmts)
		if err != nil {
			panic(err)
		}
		// printed again by the generator's printer, which records where every
		// token is (the oracle's positions do not come from the parser under
		// test); a script that had comments gets a layout with comments
		st := gt.ParenthesizeStmts(gt.CloneStmts(t))
		var lay *gt.Layout
		if strings.Contains(text, "#") {
			lay = &gt.Layout{R: gen.Rand(i*7 + int64(len(name))), Breaks: true, Multibyte: true}
		}
		cs.Stmts[name] = st
		cs.Srcs[name] = gt.Print(st, lay)
	}
	return cs
}

func (k c13) buildFor(c *mon.Ctx, workload string, i int64) c13Case {
	if workload == "many-calls" {
		return c13Many(i)
	}
	if workload == "forwarders" {
		return c13Forwarders(i)
	}
	return k.build(c)
}

func (k c13) Describe(c *mon.Ctx, workload string, i int64) any {
	cs := k.buildFor(c, workload, i)
	return map[string]any{"scripts": cs.Srcs, "point": cs.Point.Show()}
}

func srcDump(m map[string]string) string {
	var ks []string
	for k := range m {
		ks = append(ks, k)
	}
	sort.Strings(ks)
	var sb strings.Builder
	for _, k := range ks {
		fmt.Fprintf(&sb, "--- %s\n%s", k, m[k])
		if !strings.HasSuffix(m[k], "\n") {
			sb.WriteByte('\n')
		}
	}
	return sb.String()
}

func (k c13) Run(c *mon.Ctx, workload string, i int64) {
	cs := k.buildFor(c, workload, i)
	info := map[string]any{"scripts": cs.Srcs, "point": cs.Point.Show()}
	ok, errs := drive.LoadV1(cs.Srcs)
	c.Eval(1)
	if len(errs) > 0 {
		for n, e := range errs {
			c.Violate("valid-set-rejected", fmt.Sprintf("%s was rejected: %v\n%s", n, e, srcDump(cs.Srcs)), info)
			return
		}
	}
	// Another workspace is loaded AFTER the one under test and before it runs:
	// same file names, the same main.p text, different callees. What a loaded
	// set does is fixed when it is loaded.
	decoy := map[string]string{}
	for n, t := range cs.Srcs {
		if n == "main.p" {
			decoy[n] = t
		} else {
			decoy[n] = "add_key(decoy_ran, \"" + n + "\")\nboom()\n"
		}
	}
	if len(decoy) > 1 && c.R.Intn(2) == 0 {
		drive.LoadV1(decoy)
		c.Count("runs_preceded_by_the_load_of_another_workspace", 1)
	}
	prog := &ref.Program{Scripts: cs.Stmts, Funcs: ref.Merge(ref.ProbeFuncs(), ref.PointFuncs())}
	model := cs.Point.Clone()
	mo := ref.Run(prog, "main.p", model, modelBudget)
	if mo.TooBig {
		return
	}
	real := drive.PointFromModel(cs.Point)
	ro := drive.RunV1(ok["main.p"], real, &drive.RunState{Budget: realBudget(mo.Shared.Steps)})
	c.Eval(1)
	usesRun := 0
	for _, e := range mo.Events {
		if e.Script != "main.p" {
			usesRun++
			break
		}
	}
	switch {
	case mo.Unspecified != "":
		c.Count("not_compared_unspecified", 1)
	case mo.Shared.MapOrderDependent:
		c.Count("not_compared_map_order", 1)
	default:
		c.Count("compared", 1)
		if usesRun > 0 {
			c.Nontrivial(srcDump(cs.Srcs) + cs.Point.Show())
			c.Count("runs_that_entered_a_callee", 1)
		}
	}
	if r := compareRun(ro, mo, cmpOpts{Point: model, RealPoint: real}); r != nil {
		c.Violate(r.Class, fmt.Sprintf("%s\n%s--- point\n%s", r.Detail, srcDump(cs.Srcs), cs.Point.Show()), info)
		return
	}
	if mo.Unspecified == "" && !mo.Shared.MapOrderDependent && !mo.Budget {
		// the same loaded set run once more on a fresh copy of the point
		real2 := drive.PointFromModel(cs.Point)
		ro2 := drive.RunV1(ok["main.p"], real2, &drive.RunState{Budget: realBudget(mo.Shared.Steps)})
		c.Eval(1)
		c.Count("second_runs_of_the_same_loaded_set", 1)
		if r := compareRun(ro2, mo, cmpOpts{Point: model, RealPoint: real2}); r != nil {
			c.Violate("second-run-differs:"+r.Class, fmt.Sprintf("the SECOND run of the same loaded set differs from the reference (the first agreed): %s\n%s--- point\n%s", r.Detail, srcDump(cs.Srcs), cs.Point.Show()), info)
			return
		}
		if ro.Err != nil && ro2.Err != nil && fmt.Sprint(ro.Err.PosChain) != fmt.Sprint(ro2.Err.PosChain) {
			c.Violate("second-run-differs:chain", fmt.Sprintf("first run's chain %+v, second run's chain %+v\n%s", ro.Err.PosChain, ro2.Err.PosChain, srcDump(cs.Srcs)), info)
			return
		}
	}
	if mo.Unspecified != "" || mo.Shared.MapOrderDependent || mo.Err == nil || ro.Err == nil {
		return
	}
	// position chain
	c.Count("error_chains_checked", 1)
	c.Cell("chain_lengths", fmt.Sprint(1+len(mo.Err.Sites)))
	chain := ro.Err.PosChain
	desc := func() string { return fmt.Sprintf("real chain %+v (%s)", chain, ro.Err.Err) }
	if len(chain) != 1+len(mo.Err.Sites) {
		c.Violate("chain-length", fmt.Sprintf("the error crossed %d call sites, so the chain must have %d positions; %s\n%s", len(mo.Err.Sites), 1+len(mo.Err.Sites), desc(), srcDump(cs.Srcs)), info)
		return
	}
	for j, p := range chain {
		if d := drive.CheckPosition(p, p.File, cs.Srcs[p.File]); d != "" {
			c.Violate("chain-position-invalid", fmt.Sprintf("position %d: %s; %s\n%s", j, d, desc(), srcDump(cs.Srcs)), info)
			return
		}
	}
	if chain[0].File != mo.Err.Script {
		c.Violate("chain-root-file", fmt.Sprintf("the fault is in %s but the first position names %s; %s\n%s", mo.Err.Script, chain[0].File, desc(), srcDump(cs.Srcs)), info)
		return
	}
	if span, ok := enclosingStmtSpan(cs.Stmts[mo.Err.Script], mo.Err.Node); ok && (chain[0].Pos < span[0] || chain[0].Pos >= span[1]) {
		c.Violate("chain-root-position", fmt.Sprintf("the faulting statement of %s occupies [%d,%d) but the first position is offset %d; %s\n%s", mo.Err.Script, span[0], span[1], chain[0].Pos, desc(), srcDump(cs.Srcs)), info)
		return
	}
	for j, site := range mo.Err.Sites {
		p := chain[j+1]
		want := site.Call.Pos["NamePos"]
		if p.File != site.Script || p.Pos != want {
			c.Violate("chain-call-site", fmt.Sprintf("chain entry %d must be the call %s in %s at offset %d; it is %s offset %d; %s\n%s", j+1, gt.PrintExpr(site.Call), site.Script, want, p.File, p.Pos, desc(), srcDump(cs.Srcs)), info)
			return
		}
	}
	if c.WantSample() && len(mo.Err.Sites) >= 1 && len(srcDump(cs.Srcs)) < 900 {
		c.Sample(map[string]any{"scripts": cs.Srcs, "error": ro.Err.Error()})
	}
}
