// Package mon is the monitor framework: deterministic case planning, worker
// isolation with journals, aggregation, evidence, replay files, known
// findings and the three-valued verdict.
package mon

import (
	"encoding/base64"
	"encoding/binary"
	"encoding/json"
	"fmt"
	"hash/fnv"
	"math/rand"
	"os"
	"sort"
	"strings"
)

// Workload is one deterministic family of cases: case i (0 <= i < N) is a
// pure function of (property, tier, seed, workload name, i).
type Workload struct {
	Name string
	N    int64
	// Exhaustive marks a workload that enumerates a finite space completely.
	Exhaustive bool
	// Serial workloads run in one worker (stateful histories).
	Serial bool
	// PerCaseTimeoutS overrides the default watchdog allowance per batch.
	BatchTimeoutS int
	// CaseTimeoutS: wall-clock allowance for ONE case (the worker's journal
	// must grow within it); 0 = defaultCaseTimeout.
	CaseTimeoutS int
	// Procs: GOMAXPROCS of the worker (default 1).
	Procs int
	// MaxWorkers caps the number of parallel workers for this workload (0 = default).
	MaxWorkers int
}

// Check is implemented once per property.
type Check interface {
	ID() string
	// Rule is the evidence "rule" text.
	Rule() string
	Plan(tier string, seed int64) []Workload
	// Run executes one case and reports through c.
	Run(c *Ctx, workload string, i int64)
}

// Violation is one refuting observation.
type Violation struct {
	Property string `json:"property"`
	Class    string `json:"class"`
	Detail   string `json:"detail"`
	Workload string `json:"workload"`
	Index    int64  `json:"index"`
	Case     any    `json:"case,omitempty"`
	// HistoryFrom: the violation needs cases [HistoryFrom, Index) to have run
	// in the same process first (hangs that depend on earlier cases)
	HistoryFrom *int64 `json:"history_from,omitempty"`
}

// Result is what a worker reports for a batch of cases.
type Result struct {
	Evaluations  int64               `json:"evaluations"`
	Cases        int64               `json:"cases"`
	Counters     map[string]int64    `json:"counters"`
	Max          map[string]int64    `json:"max"`
	DistinctB64  string              `json:"distinct"`
	Sets         map[string][]string `json:"sets"`
	Samples      []any               `json:"samples"`
	Violations   []Violation         `json:"violations"`
	Inconclusive []string            `json:"inconclusive"`

	distinct map[uint64]struct{}
	sets     map[string]map[string]struct{}
}

func NewResult() *Result {
	return &Result{Counters: map[string]int64{}, Max: map[string]int64{}, distinct: map[uint64]struct{}{}, sets: map[string]map[string]struct{}{}}
}

func (r *Result) seal() {
	buf := make([]byte, 0, 8*len(r.distinct))
	for h := range r.distinct {
		buf = binary.LittleEndian.AppendUint64(buf, h)
	}
	r.DistinctB64 = base64.StdEncoding.EncodeToString(buf)
	r.Sets = map[string][]string{}
	for k, s := range r.sets {
		l := make([]string, 0, len(s))
		for e := range s {
			l = append(l, e)
		}
		sort.Strings(l)
		r.Sets[k] = l
	}
}

func (r *Result) unseal() {
	if r.distinct == nil {
		r.distinct = map[uint64]struct{}{}
	}
	if r.sets == nil {
		r.sets = map[string]map[string]struct{}{}
	}
	if r.Counters == nil {
		r.Counters = map[string]int64{}
	}
	if r.Max == nil {
		r.Max = map[string]int64{}
	}
	buf, _ := base64.StdEncoding.DecodeString(r.DistinctB64)
	for i := 0; i+8 <= len(buf); i += 8 {
		r.distinct[binary.LittleEndian.Uint64(buf[i:])] = struct{}{}
	}
	for k, l := range r.Sets {
		if r.sets[k] == nil {
			r.sets[k] = map[string]struct{}{}
		}
		for _, e := range l {
			r.sets[k][e] = struct{}{}
		}
	}
}

// Merge folds o into r.
func (r *Result) Merge(o *Result) {
	r.Evaluations += o.Evaluations
	r.Cases += o.Cases
	for k, v := range o.Counters {
		r.Counters[k] += v
	}
	for k, v := range o.Max {
		if v > r.Max[k] {
			r.Max[k] = v
		}
	}
	for h := range o.distinct {
		r.distinct[h] = struct{}{}
	}
	for k, s := range o.sets {
		if r.sets[k] == nil {
			r.sets[k] = map[string]struct{}{}
		}
		for e := range s {
			r.sets[k][e] = struct{}{}
		}
	}
	for _, s := range o.Samples {
		if len(r.Samples) < 6 {
			r.Samples = append(r.Samples, s)
		}
	}
	r.Violations = append(r.Violations, o.Violations...)
	r.Inconclusive = append(r.Inconclusive, o.Inconclusive...)
}

func (r *Result) DistinctCount() int { return len(r.distinct) }
func (r *Result) SetSize(name string) int {
	return len(r.sets[name])
}
func (r *Result) SetElems(name string) []string {
	l := make([]string, 0, len(r.sets[name]))
	for e := range r.sets[name] {
		l = append(l, e)
	}
	sort.Strings(l)
	return l
}
func (r *Result) SetNames() []string {
	l := make([]string, 0, len(r.sets))
	for k := range r.sets {
		l = append(l, k)
	}
	sort.Strings(l)
	return l
}

// Ctx is handed to Check.Run for one case.
type Ctx struct {
	Property string
	Tier     string
	Seed     int64
	Workload string
	Index    int64
	R        *rand.Rand
	Verbose  bool

	res *Result
}

func Hash64(s string) uint64 {
	h := fnv.New64a()
	h.Write([]byte(s))
	return h.Sum64()
}

func caseSeed(prop, tier string, seed int64, workload string, i int64) int64 {
	x := Hash64(fmt.Sprintf("%s|%s|%d|%s|%d", prop, tier, seed, workload, i))
	// splitmix finaliser
	x ^= x >> 30
	x *= 0xbf58476d1ce4e5b9
	x ^= x >> 27
	x *= 0x94d049bb133111eb
	x ^= x >> 31
	return int64(x)
}

func NewCtx(prop, tier string, seed int64, workload string, i int64, res *Result) *Ctx {
	return &Ctx{Property: prop, Tier: tier, Seed: seed, Workload: workload, Index: i,
		R: rand.New(rand.NewSource(caseSeed(prop, tier, seed, workload, i))), res: res}
}

// Sub returns an independent PRNG for a named sub-stream of this case.
func (c *Ctx) Sub(name string) *rand.Rand {
	return rand.New(rand.NewSource(caseSeed(c.Property, c.Tier, c.Seed, c.Workload+"/"+name, c.Index)))
}

// Eval counts n executions of real code.
func (c *Ctx) Eval(n int) { c.res.Evaluations += int64(n) }

// Count adds to a named counter.
func (c *Ctx) Count(name string, n int) { c.res.Counters[name] += int64(n) }

// MaxOf records the maximum of a named quantity.
func (c *Ctx) MaxOf(name string, v int64) {
	if v > c.res.Max[name] {
		c.res.Max[name] = v
	}
}

// Nontrivial registers a distinct non-trivial case by its identity key.
func (c *Ctx) Nontrivial(key string) { c.res.distinct[Hash64(key)] = struct{}{} }

// Cell registers membership of elem in a named coverage set.
func (c *Ctx) Cell(set, elem string) {
	s := c.res.sets[set]
	if s == nil {
		s = map[string]struct{}{}
		c.res.sets[set] = s
	}
	s[elem] = struct{}{}
}

// Sample keeps a few literal cases for the evidence file.
func (c *Ctx) Sample(x any) {
	if len(c.res.Samples) < 3 {
		c.res.Samples = append(c.res.Samples, x)
	}
}

// WantSample reports whether another sample would be kept.
func (c *Ctx) WantSample() bool { return len(c.res.Samples) < 3 }

// Violate records a violation. class is a short stable key used for
// de-duplication and for known-finding matching.
func (c *Ctx) Violate(class, detail string, cs any) {
	if len(detail) > 4000 {
		detail = detail[:4000] + "…"
	}
	c.res.Violations = append(c.res.Violations, Violation{Property: c.Property, Class: class, Detail: detail,
		Workload: c.Workload, Index: c.Index, Case: cs})
	if c.Verbose {
		fmt.Printf("violation class=%s\n  %s\n", class, strings.ReplaceAll(detail, "\n", "\n  "))
	}
}

// Inconclusive records a reason why this case could not be decided.
func (c *Ctx) Inconclusive(reason string) {
	c.res.Inconclusive = append(c.res.Inconclusive, fmt.Sprintf("%s/%d: %s", c.Workload, c.Index, reason))
}

// ---- known findings ----

type KnownFinding struct {
	Property string `json:"property"`
	Status   string `json:"status"` // "known" or "fixed"
	ID       string `json:"id"`
	// matching (known only): Class must equal; every string of Contains must
	// occur in the violation's detail or JSON-encoded case.
	Class    string   `json:"class,omitempty"`
	Contains []string `json:"contains,omitempty"`
	What     string   `json:"what"`
	Commit   string   `json:"commit,omitempty"`
}

type KnownFile struct {
	Findings []KnownFinding `json:"findings"`
	// Lines is the human-readable rendering required by the brief
	// ("fixed: property=<id> <commit> <what failed>").
	Lines []string `json:"lines"`
}

func LoadKnown(path string) (*KnownFile, error) {
	b, err := os.ReadFile(path)
	if err != nil {
		if os.IsNotExist(err) {
			return &KnownFile{}, nil
		}
		return nil, err
	}
	var k KnownFile
	if err := json.Unmarshal(b, &k); err != nil {
		return nil, err
	}
	return &k, nil
}

// Match returns the known (unrepaired) finding that covers v, if any.
func (k *KnownFile) Match(v *Violation) *KnownFinding {
	var blob string
	for i := range k.Findings {
		f := &k.Findings[i]
		if f.Status != "known" || f.Property != v.Property || f.Class != v.Class {
			continue
		}
		if blob == "" {
			cj, _ := json.Marshal(v.Case)
			blob = v.Detail + "\n" + string(cj)
		}
		ok := true
		for _, s := range f.Contains {
			if !strings.Contains(blob, s) {
				ok = false
				break
			}
		}
		if ok {
			return f
		}
	}
	return nil
}
