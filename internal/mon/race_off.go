//go:build !race

package mon

// RaceEnabled reports whether the binary was built with the race detector.
const RaceEnabled = false
