// Command vcheck hosts every runtime monitor: one sub-command per property.
//
//	vcheck run <Cxx> <quick|thorough>     (VERIF_SEED, VERIF_WORKERS, VERIF_INPROC)
//	vcheck replay <Cxx> <path>
//	vcheck worker <Cxx> ...               (internal)
package main

import (
	"fmt"
	"os"
	"path/filepath"
	"runtime/pprof"
	"sort"
	"strconv"

	"verif/internal/mon"
)

var registry = map[string]mon.Check{}

func register(c mon.Check) { registry[c.ID()] = c }

func root() string {
	if r := os.Getenv("VERIF_ROOT"); r != "" {
		return r
	}
	exe, err := os.Executable()
	if err == nil {
		// <root>/.build/vcheck
		return filepath.Dir(filepath.Dir(exe))
	}
	return "/verif"
}

func main() {
	if len(os.Args) < 3 {
		ids := []string{}
		for k := range registry {
			ids = append(ids, k)
		}
		sort.Strings(ids)
		fmt.Println("usage: vcheck run|replay|worker <property> ...; properties:", ids)
		os.Exit(3)
	}
	cmd, id := os.Args[1], os.Args[2]
	c, ok := registry[id]
	if !ok {
		fmt.Println("unknown property", id)
		os.Exit(3)
	}
	switch cmd {
	case "worker":
		os.Exit(mon.WorkerMain(c, os.Args[3:]))
	case "oneshot":
		if o, ok := c.(interface{ OneShot([]string) int }); ok {
			os.Exit(o.OneShot(os.Args[3:]))
		}
		os.Exit(3)
	case "run":
		tier := "quick"
		if len(os.Args) > 3 {
			tier = os.Args[3]
		}
		if tier != "quick" && tier != "thorough" {
			fmt.Println("tier must be quick or thorough")
			os.Exit(3)
		}
		seed := int64(1)
		if s := os.Getenv("VERIF_SEED"); s != "" {
			if n, err := strconv.ParseInt(s, 10, 64); err == nil {
				seed = n
			}
		}
		if pf := os.Getenv("VERIF_PPROF"); pf != "" {
			f, _ := os.Create(pf)
			pprof.StartCPUProfile(f)
			defer pprof.StopCPUProfile()
		}
		exe, _ := os.Executable()
		o := &mon.Options{Tier: tier, Seed: seed, Root: root(), Exe: exe,
			InProc: os.Getenv("VERIF_INPROC") != "", Verbose: os.Getenv("VERIF_VERBOSE") != ""}
		code := mon.Run(c, o)
		pprof.StopCPUProfile()
		os.Exit(code)
	case "replay":
		if len(os.Args) < 4 {
			fmt.Println("usage: vcheck replay <property> <path>")
			os.Exit(3)
		}
		os.Exit(mon.Replay(c, root(), os.Args[3]))
	}
	fmt.Println("unknown command", cmd)
	os.Exit(3)
}
