package mon

import (
	"bufio"
	"bytes"
	"encoding/json"
	"fmt"
	"os"
	"os/exec"
	"path/filepath"
	"runtime"
	"runtime/debug"
	"sort"
	"strconv"
	"strings"
	"sync"
	"syscall"
	"time"
)

// Options of one check run.
type Options struct {
	Tier    string
	Seed    int64
	Workers int
	InProc  bool
	Root    string // /verif
	Exe     string // path of this binary (for workers)
	Verbose bool
}

// Describer is optionally implemented by checks that can re-create the
// description of a case without running it (used when a worker died).
type Describer interface {
	Describe(c *Ctx, workload string, i int64) any
}

// Finisher is optionally implemented by checks that post-process the merged
// result (floors, derived counters, extra evidence keys).
type Finisher interface {
	Finish(tier string, r *Result, extra map[string]any) (inconclusive []string)
}

// DeathPolicy is optionally implemented; default: a worker death is a
// violation of the property (class "worker-death").
type DeathPolicy interface {
	DeathIsViolation() bool
	HangIsViolation() bool
}

type job struct {
	w        Workload
	from, to int64
	// retry: this job repeats, in a fresh process, the history [from, to-1)
	// that preceded a case (to-1) on which the watchdog fired
	retry bool
}

type jobResult struct {
	j       job
	res     *Result
	died    bool
	timeout bool
	openIdx int64
	stderr  string
}

const defaultBatchTimeout = 900 * time.Second

// defaultCaseTimeout is the wall-clock allowance for a single case; cases take
// milliseconds to a few seconds, so this is two orders of magnitude of slack
// for a loaded machine.
const defaultCaseTimeout = 300 * time.Second

func envInt(name string, def int) int {
	if v := os.Getenv(name); v != "" {
		if n, err := strconv.Atoi(v); err == nil {
			return n
		}
	}
	return def
}

// WorkerMain runs cases [from,to) of one workload and writes the result.
func WorkerMain(check Check, args []string) int {
	if len(args) != 7 {
		fmt.Fprintln(os.Stderr, "worker: bad arguments")
		return 3
	}
	debug.SetMaxStack(256 << 20)
	// a runaway case must die in this worker, not take the sandbox down
	if !RaceEnabled { // the race detector reserves terabytes of address space
		lim := uint64(envInt("VERIF_WORKER_MEM_MB", 6144)) << 20
		syscall.Setrlimit(syscall.RLIMIT_AS, &syscall.Rlimit{Cur: lim, Max: lim})
	}
	if n := envInt("VERIF_WORKER_PROCS", 1); n > 0 {
		runtime.GOMAXPROCS(n)
	}
	if os.Getenv("GOGC") == "" {
		debug.SetGCPercent(50)
	}
	tier := args[0]
	seed, _ := strconv.ParseInt(args[1], 10, 64)
	workload := args[2]
	from, _ := strconv.ParseInt(args[3], 10, 64)
	to, _ := strconv.ParseInt(args[4], 10, 64)
	outPath, journalPath := args[5], args[6]
	jf, err := os.OpenFile(journalPath, os.O_CREATE|os.O_WRONLY|os.O_TRUNC, 0o644)
	if err != nil {
		fmt.Fprintln(os.Stderr, "worker:", err)
		return 3
	}
	res := NewResult()
	var line []byte
	for i := from; i < to; i++ {
		line = strconv.AppendInt(append(line[:0], 'B', ' '), i, 10)
		line = append(line, '\n')
		jf.Write(line)
		c := NewCtx(check.ID(), tier, seed, workload, i, res)
		check.Run(c, workload, i)
		res.Cases++
	}
	jf.WriteString("DONE\n")
	jf.Close()
	res.seal()
	b, err := json.Marshal(res)
	if err != nil {
		fmt.Fprintln(os.Stderr, "worker: marshal:", err)
		return 3
	}
	if err := os.WriteFile(outPath+".tmp", b, 0o644); err != nil {
		fmt.Fprintln(os.Stderr, "worker:", err)
		return 3
	}
	os.Rename(outPath+".tmp", outPath)
	return 0
}

func lastOpen(journal string) int64 {
	f, err := os.Open(journal)
	if err != nil {
		return -1
	}
	defer f.Close()
	last := int64(-1)
	sc := bufio.NewScanner(f)
	for sc.Scan() {
		t := sc.Text()
		if strings.HasPrefix(t, "B ") {
			if n, err := strconv.ParseInt(t[2:], 10, 64); err == nil {
				last = n
			}
		}
	}
	return last
}

func tail(s string, n int) string {
	lines := strings.Split(s, "\n")
	if len(lines) <= n {
		return s
	}
	return strings.Join(lines[:n/2], "\n") + "\n…\n" + strings.Join(lines[len(lines)-n/2:], "\n")
}

func runJob(check Check, o *Options, dir string, id int, j job) jobResult {
	out := filepath.Join(dir, fmt.Sprintf("job%d.json", id))
	jr := filepath.Join(dir, fmt.Sprintf("job%d.journal", id))
	errf := filepath.Join(dir, fmt.Sprintf("job%d.stderr", id))
	ef, _ := os.Create(errf)
	cmd := exec.Command(o.Exe, "worker", check.ID(), o.Tier, strconv.FormatInt(o.Seed, 10), j.w.Name,
		strconv.FormatInt(j.from, 10), strconv.FormatInt(j.to, 10), out, jr)
	cmd.Stdout = ef
	cmd.Stderr = ef
	cmd.Env = append(os.Environ(), "GOTRACEBACK=all",
		"GORACE=halt_on_error=0 log_path="+filepath.Join(dir, fmt.Sprintf("race-job%d", id)))
	if j.w.Procs > 0 {
		cmd.Env = append(cmd.Env, fmt.Sprintf("VERIF_WORKER_PROCS=%d", j.w.Procs))
	}
	timeout := defaultBatchTimeout
	if j.w.BatchTimeoutS > 0 {
		timeout = time.Duration(j.w.BatchTimeoutS) * time.Second
	}
	res := jobResult{j: j, openIdx: -1}
	if err := cmd.Start(); err != nil {
		ef.Close()
		res.died = true
		res.stderr = "cannot start worker: " + err.Error()
		return res
	}
	done := make(chan error, 1)
	go func() { done <- cmd.Wait() }()
	caseTimeout := defaultCaseTimeout
	if j.w.CaseTimeoutS > 0 {
		caseTimeout = time.Duration(j.w.CaseTimeoutS) * time.Second
	}
	start := time.Now()
	lastSize, lastGrowth := int64(-1), start
	tick := time.NewTicker(500 * time.Millisecond)
	fired := false
wait:
	for {
		select {
		case <-done:
			break wait
		case now := <-tick.C:
			if st, err := os.Stat(jr); err == nil && st.Size() != lastSize {
				lastSize, lastGrowth = st.Size(), now
			}
			if now.Sub(start) > timeout || now.Sub(lastGrowth) > caseTimeout {
				fired = true
				break wait
			}
		}
	}
	tick.Stop()
	if fired {
		cmd.Process.Signal(syscall.SIGQUIT)
		select {
		case <-done:
		case <-time.After(10 * time.Second):
			cmd.Process.Kill()
			<-done
		}
		res.timeout = true
	}
	ef.Close()
	if b, err := os.ReadFile(out); err == nil && !res.timeout {
		r := &Result{}
		if json.Unmarshal(b, r) == nil {
			r.unseal()
			res.res = r
			os.Remove(out)
			os.Remove(jr)
			os.Remove(errf)
			return res
		}
	}
	res.died = !res.timeout
	res.openIdx = lastOpen(jr)
	if b, err := os.ReadFile(errf); err == nil {
		res.stderr = tail(string(b), 80)
	}
	os.Remove(out)
	os.Remove(jr)
	os.Remove(errf)
	if m, _ := filepath.Glob(filepath.Join(dir, fmt.Sprintf("race-job%d.*", id))); len(m) > 0 {
		for _, f := range m {
			os.Remove(f)
		}
	}
	return res
}

// Run executes a whole check and returns the process exit code.
func Run(check Check, o *Options) int {
	t0 := time.Now()
	id := check.ID()
	if o.Workers <= 0 {
		// measured in this sandbox: allocation-heavy Go processes stop scaling
		// beyond ~4-6 in parallel (memory bandwidth), so that is the default
		n := runtime.NumCPU()
		if n > 5 {
			n = 5
		}
		o.Workers = envInt("VERIF_WORKERS", n)
	}
	plan := check.Plan(o.Tier, o.Seed)
	for _, w := range plan {
		if w.MaxWorkers > 0 && w.MaxWorkers < o.Workers {
			o.Workers = w.MaxWorkers
		}
	}
	os.RemoveAll(filepath.Join(o.Root, "replays", id))
	total := NewResult()
	var notes []string
	exhaustive := len(plan) > 0
	for _, w := range plan {
		if !w.Exhaustive {
			exhaustive = false
		}
	}

	if o.InProc {
		for _, w := range plan {
			for i := int64(0); i < w.N; i++ {
				c := NewCtx(id, o.Tier, o.Seed, w.Name, i, total)
				c.Verbose = o.Verbose
				check.Run(c, w.Name, i)
				total.Cases++
			}
		}
	} else {
		dir := filepath.Join(o.Root, ".build", "run", fmt.Sprintf("%s-%d", id, os.Getpid()))
		os.MkdirAll(dir, 0o755)
		defer os.RemoveAll(dir)
		var jobs []job
		for _, w := range plan {
			if w.N == 0 {
				continue
			}
			if w.Serial {
				jobs = append(jobs, job{w: w, from: 0, to: w.N})
				continue
			}
			chunks := int64(o.Workers * 2)
			size := (w.N + chunks - 1) / chunks
			if size < 1 {
				size = 1
			}
			for f := int64(0); f < w.N; f += size {
				t := f + size
				if t > w.N {
					t = w.N
				}
				jobs = append(jobs, job{w: w, from: f, to: t})
			}
		}
		var mu sync.Mutex
		var wg sync.WaitGroup
		queue := jobs
		nextID := 0
		inflight := 0
		cond := sync.NewCond(&mu)
		dp, _ := check.(DeathPolicy)
		deathViol, hangViol := true, false
		if dp != nil {
			deathViol, hangViol = dp.DeathIsViolation(), dp.HangIsViolation()
		}
		desc, _ := check.(Describer)
		describe := func(w string, i int64) any {
			if desc == nil {
				return nil
			}
			var out any
			func() {
				defer func() { recover() }()
				out = desc.Describe(NewCtx(id, o.Tier, o.Seed, w, i, NewResult()), w, i)
			}()
			return out
		}
		deaths := 0
		fatal := 0 // worker deaths and hangs already recorded as violations
		for w := 0; w < o.Workers; w++ {
			wg.Add(1)
			go func() {
				defer wg.Done()
				for {
					mu.Lock()
					for len(queue) == 0 && inflight > 0 {
						cond.Wait()
					}
					if len(queue) == 0 {
						mu.Unlock()
						cond.Broadcast()
						return
					}
					j := queue[0]
					queue = queue[1:]
					nextID++
					jid := nextID
					inflight++
					mu.Unlock()

					r := runJob(check, o, dir, jid, j)

					mu.Lock()
					inflight--
					switch {
					case r.res != nil:
						total.Merge(r.res)
					case r.openIdx < 0:
						notes = append(notes, fmt.Sprintf("worker for %s[%d,%d) failed before its first case: %s", j.w.Name, j.from, j.to, r.stderr))
						total.Inconclusive = append(total.Inconclusive, fmt.Sprintf("worker for %s[%d,%d) could not run: %s", j.w.Name, j.from, j.to, firstLine(r.stderr)))
					default:
						i := r.openIdx
						deaths++
						if deaths > 200 {
							total.Inconclusive = append(total.Inconclusive, "more than 200 worker deaths; giving up on requeueing")
							break
						}
						requeue := func(from, to int64) {
							if from < to {
								queue = append(queue, job{w: j.w, from: from, to: to})
							}
						}
						switch {
						case r.timeout && !(j.retry && i == j.to-1):
							// first firing at this case: repeat the same history up to
							// and including it in a fresh process (a hang may depend on
							// what the process did before, so the case is not run alone)
							notes = append(notes, fmt.Sprintf("watchdog fired in %s[%d,%d) at case %d; repeating [%d,%d] in a fresh process", j.w.Name, j.from, j.to, i, j.from, i))
							if j.w.Serial {
								total.Inconclusive = append(total.Inconclusive, fmt.Sprintf("serial workload %s: watchdog fired at case %d", j.w.Name, i))
								break
							}
							queue = append(queue, job{w: j.w, from: j.from, to: i + 1, retry: true})
							requeue(i+1, j.to)
						case r.timeout:
							v := Violation{Property: id, Class: "hang", Workload: j.w.Name, Index: i, HistoryFrom: &j.from,
								Detail: fmt.Sprintf("the case did not finish within the watchdog limit, twice, each time in a fresh process that had run cases [%d,%d) before it\n", j.from, i) + r.stderr, Case: describe(j.w.Name, i)}
							if hangViol {
								total.Violations = append(total.Violations, v)
								fatal++
							} else {
								total.Inconclusive = append(total.Inconclusive, fmt.Sprintf("%s/%d: did not finish within the watchdog limit (twice)", j.w.Name, i))
							}
							total.Cases++
							requeue(j.from, i)
						default:
							v := Violation{Property: id, Class: "worker-death", Workload: j.w.Name, Index: i,
								Detail: "the process running this case died\n" + r.stderr, Case: describe(j.w.Name, i)}
							if deathViol {
								total.Violations = append(total.Violations, v)
								fatal++
							} else {
								total.Inconclusive = append(total.Inconclusive, fmt.Sprintf("%s/%d: worker died: %s", j.w.Name, i, firstLine(r.stderr)))
							}
							total.Cases++
							if j.w.Serial {
								total.Inconclusive = append(total.Inconclusive, fmt.Sprintf("serial workload %s interrupted at case %d", j.w.Name, i))
							} else {
								requeue(j.from, i)
								requeue(i+1, j.to)
							}
						}
						if fatal >= 4 {
							// the verdict is settled; every further death costs a watchdog period
							if len(queue) > 0 {
								notes = append(notes, fmt.Sprintf("%d worker deaths / hangs recorded as violations; %d queued batches dropped", fatal, len(queue)))
								total.Inconclusive = append(total.Inconclusive, "exploration stopped early after 4 fatal violations")
							}
							queue = nil
						}
					}
					mu.Unlock()
					cond.Broadcast()
				}
			}()
		}
		wg.Wait()
	}

	extra := map[string]any{}
	if f, ok := check.(Finisher); ok {
		total.Inconclusive = append(total.Inconclusive, f.Finish(o.Tier, total, extra)...)
	}
	var expected int64
	for _, w := range plan {
		expected += w.N
	}
	if total.Cases != expected && len(total.Inconclusive) == 0 {
		total.Inconclusive = append(total.Inconclusive, fmt.Sprintf("ran %d of %d planned cases", total.Cases, expected))
	}

	// classify violations
	known, err := LoadKnown(filepath.Join(o.Root, "known_findings.json"))
	if err != nil {
		fmt.Println("cannot read known_findings.json:", err)
		return 2
	}
	sort.SliceStable(total.Violations, func(a, b int) bool {
		x, y := total.Violations[a], total.Violations[b]
		if x.Workload != y.Workload {
			return x.Workload < y.Workload
		}
		return x.Index < y.Index
	})
	type group struct {
		first Violation
		n     int
	}
	newV := map[string]*group{}
	var newOrder []string
	knownSeen := map[string]int{}
	for i := range total.Violations {
		v := &total.Violations[i]
		if f := known.Match(v); f != nil {
			knownSeen[f.ID]++
			continue
		}
		g := newV[v.Class]
		if g == nil {
			g = &group{first: *v}
			newV[v.Class] = g
			newOrder = append(newOrder, v.Class)
		}
		g.n++
	}
	for _, f := range known.Findings {
		if f.Status == "known" && f.Property == id {
			if n := knownSeen[f.ID]; n > 0 {
				fmt.Printf("KNOWN-FINDING: property=%s %s (%s; re-observed %d times)\n", id, f.What, f.ID, n)
			} else {
				notes = append(notes, fmt.Sprintf("known finding %s was not re-observed in this run", f.ID))
			}
		}
	}
	nViol := 0
	if len(newOrder) > 0 {
		os.MkdirAll(filepath.Join(o.Root, "replays", id), 0o755)
	}
	for k, class := range newOrder {
		g := newV[class]
		nViol += g.n
		if k >= 20 {
			continue
		}
		name := fmt.Sprintf("%s-%016x.json", sanitize(class), Hash64(fmt.Sprintf("%s|%d|%s|%d", o.Tier, o.Seed, g.first.Workload, g.first.Index)))
		path := filepath.Join(o.Root, "replays", id, name)
		rp := map[string]any{"property": id, "tier": o.Tier, "seed": o.Seed, "workload": g.first.Workload,
			"index": g.first.Index, "class": class, "detail": g.first.Detail, "case": g.first.Case, "occurrences": g.n}
		if g.first.HistoryFrom != nil {
			rp["history_from"] = *g.first.HistoryFrom
		}
		b, _ := json.MarshalIndent(rp, "", " ")
		os.WriteFile(path, b, 0o644)
		fmt.Printf("VIOLATION property=%s replay=%s\n", id, path)
		fmt.Printf("  class=%s occurrences=%d first=%s/%d\n  %s\n", class, g.n, g.first.Workload, g.first.Index,
			strings.ReplaceAll(firstLines(g.first.Detail, 12), "\n", "\n  "))
	}

	// evidence
	cov := map[string]any{
		"evaluations":         total.Evaluations,
		"distinct_nontrivial": total.DistinctCount(),
		"rule":                check.Rule(),
		"samples":             total.Samples,
		"cases":               total.Cases,
		"counters":            total.Counters,
	}
	if len(total.Max) > 0 {
		cov["max"] = total.Max
	}
	for _, s := range total.SetNames() {
		el := total.SetElems(s)
		cov["n_"+s] = len(el)
		if len(el) <= 400 {
			cov[s] = el
		}
	}
	if exhaustive && len(total.Inconclusive) == 0 {
		cov["exhaustive"] = true
	}
	wl := map[string]int64{}
	for _, w := range plan {
		wl[w.Name] = w.N
	}
	cov["workloads"] = wl
	if len(notes) > 0 {
		cov["notes"] = notes
	}
	if len(total.Inconclusive) > 0 {
		inc := total.Inconclusive
		if len(inc) > 20 {
			inc = inc[:20]
		}
		cov["inconclusive"] = inc
	}
	kf := []string{}
	for k, n := range knownSeen {
		kf = append(kf, fmt.Sprintf("%s x%d", k, n))
	}
	sort.Strings(kf)
	if len(kf) > 0 {
		cov["known_findings_reobserved"] = kf
	}
	for k, v := range extra {
		cov[k] = v
	}
	if total.Samples == nil {
		cov["samples"] = []any{}
	}
	ev := map[string]any{
		"property_id": id,
		"tier":        o.Tier,
		"seed":        o.Seed,
		"level":       "exploration",
		"coverage":    cov,
		"assumptions": Assumptions[id],
		"wall_s":      time.Since(t0).Seconds(),
		"violations":  nViol,
	}
	if ev["assumptions"] == nil {
		ev["assumptions"] = []string{}
	}
	os.MkdirAll(filepath.Join(o.Root, "evidence"), 0o755)
	var buf bytes.Buffer
	enc := json.NewEncoder(&buf)
	enc.SetEscapeHTML(false)
	enc.SetIndent("", " ")
	if err := enc.Encode(ev); err != nil {
		fmt.Println("cannot encode evidence:", err)
		return 2
	}
	if err := os.WriteFile(filepath.Join(o.Root, "evidence", id+".json"), buf.Bytes(), 0o644); err != nil {
		fmt.Println("cannot write evidence:", err)
		return 2
	}
	fmt.Printf("%s %s seed=%d: cases=%d evaluations=%d distinct_nontrivial=%d violations=%d known=%d wall=%.1fs\n",
		id, o.Tier, o.Seed, total.Cases, total.Evaluations, total.DistinctCount(), nViol, len(knownSeen), time.Since(t0).Seconds())
	if nViol > 0 {
		return 1
	}
	if len(total.Inconclusive) > 0 {
		for i, s := range total.Inconclusive {
			if i >= 10 {
				break
			}
			fmt.Printf("INCONCLUSIVE property=%s %s\n", id, s)
		}
		return 2
	}
	return 0
}

// Assumptions per property, filled by the checks' init functions.
var Assumptions = map[string][]string{}

func firstLine(s string) string { return firstLines(s, 1) }

func firstLines(s string, n int) string {
	l := strings.Split(strings.TrimSpace(s), "\n")
	if len(l) > n {
		l = append(l[:n], "…")
	}
	return strings.Join(l, "\n")
}

func sanitize(s string) string {
	var sb strings.Builder
	for _, r := range s {
		switch {
		case r >= 'a' && r <= 'z', r >= 'A' && r <= 'Z', r >= '0' && r <= '9', r == '-', r == '_':
			sb.WriteRune(r)
		default:
			sb.WriteByte('_')
		}
	}
	if sb.Len() > 60 {
		return sb.String()[:60]
	}
	return sb.String()
}

// Replay re-executes the single case recorded in a replay file.
func Replay(check Check, root, path string) int {
	b, err := os.ReadFile(path)
	if err != nil {
		fmt.Println(err)
		return 2
	}
	var rp struct {
		Property string `json:"property"`
		Tier     string `json:"tier"`
		Seed     int64  `json:"seed"`
		Workload string `json:"workload"`
		Index    int64  `json:"index"`
		History  *int64 `json:"history_from"`
		Class    string `json:"class"`
	}
	if err := json.Unmarshal(b, &rp); err != nil {
		fmt.Println(err)
		return 2
	}
	debug.SetMaxStack(256 << 20)
	res := NewResult()
	c := NewCtx(check.ID(), rp.Tier, rp.Seed, rp.Workload, rp.Index, res)
	c.Verbose = true
	if d, ok := check.(Describer); ok {
		cj, _ := json.MarshalIndent(d.Describe(NewCtx(check.ID(), rp.Tier, rp.Seed, rp.Workload, rp.Index, NewResult()), rp.Workload, rp.Index), "", " ")
		fmt.Printf("case %s/%d:\n%s\n", rp.Workload, rp.Index, cj)
	}
	if rp.History != nil {
		// the recorded violation depends on what the process did before
		fmt.Printf("running cases %s/[%d,%d) first (recorded history)\n", rp.Workload, *rp.History, rp.Index)
		for i := *rp.History; i < rp.Index; i++ {
			check.Run(NewCtx(check.ID(), rp.Tier, rp.Seed, rp.Workload, i, NewResult()), rp.Workload, i)
		}
	}
	if rp.Class == "hang" {
		fmt.Println("the recorded case did not finish: if it does not finish within the limit now, the hang is reproduced")
		go func() {
			time.Sleep(defaultCaseTimeout)
			fmt.Printf("VIOLATION property=%s replay=%s\n", check.ID(), path)
			os.Exit(1)
		}()
	}
	check.Run(c, rp.Workload, rp.Index)
	known, _ := LoadKnown(filepath.Join(root, "known_findings.json"))
	bad := 0
	for i := range res.Violations {
		if known != nil && known.Match(&res.Violations[i]) != nil {
			fmt.Printf("KNOWN-FINDING: property=%s class=%s\n", check.ID(), res.Violations[i].Class)
			continue
		}
		bad++
	}
	if bad > 0 {
		fmt.Printf("VIOLATION property=%s replay=%s\n", check.ID(), path)
		return 1
	}
	fmt.Println("replay: no violation reproduced")
	return 0
}
