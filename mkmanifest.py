#!/usr/bin/env python3
"""Regenerates MANIFEST.json from the table below (run after adding a check)."""
import json
props=[json.loads(l) for l in open('properties.jsonl')]
HOOKS=["1665e89","96d799b","cab05af","7674522","9152827"]
# id -> (level text, level note / trusted base, technique)
built={
"C05":("Every generated input (token-level mutants of valid programs, random token sequences, truncations at every byte, hostile strings/escapes, malformed numbers in every expression context, nesting to depth 5000, random bytes / invalid UTF-8) goes through the real ParsePipeline and the exported lexer while a monitor watches for non-termination in logical steps (lexer hook: token requests and state transitions bounded by a multiple of the input length), escaped panics, the parser's internal recover dump on stderr, tree-xor-error, tree completeness, a one-position PlError whose line/column match its offset, and an ordered gap-free token stream. Held = no refuting observation on the inputs explored.",
       "trusted: the 10-line reference offset->line/column routine; stderr redirection through os.Stderr; the work bounds 4n+64 / 16n+256; a hang inside one lexer state function or a grammar action is decided by watchdog + solitary re-run only",
       "runtime monitor over hostile parser inputs (panic / stderr / result-shape / token-stream invariants)"),
"C06":("Generated trees (all operator pairs exhaustively, random statement lists over every syntactic form) are printed with only the parentheses the precedence table requires, in a canonical layout and in k seeded layouts with comments / blank lines / line breaks at the admitted places; the tree returned by the real parser, converted to the generator's tree type, must equal the generated tree every time.",
       "trusted: the printer's precedence table (documented levels + gram.y for `in` and unary), the ast->tree converter",
       "round-trip oracle: generated tree -> text (x layouts) -> real parser -> tree equality"),
"C19":("Exhaustive enumeration of every parameter list (<=3 quick / <=4 thorough) and every call shape (<=4 / <=5 arguments) driven through the real CheckFnParamDef / ParseV2 / GetParam, compared with a 40-line reference binder. Held = every enumerated configuration agreed.",
       "trusted: the reference binder in cmd/vcheck/c19.go; the v2 parser for literal-only call expressions",
       "exhaustive small-scope enumeration through the real API + reference binder oracle"),
}
exec(open('manifest_extra.py').read()) if __import__('os').path.exists('manifest_extra.py') else None
m={
 "version":1,
 "setup_cmd":"./setup.sh",
 "hooks":{"guard":"verif","enable":"go build -tags verif (check.sh does it for every check)",
   "baseline_off_cmd":"cd /repo && go test -mod=mod -json -vet=off -count=1 -timeout 25m ./...",
   "source_commits":HOOKS,"add_only":True},
 "engines":[{"name":"vcheck","path":"cmd/vcheck","serves_properties":sorted(built),"kind_free_text":"Go runtime monitors: the real code is driven by seeded generators inside isolated worker processes; oracles are a reference model, structural invariants and trace specifications over recorded events"}],
 "checks":[],
 "not_applicable":[],
 "notes":"All checks: ./check.sh <id> quick|thorough; VERIF_SEED selects the case lists (pure functions of property, tier, seed). Exit 0 held / 1 VIOLATION / 2 inconclusive. See DESIGN.md."
}
for p in props:
    i=p['id']
    if i in built:
        t,n,tech=built[i]
        m['checks'].append({"property_id":i,"quick_cmd":"./check.sh %s quick"%i,"thorough_cmd":"./check.sh %s thorough"%i,
          "evidence_file":"/verif/evidence/%s.json"%i,"replay_cmd_template":"./check.sh %s --replay {path}"%i,"engine":"vcheck",
          "level_claimed":{"category":"exploration","text":t,"design_ref":"DESIGN.md §5 "+i},"level_note":n,"technique":tech})
    else:
        m['not_applicable'].append({"property_id":i,"reason":"monitor not built yet (work in progress; DESIGN.md §5 describes the planned runtime monitor)"})
json.dump(m,open('MANIFEST.json','w'),indent=1)
print(len(m['checks']),"checks,",len(m['not_applicable']),"not claimed")
