package main

import (
	"fmt"
	"math/rand"
	"os"
	"path/filepath"
	"regexp"
	"runtime"
	"sort"
	"strings"
	"sync"
	"sync/atomic"
	"time"

	"github.com/GuanceCloud/platypus/pkg/engine"
	plrt "github.com/GuanceCloud/platypus/pkg/engine/runtime"
	"github.com/GuanceCloud/platypus/pkg/inimpl/guancecloud/input"
	"github.com/GuanceCloud/platypus/pkg/parser"

	"verif/internal/drive"
	"verif/internal/gen"
	"verif/internal/gt"
	"verif/internal/mon"
)

// C16: loaded scripts and the parser are safe for concurrent use.

type c16 struct{}

func init() {
	register(c16{})
	mon.Assumptions["C16"] = []string{
		"the deciding instrument is the Go race detector (this check runs the -race build of the monitor); it reports only races that actually happen in the explored schedules",
		"the monitor's own per-run state is goroutine-local; shared monitor state is limited to atomic in-flight counters and a result channel",
		"scheduling noise (Gosched / sleeps of 0-50 microseconds chosen by a per-run PRNG) is injected at the step hook between node evaluations",
	}
}

func (c16) ID() string             { return "C16" }
func (c16) DeathIsViolation() bool { return true }
func (c16) HangIsViolation() bool  { return true }
func (c16) Rule() string {
	return "rounds of G in {2, 4, 8, 16} goroutines, each a seeded mix of (a) ParsePipeline / ParseScript of different sources incl. invalid ones and scripts using grok / add_pattern / use and (b) runs of a small set of SHARED loaded scripts (grok with typed captures, add_pattern in nested scopes, use() chains, replace, xml, sql_cover, default_time, load_json, slices, loops) on private points, with randomised start offsets and scheduling noise at the step hook, under the race detector. Refuted by any race report whose stack touches platypus or its dependencies, or by a run whose outcome differs from the sequential outcome of the same (script, point). Non-trivial = distinct unordered pairs of operation kinds observed in flight at the same time; distinct = the same."
}

func (c16) Plan(tier string, seed int64) []mon.Workload {
	n := int64(12)
	if tier == "thorough" {
		n = 120
	}
	return []mon.Workload{{Name: "rounds", N: n, Procs: 8, MaxWorkers: 2, BatchTimeoutS: 3000, CaseTimeoutS: 900}}
}

var c16Shared = map[string]string{
	"grok.p": "add_pattern(\"pp\", \"[a-z]+\")\nif true {\n  add_pattern(\"qq\", \"\\\\d+\")\n  ok = grok(_, \"%{pp:w} %{qq:n:int} %{NUMBER:x:float}\")\n  add_key(ok)\n}\ngrok(line2, \"%{IP:ip} %{WORD:verb}\", false)\n",
	"use.p":  "add_key(a1, 1)\nuse(\"lib1.p\")\nadd_key(a2, from_lib2)\n",
	"lib1.p": "add_key(from_lib1, \"x\")\nuse(\"lib2.p\")\nreplace(msg2, \"(\\\\d+)-(\\\\d+)\", \"$2-$1\")\n",
	// a callee that fails at run time for about half of the points: error paths release pooled objects too
	"usefail.p": "add_key(b1, 1)\nif n % 2 == 0 {\n  use(\"mayfail.p\")\n}\nuse(\"mayfail.p\")\nadd_key(b2, 2)\n",
	"mayfail.p": "l = [10, 20, 30]\nadd_key(seen_n, n)\nif n >= 25 {\n  add_key(picked, l[n])\n}\nuse(\"lib2.p\")\n",
	// scripts with 3, 5 and 6 use() call sites (the loaded script's call-site list then has spare capacity)
	"use3.p": "use(\"lib2.p\")\nif n > 10 {\n  use(\"lib2.p\")\n}\nuse(\"lib2.p\")\n",
	"use5.p": "use(\"lib2.p\")\nuse(\"lib2.p\")\nfor i = 0; i < 2; i = i + 1 {\n  use(\"lib2.p\")\n}\nuse(\"use3.p\")\nuse(\"lib2.p\")\n",
	"use6.p": "use(\"lib2.p\")\nuse(\"lib2.p\")\nuse(\"lib2.p\")\nuse(\"lib2.p\")\nuse(\"lib2.p\")\nuse(\"use5.p\")\n",
	// a run that fails inside a block after assigning top-level variables, and scripts that read names they never assign
	"leak.p":   "w = message\nq = [n, n]\nif n % 3 == 0 {\n  for i = 0; i < 2; i = i + 1 {\n    x = 1 / zero_is_nil\n  }\n}\nadd_key(out, w)\n",
	"reader.p": "add_key(seen_w, w)\nadd_key(seen_q, q)\nadd_key(seen_x, x)\nif true {\n  w = \"mine\"\n}\nadd_key(seen_w2, w)\n",
	// SQL with string literals that end in a backslash / hold an escaped quote / are ambiguous between both readings, chosen by the point
	"sql.p": "if n % 3 == 0 {\n  add_key(q3, \"select * from t where p = 'C:\\\\'\")\n} elif n % 3 == 1 {\n  add_key(q3, \"select * from t where p = 'it\\\\'s' and a = 1\")\n} else {\n  add_key(q3, \"SELECT name FROM t WHERE path = 'C:\\\\' AND note = 1 -- it's\")\n}\nsql_cover(q3)\n",
	// constant literals with literals inside, written into in place by every run (with point-dependent values) and read back
	"nested.p": "a = [[0, 0], [1, 1]]\nm = {\"limits\": [10, 20], \"d\": {\"z\": 0}}\na[0][1] = n\nm[\"limits\"][0] = m[\"limits\"][0] + n\nm[\"d\"][\"z\"] = m[\"d\"][\"z\"] + 1\nfor s in a {\n  s[0] = s[0] + n\n}\nfor i = 0; i < 2; i = i + 1 {\n  t = [[i], {\"k\": [i]}]\n  t[0][0] = t[0][0] + n\n  t[1][\"k\"][0] = t[1][\"k\"][0] + 1\n  add_key(nt, t)\n}\nadd_key(na, a)\nadd_key(nm, m[\"limits\"])\nadd_key(nz, m[\"d\"][\"z\"])\n",
	// the same grok text under two different outer alias definitions, the grok nested below its add_pattern
	"galias1.p": "add_pattern(\"tok\", \"[0-9]+\")\nif true {\n  ok = grok(_, \"%{tok:w}\")\n  add_key(ga, w)\n}\n",
	"galias2.p": "add_pattern(\"tok\", \"[a-z]+\")\nfor e in [1] {\n  if grok(_, \"%{tok:w}\") {\n    add_key(ga, w)\n  }\n}\n",
	// a callee whose builtin fails at run time with an error built from load-time data
	"dtfail.p": "add_key(c1, 1)\nuse(\"dtbad.p\")\nadd_key(c2, 2)\n",
	"dtbad.p":  "add_key(ts3, 1700000000)\ndatetime(ts3, \"s\", \"no-such-layout-name\")\nadd_key(after_dt, 1)\n",
	// one zone per point value: the first use of each zone happens inside the concurrent phase
	"zones.p": c16ZoneScript(),
	"lib2.p":  "add_key(from_lib2, len(\"héllo\"))\nfor i = 0; i < 3; i = i + 1 {\n  add_key(cnt, i)\n}\n",
	"mix.p":   "xml(doc, \"/a/b\", xb)\nsql_cover(q)\ndefault_time(ts, \"Asia/Tokyo\")\nj = load_json(js)\nadd_key(jl, len(j[\"a\"]))\nl = [1, 2, 3, 4, 5]\nadd_key(sl, l[::-2])\ns = \"\"\nfor e in j[\"a\"] {\n  if e == 2 { continue }\n  s = s + \"x\"\n}\nadd_key(s)\nuppercase(verb)\ntrim(pad)\nurl_decode(u)\ncast(n, \"float\")\nset_tag(host)\nrename(renamed, msg2)\nstrfmt(f, \"%v-%s\", 1, verb)\n",
}

var c16BigBad = []string{"w05.p", "w11.p", "w17.p", "w23.p"}
var c16BigSet = func() map[string]string {
	m := map[string]string{}
	for i := 0; i < 40; i++ {
		m[fmt.Sprintf("w%02d.p", i)] = fmt.Sprintf("# member %d\nadd_key(k%d, %d)\nif k%d == %d {\n  x = [1, 2][%d:]\n}\n", i, i, i, i, i, i%3)
	}
	m["w05.p"] = "a b\n"
	m["w11.p"] = "if true {\n  nosuch_fn(1)\n}\n"
	m["w17.p"] = "x = 1 / 0\ny = \"open\n"
	m["w23.p"] = "len()\n"
	return m
}()

func c16Point(r *rand.Rand) (*input.Point, string) {
	msgs := []string{"abc 12 3.5", "hello 7 1e3", "x 0 0", "no match here!", ""}
	fields := map[string]any{
		"message": msgs[r.Intn(len(msgs))], "line2": "10.0.0.1 GET", "msg2": fmt.Sprintf("%d-%d", r.Intn(100), r.Intn(100)),
		"doc": "<a><b>bee</b></a>", "q": "select * from t where id = 5", "ts": "2021-05-27 06:54:14.760 UTC",
		"js": "{\"a\": [1, 2, 3]}", "verb": "get", "pad": "  p  ", "u": "a%20b", "n": int64(r.Intn(50)), "host": "h" + fmt.Sprint(r.Intn(3)),
	}
	pt := input.GetPoint()
	input.InitPt(pt, "m", map[string]string{"tg": "v"}, fields, time.Unix(1700000000, 0))
	return pt, fmt.Sprint(fields["message"], fields["msg2"], fields["n"], fields["host"])
}

var c16ParseSrcs = []string{
	"a = 1 + 2 * 3\nif a { b = [1, 2][0:1] }\n", "x = \"unterminated", "for i = 0; i < 3; i = i + 1 { p(i) }", "a b c", "x = 0x", "m = {\"k\": [1, {\"z\": nil}]}\n",
	"add_pattern(\"zz\", \"[0-9]+\")\ngrok(_, \"%{zz:v:int}\")\n", "grok(_, \"%{NOSUCH:x}\")", "use(\"lib2.p\")\n", "# only a comment\n", "x = '''multi\nline'''\n",
	// string literals that take the decoding path (escapes, embedded quotes,
	// multi-line) and hold characters of every UTF-8 length, different in
	// every source, so that shared decoder scratch state would show
	"x = \"é\\tééééééééééééé \\\\ é\"\n", "y = '世\\n世世世世世世世世世世世世 \\' 世'\n", "z = \"\"\"日本日本日本日本\n\"q\" 日本日本\"\"\"\n",
	"w = \"\\U0001F600😀😀😀😀😀😀😀😀 \\u00e9 ok\\n\"\n", "v = '''ñ\\ñ\nñ'ñ'ñññññññ'''\n", "u = \"a\\x41ßßßßßßßßßßßßßßß\\101\"\nt = \"𝄞\\\"𝄞𝄞𝄞𝄞𝄞𝄞\"\n",
}

func c16ZoneScript() string {
	zones := []string{"Asia/Tokyo", "Europe/Paris", "America/New_York", "Africa/Cairo", "Australia/Sydney", "Asia/Kolkata", "America/Sao_Paulo", "Pacific/Auckland", "Europe/Moscow", "Asia/Dubai",
		"+8", "-3:30", "+5:45", "+12:45", "-11", "+14", "UTC", "Asia/Shanghai", "America/Chicago", "Europe/London", "Asia/Seoul", "Africa/Lagos", "America/Denver", "Asia/Bangkok", "Nowhere/Land"}
	var sb strings.Builder
	for j, z := range zones {
		kw := "elif"
		if j == 0 {
			kw = "if"
		}
		fmt.Fprintf(&sb, "%s n %% %d == %d {\n  default_time(ts, \"%s\")\n} ", kw, len(zones), j, z)
	}
	sb.WriteString("\nadd_key(done, n)\n")
	return sb.String()
}

func showPt(p *input.Point) string { return showRealPoint(p) }

var raceBlock = regexp.MustCompile(`(?s)WARNING: DATA RACE.*?==================`)

func (k c16) Run(c *mon.Ctx, workload string, i int64) {
	drive.Init()
	drive.Concurrent = true
	if !mon.RaceEnabled {
		c.Inconclusive("this check must run in the -race build of the monitor")
		return
	}
	G := []int{2, 4, 8, 16}[i%4]
	opsPer := 2000 / G
	if c.Tier == "thorough" {
		opsPer = 8000 / G
	}
	// shared scripts, loaded once (sequentially)
	call, check := drive.V1Funcs()
	shared, errs := engine.ParseScript(c16Shared, call, check)
	if len(errs) > 0 {
		c.Violate("shared-set-rejected", fmt.Sprint(errs), nil)
		return
	}
	runnable := []string{"grok.p", "use.p", "mix.p", "lib2.p", "usefail.p", "usefail.p", "use3.p", "use5.p", "use6.p", "zones.p", "zones.p", "dtfail.p", "dtbad.p", "leak.p", "leak.p", "reader.p", "reader.p", "sql.p", "sql.p", "nested.p", "nested.p", "galias1.p", "galias2.p"}
	// generated sources for the parsers
	var genSrcs []string
	for j := 0; j < 20; j++ {
		s := gen.NewSyntax(gen.Rand(c.Seed*7919 + i*101 + int64(j)))
		genSrcs = append(genSrcs, gt.Print(gt.ParenthesizeStmts(s.Program(3, 2, 2)), nil))
	}
	// keywords in fresh random letter case (per round): per-spelling lazy work in the lexer
	kr := gen.Rand(c.Seed*31 + i)
	for j := 0; j < 12; j++ {
		text := "IF TRUE {\n  x = NIL\n} ELIF FALSE {\n  y = NULL\n} ELSE {\n  z = 1\n}\nFOR a IN [1] {\n  CONTINUE\n}\nFOR ;; {\n  BREAK\n}\n"
		for _, w := range []string{"if", "elif", "else", "for", "in", "break", "continue", "true", "false", "nil", "null"} {
			b := []byte(w)
			for q := range b {
				if kr.Intn(2) == 0 {
					b[q] -= 32
				}
			}
			text = strings.ReplaceAll(text, strings.ToUpper(w)+" ", string(b)+" ")
			text = strings.ReplaceAll(text, strings.ToUpper(w)+"\n", string(b)+"\n")
		}
		genSrcs = append(genSrcs, text)
	}
	// sequential outcomes
	type key struct {
		script string
		pseed  int64
	}
	seq := map[key]string{}
	// the sequential reference runs on its own copy of the scripts, so that
	// the shared set meets its first runs concurrently (lazy initialisation
	// on first use is where races hide)
	sharedSeq, _ := engine.ParseScript(c16Shared, call, check)
	seqOutcome := func(name string, pseed int64) string {
		pt, _ := c16Point(gen.Rand(pseed))
		rs := &drive.RunState{Budget: 200000}
		o := drive.RunV1(sharedSeq[name], pt, rs)
		out := fmt.Sprintf("panic=%v err=%s point=%s", o.Panic, drive.ErrString(o.Err), showPt(pt))
		input.PutPoint(pt)
		return out
	}
	nPoints := int64(25)
	seqParse := map[string]string{}
	parseOutcome := func(src string) string {
		st, err := parser.ParsePipeline("par.p", src)
		return fmt.Sprintf("%v|%v", st.String(), err)
	}
	// The sequential reference is computed AFTER the concurrent phase: whatever
	// the process initialises lazily on first use (caches of zones, patterns,
	// spellings, pools) must meet its first uses concurrently.
	computeReference := func() {
		for _, name := range runnable {
			for ps := int64(0); ps < nPoints; ps++ {
				seq[key{name, ps}] = seqOutcome(name, ps)
			}
		}
		for _, s := range append(append([]string{}, c16ParseSrcs...), genSrcs...) {
			seqParse[s] = parseOutcome(s)
		}
	}
	type observation struct {
		parse bool
		name  string // script name or source text
		ps    int64
		got   string
	}
	var observedMu sync.Mutex
	var observed []observation

	var inflight [4]int32 // 0 parse, 1 load-set, 2 run, 3 run-use
	var pairs sync.Map
	kinds := []string{"parse", "load-set", "run", "run-use-chain"}
	note := func(kind int) {
		for o := range inflight {
			if atomic.LoadInt32(&inflight[o]) > 0 {
				a, b := kinds[kind], kinds[o]
				if a > b {
					a, b = b, a
				}
				pairs.Store(a+" || "+b, true)
			}
		}
	}
	var maxIn int32
	var total int32
	type bad struct{ what, detail string }
	badc := make(chan bad, 64)
	var dropped int32
	// never block a worker goroutine on the monitor's own channel: nobody
	// drains it before the round is over
	report := func(b bad) {
		select {
		case badc <- b:
		default:
			atomic.AddInt32(&dropped, 1)
		}
	}
	subRounds := 8
	opsPer = opsPer / subRounds
	if opsPer < 5 {
		opsPer = 5
	}
	for sub := 0; sub < subRounds; sub++ {
		if sub > 0 {
			shared, errs = engine.ParseScript(c16Shared, call, check)
			if len(errs) > 0 {
				c.Violate("shared-set-rejected", fmt.Sprint(errs), nil)
				return
			}
		}
		shared := shared
		sub := sub
		var wg sync.WaitGroup
		start := make(chan struct{})
		for g := 0; g < G; g++ {
			wg.Add(1)
			go func(g int) {
				defer wg.Done()
				r := gen.Rand(c.Seed*1_000_003 + i*1009 + int64(g) + int64(sub)*77773)
				var local []observation // merged after the goroutine's last operation
				defer func() {
					observedMu.Lock()
					observed = append(observed, local...)
					observedMu.Unlock()
				}()
				<-start
				time.Sleep(time.Duration(r.Intn(200)) * time.Microsecond)
				for n := 0; n < opsPer; n++ {
					switch op := r.Intn(10); {
					case op < 3:
						all := c16ParseSrcs
						if r.Intn(2) == 0 {
							all = genSrcs
						}
						src := all[r.Intn(len(all))]
						note(0)
						atomic.AddInt32(&inflight[0], 1)
						got := parseOutcome(src)
						atomic.AddInt32(&inflight[0], -1)
						local = append(local, observation{true, src, 0, got})
					case op == 3:
						note(1)
						atomic.AddInt32(&inflight[1], 1)
						// a reload of the very same set: alternately with the function
						// tables the shared set was loaded with and with fresh ones
						cl, ck := call, check
						if r.Intn(2) == 0 {
							cl, ck = drive.V1Funcs()
						}
						if r.Intn(3) == 0 {
							// a LARGE workspace (40 scripts) with two unparsable and two
							// check-failing members: exactly those four are rejected
							okB, errB := engine.ParseScript(c16BigSet, cl, ck)
							atomic.AddInt32(&inflight[1], -1)
							if len(errB) != len(c16BigBad) || len(okB) != len(c16BigSet)-len(c16BigBad) {
								report(bad{"concurrent-load-differs", fmt.Sprintf("loading the 40-script set concurrently: %d accepted, %d rejected (%v); %d of them are faulty", len(okB), len(errB), errB, len(c16BigBad))})
							}
							for _, n := range c16BigBad {
								if errB[n] == nil {
									report(bad{"concurrent-load-differs", fmt.Sprintf("the faulty member %s of the 40-script set was not rejected", n)})
								}
							}
							atomic.AddInt32(&total, 1)
							continue
						}
						okS, errS := engine.ParseScript(c16Shared, cl, ck)
						atomic.AddInt32(&inflight[1], -1)
						if len(errS) > 0 || len(okS) != len(c16Shared) {
							report(bad{"concurrent-load-differs", fmt.Sprintf("loading the shared set concurrently failed: %v", errS)})
						}
					default:
						name := runnable[r.Intn(len(runnable))]
						ps := r.Int63n(nPoints)
						kind := 2
						if strings.HasPrefix(name, "use") {
							kind = 3
						}
						note(kind)
						cur := atomic.AddInt32(&inflight[kind], 1)
						for {
							m := atomic.LoadInt32(&maxIn)
							tot := atomic.LoadInt32(&inflight[0]) + atomic.LoadInt32(&inflight[1]) + atomic.LoadInt32(&inflight[2]) + atomic.LoadInt32(&inflight[3])
							if tot <= m || atomic.CompareAndSwapInt32(&maxIn, m, tot) {
								break
							}
						}
						_ = cur
						pt, _ := c16Point(gen.Rand(ps))
						yr := gen.Rand(r.Int63())
						rs := &drive.RunState{Budget: 200000, Yield: func(steps int64) {
							switch yr.Intn(40) {
							case 0:
								runtime.Gosched()
							case 1:
								time.Sleep(time.Duration(yr.Intn(50)) * time.Microsecond)
							}
						}}
						o := drive.RunV1(shared[name], pt, rs)
						got := fmt.Sprintf("panic=%v err=%s point=%s", o.Panic, drive.ErrString(o.Err), showPt(pt))
						input.PutPoint(pt)
						atomic.AddInt32(&inflight[kind], -1)
						local = append(local, observation{false, name, ps, got})
					}
					atomic.AddInt32(&total, 1)
				}
			}(g)
		}
		close(start)
		wg.Wait()
	}
	computeReference()
	// "the same result as when executed alone", in closed form for the two
	// alias scripts: what one script's alias means is not decided by another
	// script that happens to share the pattern text
	for name, pat := range map[string]string{"galias1.p": "[0-9]+", "galias2.p": "[a-z]+"} {
		re := regexp.MustCompile(pat)
		for ps := int64(0); ps < nPoints; ps++ {
			pt, _ := c16Point(gen.Rand(ps))
			msg, _ := pt.Fields["message"].(string)
			want := re.FindString(msg)
			drive.RunV1(sharedSeq[name], pt, &drive.RunState{Budget: 200000})
			got, _ := pt.Fields["ga"].(string)
			input.PutPoint(pt)
			if got != want {
				report(bad{"run-differs-from-alone", fmt.Sprintf("script %s (alias tok = %s) on message %q stored ga=%q; alone it stores %q", name, pat, msg, got, want)})
				break
			}
		}
	}
	seenDiff := map[string]bool{}
	for _, o := range observed {
		if o.parse {
			if want := seqParse[o.name]; o.got != want && !seenDiff["p"+o.name] {
				seenDiff["p"+o.name] = true
				report(bad{"concurrent-parse-differs", fmt.Sprintf("source %q\n  concurrent: %s\n  sequential: %s", o.name, short(o.got), short(want))})
			}
			continue
		}
		if want := seq[key{o.name, o.ps}]; o.got != want && !seenDiff[fmt.Sprint("r", o.name, o.ps)] {
			seenDiff[fmt.Sprint("r", o.name, o.ps)] = true
			report(bad{"concurrent-run-differs", fmt.Sprintf("script %s on point #%d\n  concurrent: %s\n  sequential: %s", o.name, o.ps, short(o.got), short(want))})
		}
	}
	c.Count("outcomes_compared_with_the_sequential_reference", len(observed))
	close(badc)
	c.Count("differences_beyond_the_first_64", int(dropped))
	c.Eval(int(total))
	c.MaxOf("max_in_flight", int64(maxIn))
	c.Cell("goroutine_counts", fmt.Sprint(G))
	pairs.Range(func(k2, _ any) bool {
		c.Nontrivial(k2.(string))
		c.Cell("in_flight_pairs", k2.(string))
		return true
	})
	for b := range badc {
		c.Violate(b.what, b.detail, map[string]any{"goroutines": G})
		break
	}
	// race reports written by the detector during this round
	reports := readRaceLog()
	c.Count("race_reports", len(reports))
	seen := map[string]bool{}
	for _, rep := range reports {
		sig := raceSignature(rep)
		if seen[sig] {
			continue
		}
		seen[sig] = true
		c.Violate("data-race:"+sig, firstN(rep, 60), map[string]any{"goroutines": G})
	}
	if c.WantSample() {
		var ps []string
		pairs.Range(func(k2, _ any) bool { ps = append(ps, k2.(string)); return true })
		sort.Strings(ps)
		c.Sample(map[string]any{"goroutines": G, "operations": total, "max_in_flight": maxIn, "in_flight_pairs": ps})
	}
}

var raceOff int64

// readRaceLog returns the race report blocks appended to this process's race
// log since the last call.
func readRaceLog() []string {
	spec := os.Getenv("GORACE")
	i := strings.Index(spec, "log_path=")
	if i < 0 {
		return nil
	}
	path := strings.Fields(spec[i+len("log_path="):])[0]
	m, _ := filepath.Glob(fmt.Sprintf("%s.%d", path, os.Getpid()))
	if len(m) == 0 {
		return nil
	}
	b, err := os.ReadFile(m[0])
	if err != nil || int64(len(b)) <= raceOff {
		return nil
	}
	text := string(b[raceOff:])
	raceOff = int64(len(b))
	return raceBlock.FindAllString(text, -1)
}

var frameRe = regexp.MustCompile(`(?m)^  (github\.com/GuanceCloud/platypus/[^\s(]+)`)

// raceSignature de-duplicates reports by the pair of outermost platypus
// frames of the two stacks.
func raceSignature(rep string) string {
	parts := strings.Split(rep, "Previous ")
	sig := []string{}
	for _, p := range parts {
		fr := frameRe.FindAllStringSubmatch(p, -1)
		if len(fr) > 0 {
			f := fr[0][1]
			f = strings.TrimPrefix(f, "github.com/GuanceCloud/platypus/")
			sig = append(sig, f)
		}
	}
	if len(sig) == 0 {
		return "outside-platypus"
	}
	sort.Strings(sig)
	return strings.Join(sig, "~")
}

var _ = plrt.NewRunError
