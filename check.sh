#!/bin/sh
# ./check.sh <Cxx> quick|thorough        run one property monitor against /repo's working tree
# ./check.sh <Cxx> --replay <path>       re-execute one recorded case
# Exit 0: held on everything explored; 1: VIOLATION line(s) printed; 2: inconclusive.
cd "$(dirname "$0")" || exit 2
ROOT=$(pwd)
export GOFLAGS=-mod=mod GOPROXY=off GOSUMDB=off GOTOOLCHAIN=local
ID="$1"; MODE="${2:-quick}"
[ -n "$ID" ] || { echo "usage: $0 <Cxx> quick|thorough|--replay <path>"; exit 3; }
mkdir -p .build; find .build/c15ref -mindepth 1 -maxdepth 1 -mmin +30 -exec rm -rf {} + 2>/dev/null
build() { # $1 = output name, $2 = package, rest = go build flags
  out="$1"; pkg="$2"; shift 2
  if ! go build "$@" -o ".build/$out.$$" "$pkg" >".build/$out.$$.log" 2>&1; then
    cat ".build/$out.$$.log"; rm -f ".build/$out.$$" ".build/$out.$$.log"
    echo "INCONCLUSIVE property=$ID build of $out failed"
    exit 2
  fi
  rm -f ".build/$out.$$.log"; mv -f ".build/$out.$$" ".build/$out"
}
BIN=vcheck
case "$ID" in
  C16) BIN=vcheck-race; build vcheck-race ./cmd/vcheck -race -tags verif ;;
  C20) build vcheck ./cmd/vcheck -tags verif; (cd /repo && go build -o "$ROOT/.build/platypus" ./cmd/platypus) || { echo "INCONCLUSIVE property=$ID build of platypus failed"; exit 2; } ;;
  *)   build vcheck ./cmd/vcheck -tags verif ;;
esac
if [ "$MODE" = "--replay" ]; then
  exec ".build/$BIN" replay "$ID" "$3"
fi
exec ".build/$BIN" run "$ID" "$MODE"
