package main

import (
	"fmt"
	"sort"
	"strings"

	"github.com/GuanceCloud/platypus/pkg/ast"
	"github.com/GuanceCloud/platypus/pkg/engine"
	plrt "github.com/GuanceCloud/platypus/pkg/engine/runtime"
	"github.com/GuanceCloud/platypus/pkg/errchain"
	"github.com/GuanceCloud/platypus/pkg/inimpl/guancecloud/funcs"
	"github.com/GuanceCloud/platypus/pkg/parser"

	"verif/internal/drive"
	"verif/internal/gt"
	"verif/internal/mon"
)

// C09: use() linking accepts exactly the acyclic, fully resolvable script
// sets.

type c09 struct{}

func init() {
	register(c09{})
	mon.Assumptions["C09"] = []string{
		"graph model: a script is accepted iff it parses and checks and everything reachable from it exists, parses, checks and the reachable sub-graph has no cycle",
		"visiting orders are enumerated through the verif-tagged VerifLinkInOrder (same dfs, caller-given root order); the real map-order driver is exercised on every insertion permutation and must agree with the ordered driver for the order it reports through the visit hook",
		"which failing path is reported is not prescribed; the chain is validated structurally (root cause, then exact use call sites innermost first, ending in the rejected script)",
		"for a cycle the first entry names the rejected script (pinned by TestCallRefCheck) and must be the position of one of its own use calls",
	}
}

func (c09) ID() string { return "C09" }
func (c09) Rule() string {
	return "configurations: every set of n scripts (n <= 2 quick, n <= 3 thorough; exhaustive) where each script is valid / unparsable / check-failing and makes 0..2 use calls to any member or to a missing name, plus seeded random sets with n = 4; every configuration is linked in all n! root orders through the ordered driver and through the real ParseScript on every insertion permutation (repeated). Checked: verdict per script = graph model, identical for every order and repetition; every accepted use call bound to the accepted script object of that name; rejected scripts' chains structurally valid with exact call-site positions (every script has its calls at distinct line/column positions). Non-trivial = the configuration has at least one use edge. Distinct = distinct configurations."
}

type c09Script struct {
	Kind  int   // 0 valid, 1 unparsable, 2 check-failing
	Calls []int // target index; n = missing
}

type c09Config struct {
	N       int
	Scripts []c09Script
}

// script names are ordinary map keys: per cents, blanks and dots included
func c09Name(i int) string {
	if i >= 8 {
		return fmt.Sprintf("s%d.p", i)
	}
	return []string{"a.p", "b%d.p", "100%.p", "d %s d.p", "e.p", "f.p", "g.ppl", "h-8.p"}[i]
}

func c09PerScript(n int) int64 { return 3 * (1 + int64(n+1) + int64(n+1)*int64(n+1)) }

func c09Decode(n int, idx int64) c09Config {
	per := c09PerScript(n)
	cfg := c09Config{N: n}
	for i := 0; i < n; i++ {
		x := idx % per
		idx /= per
		s := c09Script{Kind: int(x % 3)}
		x /= 3
		t := int64(n + 1)
		switch {
		case x == 0:
		case x < 1+t:
			s.Calls = []int{int(x - 1)}
		default:
			x -= 1 + t
			s.Calls = []int{int(x / t), int(x % t)}
		}
		cfg.Scripts = append(cfg.Scripts, s)
	}
	return cfg
}

func c09Count(n int) int64 {
	r := int64(1)
	for i := 0; i < n; i++ {
		r *= c09PerScript(n)
	}
	return r
}

func (c09) Plan(tier string, seed int64) []mon.Workload {
	if tier == "thorough" {
		return []mon.Workload{
			{Name: "n1", N: c09Count(1), Exhaustive: true},
			{Name: "n2", N: c09Count(2), Exhaustive: true},
			{Name: "n3", N: c09Count(3), Exhaustive: true},
			{Name: "n4-random", N: 120000},
			{Name: "deep-chains", N: 6000},
			{Name: "big-sets", N: int64(len(c09BigSizes) * len(c09BigShapes)), Exhaustive: true},
		}
	}
	return []mon.Workload{
		{Name: "n1", N: c09Count(1), Exhaustive: true},
		{Name: "n2", N: c09Count(2), Exhaustive: true},
		{Name: "n3-random", N: 4000},
		{Name: "n4-random", N: 3000},
		{Name: "deep-chains", N: 150},
		{Name: "big-sets", N: int64(len(c09BigSizes) * len(c09BigShapes)), Exhaustive: true},
	}
}

// big-sets (exhaustive): sets of 9..65 scripts (both sides of 16, 32, 64) in
// the shapes real workspaces have - one long chain, a star, a binary tree, a
// ladder of diamonds, two chains that join - valid, or with one fault at the
// far end (a missing script, an unparsable one, a call back to the middle).
var c09BigSizes = []int{9, 15, 16, 17, 31, 32, 33, 63, 64, 65}
var c09BigShapes = []string{"chain", "star", "tree", "ladder", "join", "chain-missing", "chain-broken", "chain-cycle", "tree-missing", "ladder-cycle", "star-broken"}

func c09Big(i int64) c09Config {
	shape := c09BigShapes[int(i)%len(c09BigShapes)]
	n := c09BigSizes[int(i)/len(c09BigShapes)]
	cfg := c09Config{N: n, Scripts: make([]c09Script, n)}
	call := func(from, to int) { cfg.Scripts[from].Calls = append(cfg.Scripts[from].Calls, to) }
	base := strings.SplitN(shape, "-", 2)[0]
	switch base {
	case "chain":
		for s := 0; s+1 < n; s++ {
			call(s, s+1)
		}
	case "star":
		// the root calls two hubs, every hub calls the next two scripts (calls per script stay small)
		for s := 0; s < n; s++ {
			if 2*s+1 < n {
				call(s, 2*s+1)
			}
			if 2*s+2 < n {
				call(s, 2*s+2)
			}
			if s > 0 && s%5 == 0 {
				call(0, s)
			}
		}
	case "tree":
		for s := 0; s < n; s++ {
			if 2*s+1 < n {
				call(s, 2*s+1)
			}
			if 2*s+2 < n {
				call(s, 2*s+2)
			}
		}
	case "ladder":
		for s := 0; s+1 < n; s++ {
			call(s, s+1)
			if s+2 < n {
				call(s, s+2)
			}
		}
	case "join":
		for s := 0; s+2 < n; s++ {
			call(s, s+2)
		}
		call(n-2, n-1)
	}
	switch {
	case strings.HasSuffix(shape, "-missing"):
		call(n-1, n) // index n = a name that is not in the set
	case strings.HasSuffix(shape, "-broken"):
		cfg.Scripts[n-1].Kind = 1
		cfg.Scripts[n-1].Calls = nil
	case strings.HasSuffix(shape, "-cycle"):
		call(n-1, n/2)
	}
	return cfg
}

func (c09) config(c *mon.Ctx, workload string, i int64) c09Config {
	if workload == "big-sets" {
		return c09Big(i)
	}
	switch workload {
	case "n1":
		return c09Decode(1, i)
	case "n2":
		return c09Decode(2, i)
	case "n3":
		return c09Decode(3, i)
	case "n3-random":
		return c09Decode(3, c.R.Int63n(c09Count(3)))
	}
	if workload == "deep-chains" {
		// 6..8 scripts with a use chain at least 5 deep (0 -> 1 -> ... ),
		// extra calls back into the chain (diamonds, second calls, now and
		// then a cycle or a missing / broken member)
		n := 6 + c.R.Intn(3)
		cfg := c09Config{N: n}
		for s := 0; s < n; s++ {
			sc := c09Script{}
			if s+1 < n && (s < 5 || c.R.Intn(2) == 0) {
				sc.Calls = append(sc.Calls, s+1)
			}
			if c.R.Intn(2) == 0 {
				t := c.R.Intn(n + 1)
				if t <= s && c.R.Intn(4) != 0 {
					t = s + 1 + c.R.Intn(n-s)
				}
				sc.Calls = append(sc.Calls, t)
			}
			if c.R.Intn(12) == 0 {
				sc.Kind = 1 + c.R.Intn(2)
			}
			cfg.Scripts = append(cfg.Scripts, sc)
		}
		// the root of the long chain is also called from the last script now and then
		if c.R.Intn(3) == 0 {
			cfg.Scripts[n-1].Calls = append(cfg.Scripts[n-1].Calls, 1+c.R.Intn(3))
		}
		return cfg
	}
	// n = 4 random, biased towards valid scripts so that deep chains occur
	cfg := c09Config{N: 4}
	for s := 0; s < 4; s++ {
		sc := c09Script{}
		if c.R.Intn(6) == 0 {
			sc.Kind = 1 + c.R.Intn(2)
		}
		for k := c.R.Intn(3); k > 0; k-- {
			t := c.R.Intn(5)
			if t == 4 && c.R.Intn(3) != 0 {
				t = c.R.Intn(4)
			}
			sc.Calls = append(sc.Calls, t)
		}
		cfg.Scripts = append(cfg.Scripts, sc)
	}
	return cfg
}

type c09Call struct {
	Target string
	Pos    int // byte offset of the call name
}

// c09Source renders script i so that every use call of every script sits at
// its own line/column and the scripts have different lengths.
func c09Source(cfg c09Config, i int) (string, []c09Call) {
	var sb strings.Builder
	var calls []c09Call
	s := cfg.Scripts[i]
	// broken scripts without calls have byte-identical texts (two members of
	// a set may be copies of each other); all others differ in their headers
	if !(s.Kind != 0 && len(s.Calls) == 0) {
		for k := 0; k <= i; k++ {
			fmt.Fprintf(&sb, "# script %d header line %d\n", i, k)
		}
	}
	for j, t := range s.Calls {
		sb.WriteString(strings.Repeat(" ", 1+2*i+5*j))
		name := "missing.p"
		if t < cfg.N {
			name = c09Name(t)
		} else if v := (i + 2*j) % 6; v > 0 {
			// a name is a name, not a path: these do not name the loaded
			// script they resemble
			x := c09Name((i + j) % cfg.N)
			name = []string{"", "./" + x, x + "/", "sub/../" + x, "./missing.p", strings.ToUpper(x)}[v]
		}
		// the call sits in one of thirteen syntactic places (a use() call
		// links wherever it is written, executed or not): as a statement at
		// top level or inside blocks, and as a loop clause, a condition, an
		// assignment source or a list element
		pre, post := "", "\n"
		switch (i*3 + j*2 + t) % 13 {
		case 1:
			pre, post = "if true {\n  ", "\n}\n"
		case 2:
			pre, post = fmt.Sprintf("for q%d = 0; q%d < 1; q%d = q%d + 1 {\n  if q%d > 5 { continue }\n  ", j, j, j, j, j), "\n}\n"
		case 3:
			pre, post = "for e in [1] {\n  if e == 2 {\n    break\n  }\n  ", "\n}\n"
		case 4:
			pre, post = "if false {\n} else {\n  if false {\n    ", "\n  }\n}\n"
		case 5:
			pre, post = "for e in \"ab\" {\n  if e == \"a\" { continue } elif e == \"z\" { break }\n  for ; false; {\n    ", "\n  }\n}\n"
		case 6:
			pre, post = fmt.Sprintf("for q%d = 1; q%d < 1; ", j, j), " {\n}\n"
		case 7:
			pre, post = fmt.Sprintf("for q%d = 1; q%d < 1; ", j, j), " {}\n"
		case 8:
			pre, post = "if ", " {\n}\n"
		case 9:
			pre, post = "if false {\n} elif ", " {} else {}\n"
		case 10:
			pre, post = fmt.Sprintf("z%d = ", j), "\n"
		case 11:
			pre, post = "for ", "; false; {\n}\n"
		case 12:
			pre, post = fmt.Sprintf("z%d = [1, ", j), "]\n"
		}
		sb.WriteString(pre)
		calls = append(calls, c09Call{Target: name, Pos: sb.Len()})
		fmt.Fprintf(&sb, "use(\"%s\")", name)
		sb.WriteString(post)
		fmt.Fprintf(&sb, "x%d = %d\n", j, j)
	}
	switch s.Kind {
	case 1:
		// five ways not to parse: a plain syntax error, and texts for which
		// the parser records SEVERAL diagnostics (it recovers from a constant
		// zero divisor and from a for-in over a number) on one or more lines.
		// The way is the same for all members of a configuration (twins).
		v := cfg.N
		for _, o := range cfg.Scripts {
			v += 7*len(o.Calls) + 3*o.Kind
		}
		sb.WriteString([]string{"a b\n", "x = 1 / 0\nw = 2 % 0\n", "for q in 5 {\n}\nw = 1 / 0\nv = 1 / 0\n", "x = 1 / 0; w = 2 % 0\na b\n", "x = \"open\n"}[v%5])
	case 2:
		// two ways to fail the check pass: an unknown function inside a block
		// after a pattern definition at top level, and a grok that needs that
		// very pattern without defining it (whatever an earlier, failed check
		// of ANOTHER script left behind must not make it pass)
		if i%3 == 2 {
			// builtin names are names: a capitalised use is an unknown function
			// (a positioned check error like any other), not a use call
			fmt.Fprintf(&sb, "if true {\n  %s(\"%s\")\n}\n", []string{"Use", "USE", "uSe"}[(i/3)%3], c09Name((i+1)%cfg.N))
		} else if i%2 == 0 {
			sb.WriteString("add_pattern(\"c09pat\", \"x+\")\nif true {\n   nosuch_function()\n}\n")
		} else {
			sb.WriteString("ok = grok(_, \"%{c09pat:w}\")\n")
		}
	}
	if s.Kind != 0 && len(s.Calls) == 0 {
		sb.WriteString("y = 0\n")
	} else {
		fmt.Fprintf(&sb, "y = %d\n", i)
	}
	return sb.String(), calls
}

func (cfg c09Config) String() string {
	var p []string
	kinds := []string{"valid", "unparsable", "check-failing"}
	for i, s := range cfg.Scripts {
		var t []string
		for _, c := range s.Calls {
			if c < cfg.N {
				t = append(t, c09Name(c))
			} else {
				t = append(t, "missing.p")
			}
		}
		p = append(p, fmt.Sprintf("%s[%s] uses (%s)", c09Name(i), kinds[s.Kind], strings.Join(t, ", ")))
	}
	return strings.Join(p, "; ")
}

// model verdicts
func c09Model(cfg c09Config) []bool {
	if cfg.N > 8 {
		return c09ModelBig(cfg)
	}
	ok := make([]bool, cfg.N)
	for s := 0; s < cfg.N; s++ {
		onPath := map[int]bool{}
		var dfs func(x int) bool
		dfs = func(x int) bool {
			if x >= cfg.N || cfg.Scripts[x].Kind != 0 || onPath[x] {
				return false
			}
			onPath[x] = true
			defer delete(onPath, x)
			for _, t := range cfg.Scripts[x].Calls {
				if !dfs(t) {
					return false
				}
			}
			return true
		}
		ok[s] = dfs(s)
	}
	return ok
}

// c09ModelBig is the same verdict computed without walking every path: a
// script is accepted iff everything reachable from it exists and is valid and
// the reachable part of the graph has no cycle.
func c09ModelBig(cfg c09Config) []bool {
	ok := make([]bool, cfg.N)
	for s := 0; s < cfg.N; s++ {
		good := true
		color := map[int]int{} // 1 = on the path, 2 = done
		var dfs func(x int)
		dfs = func(x int) {
			if !good {
				return
			}
			if x >= cfg.N || cfg.Scripts[x].Kind != 0 || color[x] == 1 {
				good = false
				return
			}
			if color[x] == 2 {
				return
			}
			color[x] = 1
			for _, t := range cfg.Scripts[x].Calls {
				dfs(t)
			}
			color[x] = 2
		}
		dfs(s)
		ok[s] = good
	}
	return ok
}

func permutations(n int) [][]int {
	var out [][]int
	var rec func(p []int, used int)
	rec = func(p []int, used int) {
		if len(p) == n {
			out = append(out, append([]int{}, p...))
			return
		}
		for i := 0; i < n; i++ {
			if used&(1<<i) == 0 {
				rec(append(p, i), used|1<<i)
			}
		}
	}
	rec(nil, 0)
	return out
}

type c09Loaded struct {
	ok   map[string]*plrt.Script
	errs map[string]error
}

// c09Phase1 parses and checks every script the way ParseScript does.
func c09Phase1(srcs map[string]string, order []string) c09Loaded {
	l := c09Loaded{ok: map[string]*plrt.Script{}, errs: map[string]error{}}
	for _, name := range order {
		stmts, err := parser.ParsePipeline(name, srcs[name])
		if err != nil {
			l.errs[name] = err
			continue
		}
		p := &plrt.Script{FuncCall: funcs.FuncsMap, Name: name, Content: srcs[name], Ast: stmts}
		if err := p.Check(funcs.FuncsCheckMap); err != nil {
			l.errs[name] = err
			continue
		}
		l.ok[name] = p
	}
	return l
}

func (k c09) Describe(c *mon.Ctx, workload string, i int64) any {
	cfg := k.config(c, workload, i)
	srcs := map[string]string{}
	for s := 0; s < cfg.N; s++ {
		srcs[c09Name(s)], _ = c09Source(cfg, s)
	}
	return map[string]any{"configuration": cfg.String(), "scripts": srcs}
}

func (k c09) Run(c *mon.Ctx, workload string, i int64) {
	drive.Init()
	cfg := k.config(c, workload, i)
	srcs := map[string]string{}
	calls := map[string][]c09Call{}
	names := make([]string, cfg.N)
	edges := 0
	for s := 0; s < cfg.N; s++ {
		names[s] = c09Name(s)
		srcs[names[s]], calls[names[s]] = c09Source(cfg, s)
		if cfg.Scripts[s].Kind == 0 {
			edges += len(cfg.Scripts[s].Calls)
		}
	}
	want := c09Model(cfg)
	info := map[string]any{"configuration": cfg.String(), "scripts": srcs}
	if edges > 0 {
		c.Nontrivial(cfg.String())
	}
	shape := fmt.Sprintf("n%d/edges%d", cfg.N, edges)
	c.Cell("shapes", shape)

	check := func(how string, order []string, ok map[string]*plrt.Script, errs map[string]error) bool {
		for s, name := range names {
			_, acc := ok[name]
			_, rej := errs[name]
			if acc == rej {
				c.Violate("verdict-missing", fmt.Sprintf("%s order %v: %s is in %s\n%s", how, order, name, map[bool]string{true: "both result maps", false: "neither result map"}[acc], cfg), info)
				return false
			}
			if acc != want[s] {
				verb := map[bool]string{true: "accepted", false: "rejected"}
				detail := ""
				if rej {
					detail = ": " + errs[name].Error()
				}
				c.Violate("wrong-verdict:"+verb[acc]+"-but-must-be-"+verb[want[s]], fmt.Sprintf("%s, roots visited in order %v: %s was %s, the graph model says %s%s\nconfiguration: %s",
					how, order, name, verb[acc], verb[want[s]], detail, cfg), info)
				return false
			}
			if acc {
				// every use call SITE in the accepted script's tree (not only the
				// sites the linker's own list mentions) is bound to the accepted
				// script of that name
				tree, terr := gt.FromStmts(ok[name].Ast)
				if terr != nil {
					c.Violate("accepted-script-without-tree", fmt.Sprintf("%s order %v: %s: %v\n%s", how, order, name, terr, cfg), info)
					return false
				}
				sites := 0
				bad := ""
				gt.WalkStmts(tree, func(t *gt.T) {
					ce, _ := t.Orig.(*ast.CallExpr)
					if t.K != gt.KCall || t.S != "use" || ce == nil || bad != "" || len(ce.Param) != 1 || ce.Param[0].NodeType != ast.TypeStringLiteral {
						return
					}
					sites++
					target := ce.Param[0].StringLiteral().Val
					bound, _ := ce.PrivateData.(*plrt.Script)
					if bound == nil || bound != ok[target] {
						bad = fmt.Sprintf("%s order %v: use(%q) at offset %d in accepted %s is bound to %v, expected the accepted script object %q\n%s", how, order, target, int(ce.NamePos.Pos), name, bound, target, cfg)
					}
				})
				if bad != "" {
					c.Violate("use-not-bound", bad, info)
					return false
				}
				if sites != len(calls[name]) {
					c.Violate("use-sites-lost", fmt.Sprintf("%s order %v: accepted %s has %d use call sites in its tree, its source has %d\n%s", how, order, name, sites, len(calls[name]), cfg), info)
					return false
				}
				c.Count("use_sites_checked", sites)
			} else if cfg.Scripts[s].Kind != 0 {
				// a script rejected for its own text: the error is positioned in
				// THAT script (also when another member has the same text)
				pe, isPl := errs[name].(*errchain.PlError)
				if !isPl || len(pe.PosChain) == 0 {
					c.Violate("bad-error-chain", fmt.Sprintf("%s order %v: error of the broken script %s is %T %v\n%s", how, order, name, errs[name], errs[name], cfg), info)
					return false
				}
				if pe.PosChain[0].File != name {
					c.Violate("bad-error-chain", fmt.Sprintf("%s order %v: the error of the broken script %s starts in %q: %q\nconfiguration: %s\n%s", how, order, name, pe.PosChain[0].File, pe.Error(), cfg, srcDump(srcs)), info)
					return false
				}
				if d := drive.CheckPosition(pe.PosChain[0], name, srcs[name]); d != "" {
					c.Violate("bad-error-chain", fmt.Sprintf("%s order %v: error of the broken script %s: %s\n  error: %q\n%s", how, order, name, d, pe.Error(), cfg), info)
					return false
				}
			} else {
				if d := k.checkChain(cfg, names, calls, s, errs[name]); d != "" {
					c.Violate("bad-error-chain", fmt.Sprintf("%s order %v: error of %s: %s\n  error: %q\nconfiguration: %s\n%s", how, order, name, d, errs[name].Error(), cfg, srcDump(srcs)), info)
					return false
				}
				c.Count("chains_validated", 1)
			}
		}
		return true
	}

	// ordered driver: all n! root orders (a seeded sample of 16 for more than 4 scripts)
	perms := permutations(min(cfg.N, 4))
	if cfg.N > 4 {
		perms = nil
		for j := 0; j < 16; j++ {
			perms = append(perms, c.R.Perm(cfg.N))
		}
		// always include the order that starts at the chain's head and the reverse
		id := make([]int, cfg.N)
		rev := make([]int, cfg.N)
		for j := range id {
			id[j], rev[j] = j, cfg.N-1-j
		}
		perms = append(perms, id, rev)
	}
	for _, perm := range perms {
		order := make([]string, cfg.N)
		for j, p := range perm {
			order[j] = names[p]
		}
		l := c09Phase1(srcs, names)
		var ok map[string]*plrt.Script
		var errs map[string]error
		var pan any
		func() {
			defer func() { pan = recover() }()
			ok, errs = engine.VerifLinkInOrder(order, l.ok, l.errs)
		}()
		c.Eval(1)
		c.Count("orders_explored", 1)
		if pan != nil {
			c.Violate("link-panic", fmt.Sprintf("linking panicked: %v\n%s", pan, cfg), info)
			return
		}
		all := map[string]error{}
		for k2, v := range l.errs {
			all[k2] = v
		}
		for k2, v := range errs {
			all[k2] = v
		}
		if !check("ordered driver", order, ok, all) {
			return
		}
	}

	// real driver: every insertion permutation, repeated
	reps := 2
	for _, perm := range perms {
		for r := 0; r < reps; r++ {
			m := map[string]string{}
			for _, p := range perm {
				m[names[p]] = srcs[names[p]]
			}
			var visited []string
			engine.VerifVisitHook = func(n string) { visited = append(visited, n) }
			var ok map[string]*plrt.Script
			var errs map[string]error
			var pan any
			func() {
				defer func() { pan = recover() }()
				ok, errs = engine.ParseScript(m, funcs.FuncsMap, funcs.FuncsCheckMap)
			}()
			engine.VerifVisitHook = nil
			c.Eval(1)
			if pan != nil {
				c.Violate("link-panic", fmt.Sprintf("ParseScript panicked: %v\n%s", pan, cfg), info)
				return
			}
			c.Cell("real_driver_orders", fmt.Sprintf("n%d:%s", cfg.N, strings.Join(visited, ",")))
			if !check("real ParseScript", visited, ok, errs) {
				return
			}
		}
	}
	if c.WantSample() && edges >= 2 && cfg.N >= 2 {
		v := map[string]bool{}
		for s, n := range names {
			v[n] = want[s]
		}
		c.Sample(map[string]any{"configuration": cfg.String(), "verdicts": v})
	}
}

// checkChain validates the structure of a rejected-but-valid script's error.
func (k c09) checkChain(cfg c09Config, names []string, calls map[string][]c09Call, s int, err error) string {
	pe, ok := err.(*errchain.PlError)
	if !ok || len(pe.PosChain) == 0 {
		return fmt.Sprintf("not a positioned error: %T", err)
	}
	idx := map[string]int{}
	for i, n := range names {
		idx[n] = i
	}
	callAt := func(script string, pos int) *c09Call {
		for i := range calls[script] {
			if calls[script][i].Pos == pos {
				return &calls[script][i]
			}
		}
		return nil
	}
	chain := pe.PosChain
	self := names[s]
	// walk call sites from the end (outermost = the rejected script)
	cur := self
	path := []string{self}
	i := len(chain) - 1
	consume := func(stop int) string {
		for ; i >= stop; i-- {
			p := chain[i]
			if p.File != cur {
				return fmt.Sprintf("entry %d names %s, expected a call site in %s", i, p.File, cur)
			}
			ca := callAt(cur, p.Pos)
			if ca == nil {
				return fmt.Sprintf("entry %d (%s offset %d, %d:%d) is not the position of a use call in %s", i, p.File, p.Pos, p.Ln, p.Col, cur)
			}
			cur = ca.Target
			path = append(path, cur)
		}
		return ""
	}
	switch {
	case strings.Contains(pe.Err, "circular dependency"):
		if chain[0].File != self {
			return fmt.Sprintf("the cycle entry names %s, expected the rejected script %s", chain[0].File, self)
		}
		if callAt(self, chain[0].Pos) == nil {
			return fmt.Sprintf("the cycle entry (%s offset %d, %d:%d) is not the position of a use call in %s", self, chain[0].Pos, chain[0].Ln, chain[0].Col, self)
		}
		if d := consume(1); d != "" {
			return d
		}
		// the last target must already be on the path
		last := path[len(path)-1]
		seen := false
		for _, p := range path[:len(path)-1] {
			if p == last {
				seen = true
			}
		}
		if !seen {
			return fmt.Sprintf("the call sites spell the path %v, which does not close a cycle", path)
		}
		if wantMsg := "circular dependency: " + strings.Join(path, " -> "); pe.Err != wantMsg {
			return fmt.Sprintf("message %q does not spell the path of the call sites %q", pe.Err, wantMsg)
		}
	case strings.Contains(pe.Err, "not found"):
		if d := consume(1); d != "" {
			return d
		}
		p := chain[0]
		ca := callAt(cur, p.Pos)
		if p.File != cur || ca == nil {
			return fmt.Sprintf("root cause (%s offset %d) is not a use call in %s", p.File, p.Pos, cur)
		}
		if _, exists := idx[ca.Target]; exists {
			return fmt.Sprintf("root cause points at use(%q), which exists", ca.Target)
		}
	default:
		f0 := chain[0].File
		fi, exists := idx[f0]
		if !exists || cfg.Scripts[fi].Kind == 0 {
			return fmt.Sprintf("root cause names %s, which is not an invalid script of the set", f0)
		}
		r := 0
		for r < len(chain) && chain[r].File == f0 {
			r++
		}
		if d := consume(r); d != "" {
			return d
		}
		if cur != f0 {
			return fmt.Sprintf("the call sites lead to %s but the root cause is in %s", cur, f0)
		}
	}
	return ""
}

var _ = sort.Strings
