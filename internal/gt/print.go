package gt

import (
	"fmt"
	"math"
	"math/rand"
	"strconv"
	"strings"
	"unicode/utf8"
)

// Layout controls how tokens are separated. The zero value (or nil) is the
// canonical layout: one statement per line, single spaces.
type Layout struct {
	R *rand.Rand
	// Breaks: put line breaks / comments / blank lines at the places the
	// property text names: after binary, assignment and `in` operators, after
	// commas, after opening brackets, between statements.
	Breaks bool
	// Extended: also at the other places gram.y admits SPACE_EOLS / EOL
	// (after `:` in maps and slices, before `)` of calls and parens, before
	// `]` of index expressions and lists, before `}` of maps, trailing
	// commas).
	Extended bool
	// Multibyte: comments and padding may contain multi-byte runes, so byte
	// columns differ from rune columns.
	Multibyte bool
	// Compact: an operator may be glued to its operands (`a+b`, `0x1e-c`,
	// `x=1`): blanks around an operator are optional where the two
	// neighbouring bytes cannot form another token.
	Compact bool
}

type gap uint8

const (
	gNone   gap = iota
	gTight      // canonical: nothing; random: optional blanks
	gSpace      // canonical: one space
	gBreak      // SPACE_EOLS admitted (named place)
	gBreakX     // SPACE_EOLS admitted (extended place)
	gSep        // statement separator required
)

type printer struct {
	b    []byte
	lay  *Layout
	pend gap
	ind  int
}

// Print renders statements to source text and fills Pos and Span of every
// node with byte offsets into the returned text.
func Print(stmts []*T, lay *Layout) string {
	if lay == nil {
		lay = &Layout{}
	}
	p := &printer{lay: lay}
	if lay.R != nil && lay.Breaks && lay.R.Intn(3) == 0 {
		// leading blank lines / comments: START_STMTS EOLS stmts
		p.b = append(p.b, p.eols(1+lay.R.Intn(2))...)
	}
	p.stmts(stmts)
	if lay.R != nil && lay.Breaks {
		switch lay.R.Intn(4) {
		case 0:
			p.b = append(p.b, '\n')
		case 1:
			p.b = append(p.b, p.sepText()...)
		}
	} else if len(stmts) > 0 {
		p.b = append(p.b, '\n')
	}
	return string(p.b)
}

// PrintExpr renders a single expression canonically.
func PrintExpr(e *T) string {
	p := &printer{lay: &Layout{}}
	p.expr(e, 0)
	return string(p.b)
}

func isWord(c byte) bool {
	return c == '_' || c >= 0x80 || ('0' <= c && c <= '9') || ('a' <= c && c <= 'z') || ('A' <= c && c <= 'Z')
}

func (p *printer) blanks(min int) string {
	r := p.lay.R
	n := min + r.Intn(3)
	if n == 0 {
		return ""
	}
	var sb strings.Builder
	for i := 0; i < n; i++ {
		switch r.Intn(6) {
		case 0:
			sb.WriteByte('\t')
		case 1:
			sb.WriteByte('\r')
		default:
			sb.WriteByte(' ')
		}
	}
	return sb.String()
}

var commentWords = []string{"", " c", " note: a = b", "#", " \"quoted\"", " { [ (", " if for in"}

func (p *printer) comment() string {
	r := p.lay.R
	c := "#" + commentWords[r.Intn(len(commentWords))]
	if p.lay.Multibyte && r.Intn(2) == 0 {
		c += " héllo 世界"
	}
	return c
}

// eols returns n line ends, each optionally preceded by blanks and a comment.
func (p *printer) eols(n int) string {
	r := p.lay.R
	var sb strings.Builder
	for i := 0; i < n; i++ {
		sb.WriteString(p.blanks(0))
		if r.Intn(3) == 0 {
			sb.WriteString(p.comment())
		}
		sb.WriteByte('\n')
	}
	sb.WriteString(p.blanks(0))
	return sb.String()
}

func (p *printer) sepText() string {
	r := p.lay.R
	var sb strings.Builder
	n := 1 + r.Intn(3)
	for i := 0; i < n; i++ {
		sb.WriteString(p.blanks(0))
		if r.Intn(3) == 0 {
			sb.WriteByte(';')
		} else {
			if r.Intn(4) == 0 {
				sb.WriteString(p.comment())
			}
			sb.WriteByte('\n')
		}
	}
	sb.WriteString(p.blanks(0))
	return sb.String()
}

func (p *printer) flush(next string) {
	g := p.pend
	p.pend = gNone
	if g == gNone {
		return
	}
	lay := p.lay
	if lay.R == nil {
		switch g {
		case gSpace, gBreak:
			p.b = append(p.b, ' ')
		case gSep:
			p.b = append(p.b, '\n')
			for i := 0; i < p.ind; i++ {
				p.b = append(p.b, ' ', ' ')
			}
		}
		return
	}
	r := lay.R
	switch g {
	case gSep:
		if lay.Breaks {
			p.b = append(p.b, p.sepText()...)
		} else {
			p.b = append(p.b, '\n')
		}
		return
	case gBreak, gBreakX:
		if lay.Breaks && (g == gBreak || lay.Extended) && r.Intn(2) == 0 {
			p.b = append(p.b, p.eols(1+r.Intn(2))...)
			return
		}
	}
	// plain blanks; empty only when the two neighbouring bytes cannot merge
	min := 0
	if len(p.b) > 0 && len(next) > 0 {
		a, c := p.b[len(p.b)-1], next[0]
		safe := strings.IndexByte("()[]{},;:", a) >= 0 || strings.IndexByte("()[]{},;:", c) >= 0
		if !safe && lay.Compact {
			// exactly one side is an operator byte and the other a letter,
			// digit, underscore, quote or multi-byte rune
			const ops = "+-*/%=<>!&|"
			aop, cop := strings.IndexByte(ops, a) >= 0, strings.IndexByte(ops, c) >= 0
			word := func(b byte) bool {
				return b == '_' || b == '"' || b == '\'' || b == '`' || b >= 0x80 || '0' <= b && b <= '9' || 'a' <= b && b <= 'z' || 'A' <= b && b <= 'Z'
			}
			if aop != cop && (aop && word(c) || cop && word(a)) && r.Intn(2) == 0 {
				return
			}
		}
		if !safe {
			min = 1
		}
	}
	if g == gTight && r.Intn(2) == 0 && min == 0 {
		return
	}
	p.b = append(p.b, p.blanks(min)...)
}

// tok writes a token after materialising the pending gap; returns its offset.
func (p *printer) tok(s string) int {
	p.flush(s)
	off := len(p.b)
	p.b = append(p.b, s...)
	p.pend = gSpace
	return off
}

func (p *printer) gap(g gap) { p.pend = g }

func setPos(t *T, k string, off int) {
	if t.Pos == nil {
		t.Pos = map[string]int{}
	}
	t.Pos[k] = off
}

func (p *printer) stmts(l []*T) {
	for i, s := range l {
		if i > 0 {
			p.gap(gSep)
		}
		p.stmt(s)
	}
}

func (p *printer) block(owner *T, name string, l []*T) {
	p.gap(gSpace)
	setPos(owner, name+"L", p.tok("{"))
	if p.lay.R == nil {
		if len(l) == 0 {
			p.gap(gTight)
		} else {
			p.ind++
			p.gap(gSep)
			p.stmts(l)
			p.ind--
			p.gap(gSep)
		}
		setPos(owner, name+"R", p.tok("}"))
		return
	}
	p.gap(gBreak)
	if len(l) > 0 {
		p.stmts(l)
		if p.lay.Breaks && p.lay.R.Intn(2) == 0 {
			p.gap(gSep)
		} else {
			p.gap(gSpace)
		}
	}
	setPos(owner, name+"R", p.tok("}"))
}

func (p *printer) stmt(t *T) {
	start := -1
	mark := func(off int) {
		if start < 0 {
			start = off
		}
	}
	switch t.K {
	case KIf:
		for i := range t.Conds {
			kw := "if"
			if i > 0 {
				kw = "elif"
				p.gap(gSpace)
			}
			off := p.tok(kw)
			mark(off)
			setPos(t, fmt.Sprintf("If%d", i), off)
			p.expr(t.Conds[i], 0)
			p.block(t, fmt.Sprintf("Block%d", i), t.Blocks[i])
		}
		if t.HasElse {
			p.gap(gSpace)
			setPos(t, "ElsePos", p.tok("else"))
			p.block(t, "Else", t.Else)
		}
	case KFor:
		off := p.tok("for")
		mark(off)
		setPos(t, "ForPos", off)
		if t.Init != nil {
			p.forElem(t.Init)
			p.gap(gTight)
		}
		p.tok(";")
		if t.Cond != nil {
			p.expr(t.Cond, 0)
			p.gap(gTight)
		}
		p.tok(";")
		if t.Loop != nil {
			p.forElem(t.Loop)
		}
		p.block(t, "Body", t.Body)
	case KForIn:
		off := p.tok("for")
		mark(off)
		setPos(t, "ForPos", off)
		p.expr(t.Kids[0], precIn+1)
		setPos(t, "InPos", p.tok("in"))
		p.gap(gBreak)
		p.expr(t.Kids[1], precIn+1)
		p.block(t, "Body", t.Body)
	case KBreak:
		off := p.tok("break")
		mark(off)
		setPos(t, "Start", off)
	case KContinue:
		off := p.tok("continue")
		mark(off)
		setPos(t, "Start", off)
	case KAssign:
		p.assign(t)
		return
	default:
		p.expr(t, 0)
		return
	}
	t.Span = [2]int{start, len(p.b)}
}

func (p *printer) forElem(t *T) {
	if t.K == KAssign {
		p.assign(t)
	} else {
		p.expr(t, 0)
	}
}

func (p *printer) assign(t *T) {
	p.flush("x")
	p.pend = gNone
	start := -1
	for i, l := range t.LHS {
		if i > 0 {
			p.gap(gTight)
			p.tok(",")
			p.gap(gBreak)
		}
		if i == 0 {
			// materialise the gap so that the span starts at the first token
			p.expr(l, 0)
			start = l.Span[0]
		} else {
			p.expr(l, 0)
		}
	}
	setPos(t, "OpPos", p.tok(t.Op))
	p.gap(gBreak)
	for i, r := range t.RHS {
		if i > 0 {
			p.gap(gTight)
			p.tok(",")
			p.gap(gBreak)
		}
		p.expr(r, 0)
	}
	t.Span = [2]int{start, len(p.b)}
}

// precedence levels (higher binds tighter)
const (
	precOr = 1 + iota
	precAnd
	precIn
	precCmp
	precAdd
	precMul
	precUnary
	precPostfix
)

func binPrec(op string) int {
	switch op {
	case "||":
		return precOr
	case "&&":
		return precAnd
	case "in":
		return precIn
	case "==", "!=", "<", "<=", ">", ">=":
		return precCmp
	case "+", "-":
		return precAdd
	case "*", "/", "%":
		return precMul
	}
	panic("gt: unknown binary operator " + op)
}

// Prec returns the precedence level of an expression node as printed.
func Prec(t *T) int {
	switch t.K {
	case KArith, KCond, KIn:
		return binPrec(t.Op)
	case KUnary:
		return precUnary
	case KInt:
		if t.I < 0 {
			return precUnary
		}
	case KFloat:
		if math.Signbit(t.F) && !math.IsNaN(t.F) {
			return precUnary
		}
	}
	return precPostfix
}

// NeedsParen reports whether child c printed in a context requiring minimum
// precedence min would be regrouped by the parser.
func NeedsParen(c *T, min int) bool { return Prec(c) < min }

// expr prints e; the caller guarantees Prec(e) >= min (the generators insert
// explicit KParen nodes where needed via Parenthesize).
func (p *printer) expr(t *T, min int) {
	if t == nil {
		panic("gt: nil expression")
	}
	if Prec(t) < min {
		panic(fmt.Sprintf("gt: expression %s needs parentheses in context %d", t.Dump(), min))
	}
	p.flush(firstByteHint(t))
	start := len(p.b)
	switch t.K {
	case KIdent:
		setPos(t, "Start", p.tok(identSpelling(t)))
	case KStr:
		s := t.Spell
		if s == "" {
			s = strconv.Quote(t.S)
		}
		setPos(t, "Start", p.tok(s))
	case KInt:
		if t.Spell != "" {
			setPos(t, "Start", p.tok(t.Spell))
			break
		}
		if t.I < 0 {
			if t.I == math.MinInt64 {
				panic("gt: MinInt64 has no literal spelling")
			}
			setPos(t, "Start", p.tok("-"))
			p.gap(gTight)
			p.tok(strconv.FormatInt(-t.I, 10))
		} else {
			setPos(t, "Start", p.tok(strconv.FormatInt(t.I, 10)))
		}
	case KFloat:
		if t.Spell != "" {
			setPos(t, "Start", p.tok(t.Spell))
			break
		}
		f := t.F
		if math.Signbit(f) && !math.IsNaN(f) {
			setPos(t, "Start", p.tok("-"))
			p.gap(gTight)
			p.tok(floatSpelling(-f))
		} else {
			setPos(t, "Start", p.tok(floatSpelling(f)))
		}
	case KBool:
		s := t.Spell
		if s == "" {
			s = strconv.FormatBool(t.B)
		}
		setPos(t, "Start", p.tok(s))
	case KNil:
		s := t.Spell
		if s == "" {
			s = "nil"
		}
		setPos(t, "Start", p.tok(s))
	case KList:
		setPos(t, "LBracket", p.tok("["))
		p.gap(gBreak)
		if p.lay.R == nil {
			p.gap(gTight)
		}
		for i, e := range t.Kids {
			if i > 0 {
				p.gap(gTight)
				p.tok(",")
				p.gap(gBreak)
			}
			p.expr(e, 0)
		}
		p.closer(len(t.Kids) > 0, true)
		setPos(t, "RBracket", p.tok("]"))
	case KMap:
		setPos(t, "LBrace", p.tok("{"))
		p.gap(gBreak)
		if p.lay.R == nil {
			p.gap(gTight)
		}
		for i := 0; i+1 < len(t.Kids); i += 2 {
			if i > 0 {
				p.gap(gTight)
				p.tok(",")
				p.gap(gBreak)
			}
			p.expr(t.Kids[i], 0)
			p.gap(gTight)
			p.tok(":")
			p.gap(gBreakX)
			p.expr(t.Kids[i+1], 0)
		}
		p.closer(len(t.Kids) > 0, true)
		setPos(t, "RBrace", p.tok("}"))
	case KParen:
		setPos(t, "LParen", p.tok("("))
		p.gap(gBreak)
		if p.lay.R == nil {
			p.gap(gTight)
		}
		p.expr(t.Kids[0], 0)
		p.closer(true, false)
		setPos(t, "RParen", p.tok(")"))
	case KUnary:
		setPos(t, "OpPos", p.tok(t.Op))
		p.gap(gTight)
		p.expr(t.Kids[0], precUnary)
	case KArith, KCond, KIn:
		pr := binPrec(t.Op)
		p.expr(t.Kids[0], pr)
		setPos(t, "OpPos", p.tok(t.Op))
		p.gap(gBreak)
		p.expr(t.Kids[1], pr+1)
	case KIndex:
		if t.NoObj {
			p.tok(".")
		} else {
			setPos(t, "ObjStart", p.tok(identSpelling(&T{K: KIdent, S: t.S, Spell: t.Spell})))
		}
		for i, e := range t.Kids {
			p.gap(gTight)
			setPos(t, fmt.Sprintf("LBracket%d", i), p.tok("["))
			p.gap(gBreak)
			if p.lay.R == nil {
				p.gap(gTight)
			}
			p.expr(e, 0)
			p.closer(true, false)
			setPos(t, fmt.Sprintf("RBracket%d", i), p.tok("]"))
		}
	case KAttr:
		setPos(t, "Start", start)
		p.expr(t.Kids[0], precPostfix)
		p.gap(gTight)
		p.tok(".")
		p.gap(gTight)
		p.expr(t.Kids[1], precPostfix)
	case KSlice:
		p.expr(t.Kids[0], precPostfix)
		p.gap(gTight)
		setPos(t, "LBracket", p.tok("["))
		p.gap(gBreak)
		if p.lay.R == nil {
			p.gap(gTight)
		}
		if t.Start != nil {
			p.expr(t.Start, 0)
			p.gap(gTight)
		}
		p.tok(":")
		p.gap(gBreakX)
		if p.lay.R == nil {
			p.gap(gTight)
		}
		if t.End != nil {
			p.expr(t.End, 0)
			p.gap(gTight)
		}
		if t.Colon2 {
			p.tok(":")
			p.gap(gBreakX)
			if p.lay.R == nil {
				p.gap(gTight)
			}
			if t.Step != nil {
				p.expr(t.Step, 0)
				p.gap(gTight)
			}
		}
		setPos(t, "RBracket", p.tok("]"))
	case KCall:
		setPos(t, "NamePos", p.tok(identSpelling(&T{K: KIdent, S: t.S, Spell: t.Spell})))
		p.gap(gTight)
		setPos(t, "LParen", p.tok("("))
		p.gap(gBreak)
		if p.lay.R == nil {
			p.gap(gTight)
		}
		for i, e := range t.Kids {
			if i > 0 {
				p.gap(gTight)
				p.tok(",")
				p.gap(gBreak)
			}
			if e.K == KAssign {
				p.assign(e)
			} else {
				p.expr(e, 0)
			}
		}
		p.closer(len(t.Kids) > 0, len(t.Kids) > 0)
		setPos(t, "RParen", p.tok(")"))
	case KAssign:
		// only reachable for named arguments printed through expr
		p.assign(t)
		return
	default:
		panic("gt: cannot print " + t.K.String() + " as expression")
	}
	t.Span = [2]int{start, len(p.b)}
}

// closer sets the gap before a closing bracket: tight canonically; in random
// extended layouts optionally a trailing comma (where the grammar has one)
// and/or a line break.
func (p *printer) closer(nonEmpty, trailingComma bool) {
	if p.lay.R == nil || !p.lay.Extended || !nonEmpty {
		p.gap(gTight)
		return
	}
	if trailingComma && p.lay.R.Intn(4) == 0 {
		p.gap(gTight)
		p.tok(",")
		p.gap(gBreakX)
		return
	}
	p.gap(gBreakX)
}

func firstByteHint(t *T) string {
	switch t.K {
	case KIdent, KCall, KIndex, KBool, KNil:
		return "a"
	case KInt, KFloat:
		return "1"
	case KStr:
		return "\""
	case KList:
		return "["
	case KMap:
		return "{"
	case KParen:
		return "("
	case KUnary:
		return t.Op
	}
	if len(t.Kids) > 0 {
		return firstByteHint(t.Kids[0])
	}
	return "a"
}

func floatSpelling(f float64) string {
	switch {
	case math.IsInf(f, 0):
		return "inf"
	case math.IsNaN(f):
		return "nan"
	}
	s := strconv.FormatFloat(f, 'g', -1, 64)
	if !strings.ContainsAny(s, ".e") {
		s += ".0"
	}
	return s
}

var keywords = map[string]bool{"if": true, "elif": true, "else": true, "false": true, "identifier": true,
	"nil": true, "null": true, "true": true, "for": true, "in": true, "while": true, "break": true,
	"continue": true, "return": true, "str": true, "bool": true, "int": true, "float": true, "list": true,
	"map": true, "inf": true, "nan": true}

// IsKeyword reports whether the lexer would classify the word as a keyword
// (the keyword table is consulted lower-cased).
func IsKeyword(w string) bool { return keywords[strings.ToLower(w)] }

// PlainIdent reports whether name can be spelled without back-quotes.
func PlainIdent(name string) bool {
	if name == "" || IsKeyword(name) || !utf8.ValidString(name) {
		return false
	}
	for i, r := range name {
		switch {
		case r == '_' || ('a' <= r && r <= 'z') || ('A' <= r && r <= 'Z') || utf8.RuneLen(r) > 1:
		case '0' <= r && r <= '9' && i > 0:
		default:
			return false
		}
	}
	return true
}

func identSpelling(t *T) string {
	if t.Spell != "" {
		return t.Spell
	}
	if PlainIdent(t.S) {
		return t.S
	}
	if strings.ContainsAny(t.S, "`") {
		panic("gt: identifier with back-quote cannot be spelled: " + strconv.Quote(t.S))
	}
	return "`" + t.S + "`"
}

// Parenthesize returns a tree equal to t except that KParen nodes are
// inserted exactly where the printed text would otherwise be regrouped by
// the parser (so that the printed text parses back to the returned tree).
func Parenthesize(t *T) *T {
	if t == nil {
		return nil
	}
	wrap := func(c *T, min int) *T {
		c = Parenthesize(c)
		if Prec(c) < min {
			return Paren(c)
		}
		return c
	}
	c := *t
	c.Pos = nil
	switch t.K {
	case KUnary:
		c.Kids = []*T{wrap(t.Kids[0], precUnary)}
	case KArith, KCond, KIn:
		pr := binPrec(t.Op)
		c.Kids = []*T{wrap(t.Kids[0], pr), wrap(t.Kids[1], pr+1)}
	case KForIn:
		c.Kids = []*T{t.Kids[0], wrap(t.Kids[1], precIn+1)}
	default:
		c.Kids = make([]*T, len(t.Kids))
		for i, k := range t.Kids {
			c.Kids[i] = Parenthesize(k)
		}
		if t.K == KSlice || t.K == KAttr {
			for i := range c.Kids {
				if Prec(c.Kids[i]) < precPostfix {
					panic("gt: slice/attr object cannot be parenthesised: " + c.Kids[i].Dump())
				}
			}
		}
	}
	c.Start, c.End, c.Step = Parenthesize(t.Start), Parenthesize(t.End), Parenthesize(t.Step)
	c.LHS, c.RHS = parList(t.LHS), parList(t.RHS)
	c.Conds = parList(t.Conds)
	if t.Blocks != nil {
		c.Blocks = make([][]*T, len(t.Blocks))
		for i := range t.Blocks {
			c.Blocks[i] = parList(t.Blocks[i])
		}
	}
	c.Else = parList(t.Else)
	c.Init, c.Cond, c.Loop = Parenthesize(t.Init), Parenthesize(t.Cond), Parenthesize(t.Loop)
	c.Body = parList(t.Body)
	return &c
}

func parList(l []*T) []*T {
	if l == nil {
		return nil
	}
	o := make([]*T, len(l))
	for i := range l {
		o[i] = Parenthesize(l[i])
	}
	return o
}

func ParenthesizeStmts(l []*T) []*T { return parList(l) }
