package main

import (
	"fmt"
	"math/rand"
	"strings"

	"github.com/GuanceCloud/platypus/pkg/ast"
	"github.com/GuanceCloud/platypus/pkg/engine"
	"github.com/GuanceCloud/platypus/pkg/engine/runtimev2"
	"github.com/GuanceCloud/platypus/pkg/errchain"

	"verif/internal/drive"
	"verif/internal/mon"
)

// nested-calls (C19): several calls of declared-parameter functions in ONE
// run, with calls nested in each other's argument lists (also in loops, so
// that whatever a call leaves behind meets the next one). Every call must
// receive exactly the arguments written for it. The functions:
//   v(...rest)        returns 1000 + sum(rest)
//   w(a, ...rest)     returns a + 10*len(rest)
//   g(a, b=7)         returns 2*a + b
//   h(a, b=99)        returns 3*a + b   (same parameter names as g, other default)
// All arguments are integers, so the reference is a few lines of arithmetic.

type nCall struct {
	Name    string
	Args    []nArg
	Swapped bool // written as f(b = .., a = ..)
}

type nArg struct {
	Lit  int64
	Call *nCall
	Name string // non-empty: written as a named argument
	Var  string // non-empty: the value is read from this script variable
}

// script variables named like the parameters; the script never assigns them
// again, so a call that is given one receives this value - before, between
// and after calls that bind parameters of the same names
var nVarVals = map[string]int64{"a": 501, "b": 602, "rest": 703}
var nVarNames = []string{"a", "b", "rest"}

type nEvent struct {
	Name string
	Args []int64
}

func (e nEvent) String() string { return fmt.Sprintf("%s%v", e.Name, e.Args) }

func genNCall(r *rand.Rand, d int) *nCall {
	c := &nCall{Name: []string{"v", "v", "w", "g", "h"}[r.Intn(5)]}
	n := 0
	switch c.Name {
	case "v":
		n = r.Intn(5)
	case "w":
		n = 1 + r.Intn(4)
	default:
		n = 1 + r.Intn(2)
	}
	for i := 0; i < n; i++ {
		if d > 0 && r.Intn(3) == 0 {
			c.Args = append(c.Args, nArg{Call: genNCall(r, d-1)})
		} else if r.Intn(4) == 0 {
			c.Args = append(c.Args, nArg{Var: nVarNames[r.Intn(len(nVarNames))]})
		} else {
			c.Args = append(c.Args, nArg{Lit: int64(r.Intn(90) + 1)})
		}
	}
	// g(a, b=7) may be called with named arguments (a trailing run of them):
	// g(a = X), g(X, b = Y), g(a = X, b = Y) - the values are often calls
	if (c.Name == "g" || c.Name == "h") && r.Intn(2) == 0 {
		names := []string{"a", "b"}
		from := r.Intn(len(c.Args))
		for i := from; i < len(c.Args); i++ {
			c.Args[i].Name = names[i]
			if c.Args[i].Call == nil && c.Args[i].Var == "" && d > 0 && r.Intn(2) == 0 {
				c.Args[i].Call = genNCall(r, d-1)
			}
		}
		// both named: also in the other order (values without calls, so that
		// the order of evaluation does not matter)
		if from == 0 && len(c.Args) == 2 && c.Args[0].Call == nil && c.Args[1].Call == nil && r.Intn(2) == 0 {
			c.Swapped = true
		}
	}
	return c
}

func (c *nCall) text() string {
	var a []string
	for _, x := range c.Args {
		pre := ""
		if x.Name != "" {
			pre = x.Name + " = "
		}
		switch {
		case x.Call != nil:
			a = append(a, pre+x.Call.text())
		case x.Var != "":
			a = append(a, pre+x.Var)
		default:
			a = append(a, pre+fmt.Sprint(x.Lit))
		}
	}
	if c.Swapped {
		a[0], a[1] = a[1], a[0]
	}
	return c.Name + "(" + strings.Join(a, ", ") + ")"
}

// eval is the reference: arguments left to right, nested calls first.
func (c *nCall) eval(log *[]nEvent) int64 {
	var vals []int64
	for _, x := range c.Args {
		switch {
		case x.Call != nil:
			vals = append(vals, x.Call.eval(log))
		case x.Var != "":
			vals = append(vals, nVarVals[x.Var])
		default:
			vals = append(vals, x.Lit)
		}
	}
	*log = append(*log, nEvent{c.Name, vals})
	switch c.Name {
	case "v":
		s := int64(1000)
		for _, v := range vals {
			s += v
		}
		return s
	case "w":
		return vals[0] + 10*int64(len(vals)-1)
	}
	b, k := int64(7), int64(2)
	if c.Name == "h" {
		b, k = 99, 3
	}
	if len(vals) > 1 {
		b = vals[1]
	}
	return k*vals[0] + b
}

var nParams = map[string][]*runtimev2.Param{
	"v": {{Name: "rest", Variable: true}},
	"w": {{Name: "a"}, {Name: "rest", Variable: true}},
	"g": {{Name: "a"}, {Name: "b", Val: func() any { return int64(7) }}},
	"h": {{Name: "a"}, {Name: "b", Val: func() any { return int64(99) }}},
}

func (c19) nested(c *mon.Ctx) {
	r := c.R
	var calls []*nCall
	var src strings.Builder
	loop := r.Intn(3) == 0
	n := 2 + r.Intn(3)
	for i := 0; i < n; i++ {
		calls = append(calls, genNCall(r, 2))
	}
	src.WriteString("a = 501\nb = 602\nrest = 703\n")
	if loop {
		src.WriteString("for i = 0; i < 2; i = i + 1 {\n")
	}
	for i, cl := range calls {
		fmt.Fprintf(&src, "x%d = %s\n", i, cl.text())
	}
	if loop {
		src.WriteString("}\n")
	}
	// binding parameters by name leaves the script's variables of those names alone
	src.WriteString("xe = v(a, b, rest)\n")
	var want []nEvent
	rounds := 1
	if loop {
		rounds = 2
	}
	for k := 0; k < rounds; k++ {
		for _, cl := range calls {
			cl.eval(&want)
		}
	}
	want = append(want, nEvent{"v", []int64{501, 602, 703}})

	var got []nEvent
	defaultWrong := ""
	var kept [][]any // the variadic slices exactly as handed over
	var keptCopy [][]any
	toInt := func(v any) int64 {
		i, _ := v.(int64)
		return i
	}
	mk := func(name string) *runtimev2.Fn {
		params := nParams[name]
		return &runtimev2.Fn{
			CallCheck: func(ctx *runtimev2.Task, e *ast.CallExpr) *errchain.PlError {
				return runtimev2.CheckPassParam(ctx, e, params)
			},
			Call: func(ctx *runtimev2.Task, e *ast.CallExpr) *errchain.PlError {
				var vals []int64
				dflt := int64(-1)
				for pi, p := range params {
					v, err := runtimev2.GetParam(ctx, e, params, pi)
					if err != nil {
						return err
					}
					if p.Variable {
						lst, _ := v.([]any)
						kept = append(kept, lst)
						keptCopy = append(keptCopy, append([]any(nil), lst...))
						for _, x := range lst {
							vals = append(vals, toInt(x))
						}
					} else if !((name == "g" || name == "h") && pi == 1 && len(e.Param) < 2) {
						vals = append(vals, toInt(v))
					} else {
						// the default was taken: not an argument written in the call,
						// but it must be THIS function's default
						dflt = toInt(v)
					}
				}
				ev := nEvent{name, vals}
				got = append(got, ev)
				// compute the return value from what was received
				var ret int64
				switch name {
				case "v":
					ret = 1000
					for _, x := range vals {
						ret += x
					}
				case "w":
					ret = vals[0] + 10*int64(len(vals)-1)
				default:
					b, k := int64(7), int64(2)
					if name == "h" {
						b, k = 99, 3
					}
					if len(vals) > 1 {
						b = vals[1]
					} else if dflt != b {
						defaultWrong = fmt.Sprintf("%s(...) with b omitted received the default %d, its declaration says %d", name, dflt, b)
					}
					ret = k*vals[0] + b
				}
				ctx.Regs.ReturnAppend(runtimev2.V{V: ret, T: ast.Int})
				return nil
			},
		}
	}
	text := src.String()
	info := map[string]any{"source": text}
	table := map[string]*runtimev2.Fn{"v": mk("v"), "w": mk("w"), "g": mk("g"), "h": mk("h")}
	s, err := engine.ParseV2("c19n.p", text, table)
	c.Eval(1)
	if err != nil {
		c.Violate("bindable-call-rejected", fmt.Sprintf("rejected at load: %v\n%s", err, text), info)
		return
	}
	out := drive.RunV2(s, &drive.RunState{Budget: 20000})
	c.Nontrivial(text)
	nested := strings.Count(text, "(") - len(calls) - 1
	c.Count("nested_calls_executed", nested*rounds)
	switch {
	case out.Panic != nil:
		c.Violate("call-panic", fmt.Sprintf("panic: %v\n%s", out.Panic, text), info)
		return
	case out.Err != nil:
		c.Violate("getparam-error", fmt.Sprintf("the run failed: %s\n%s", drive.ErrString(out.Err), text), info)
		return
	}
	if defaultWrong != "" {
		c.Violate("wrong-default", defaultWrong+"\n"+text, info)
		return
	}
	if len(got) != len(want) {
		c.Violate("wrong-binding", fmt.Sprintf("%d calls executed, %d expected\n  received: %v\n  expected: %v\n%s", len(got), len(want), got, want, text), info)
		return
	}
	for i := range want {
		if got[i].String() != want[i].String() {
			c.Violate("wrong-binding", fmt.Sprintf("call #%d received %v, the source gives it %v\n  all received: %v\n  all expected: %v\n%s", i, got[i], want[i], got, want, text), info)
			return
		}
	}
	for i := range kept {
		if fmt.Sprint(kept[i]) != fmt.Sprint(keptCopy[i]) {
			c.Violate("variadic-arguments-changed-after-the-call", fmt.Sprintf("the list handed to variadic call #%d was %v when received and reads %v at the end of the run\n%s", i, keptCopy[i], kept[i], text), info)
			return
		}
	}
}

var _ = mon.Hash64
