package main

import (
	"bytes"
	"encoding/json"
	"fmt"
	"os"
	"os/exec"
	"path/filepath"
	"sort"
	"strings"
	"time"

	"github.com/GuanceCloud/platypus/pkg/engine"
	"github.com/GuanceCloud/platypus/pkg/inimpl/guancecloud/funcs"
	"github.com/GuanceCloud/platypus/pkg/inimpl/guancecloud/input"
	"github.com/influxdata/influxdb1-client/models"
	influxdb "github.com/influxdata/influxdb1-client/v2"

	"verif/internal/drive"
	"verif/internal/mon"
)

// C20: the command-line runner reports the point exactly as the script left
// it.

type c20 struct{}

func init() {
	register(c20{})
	mon.Assumptions["C20"] = []string{
		"the binary under test is built by check.sh from /repo's working tree (.build/platypus)",
		"the oracle is the library API (ParseScript + InitPt + Run) for the same workspace and input, rendered through the same encoders and parsed back the same way (encoding/json with UseNumber, influx models.ParsePoints)",
		"time is compared when the input (line-protocol timestamp) or the script (default_time) determines it; for text input without default_time only presence and format are checked (no wall-clock oracle)",
		"'reported' = the run prints an ERROR-level log line and no output block (the binary's exit status is 0 either way)",
	}
}

func (c20) ID() string { return "C20" }
func (c20) Rule() string {
	return "seeded workspaces (1..3 .p/.ppl scripts plus files with other extensions that must be ignored) whose selected script adds / drops / renames / casts keys, sets tags, changes the measurement, changes the time (default_time), use()s a sibling, fails at load or fails at run; inputs: text, line protocol with 1..3 points (tags, all field types, explicit timestamps); x {workspace mode, single-file mode} x {json, lineprotocol} x {with input, without -i}. Non-trivial = an invocation whose script changed the point. Distinct = (feature set, input type, mode, output type) cells and distinct invocations."
}

func (c20) Plan(tier string, seed int64) []mon.Workload {
	n := int64(120)
	if tier == "thorough" {
		n = 3000
	}
	return []mon.Workload{{Name: "invocations", N: n, BatchTimeoutS: 1800},
		{Name: "mode-matrix", N: int64(len(c20MatrixBodies) * 2 * 3 * 2 * 2), Exhaustive: true, BatchTimeoutS: 1800},
		{Name: "lp-inputs", N: int64(len(c20LPInputs) * len(c20LPBodies) * 2 * 2), Exhaustive: true, BatchTimeoutS: 1800},
		{Name: "text-inputs", N: int64(len(c20TextInputs) * len(c20TextBodies) * 2 * 2), Exhaustive: true, BatchTimeoutS: 1800}}
}

// mode-matrix (exhaustive): every way of calling the runner x a handful of
// script bodies that depend on the mode: {workspace, single file} x {text,
// line protocol, no input} x {json, lineprotocol} x {LF, CRLF files} x bodies
// (no use, use of a sibling, a three-level use chain, a use of a missing
// script, a key named like an attribute, a long loop, a multi-line literal).
var c20MatrixBodies = []struct{ Name, Text string }{
	{"plain", "add_key(nk, 7)\nset_tag(tg1, \"tv\")\n"},
	{"use", "add_key(m1, 1)\nuse(\"lib.p\")\nadd_key(m2, 2)\n"},
	{"use-chain", "use(\"lib.v1.ppl\")\nadd_key(after_chain, 1)\n"},
	{"use-missing", "add_key(m1, 1)\nuse(\"missing.p\")\n"},
	{"attribute-names", "add_key(time, 312)\nadd_key(measurement, \"x\")\nset_measurement(\"changed\")\n"},
	{"long-loop", "n = 0\nfor i = 0; i < 7000; i = i + 1 {\n  n = i\n}\nadd_key(after_loop, n)\n"},
	{"multi-line", "add_key(ml, \"\"\"one\ntwo\"\"\")\ndefault_time(nosuchkey)\n"},
	{"run-error", "add_key(before, 1)\nx = [1]\ny = x[5]\nadd_key(after, 1)\n"},
}

// lp-inputs (exhaustive): line-protocol inputs with escapes in every position
// (measurement, tag keys, tag values, field keys, string fields), every field
// type, blank and comment lines, CRLF x {json, lineprotocol} x {workspace,
// single file} x bodies that leave the point alone / touch escaped keys.
var c20LPInputs = []string{
	"cpu\\=load,host=h1 v=1i 1700000000000000003\n",
	"cpu\\\"q,host=h1 v=1i 1700000000000000003\n",
	"we\\ ird\\,m,ta\\=g=v\\,1,t\\ 2=a\\=b fi\\=eld=1i,f\\ 2=\"q\\\"uo\\\\ted\" 1700000000000000004\n",
	"m v=1e3,w=-0.0,x=t,y=F,z=\"\" 1700000000000000005\n",
	"m,host=h\\1 v=\"a\\b\" 1700000000000000007\n",
	"   m v=1i 1700000000000000008\n",
	"m v=1i 1700000000000000009\r\nm2 v=2i 1700000000000000010\r\n",
	"a\\=b\\=c v=1i 1700000000000000011\nplain v=2i 1700000000000000012\n",
	"plain v=2i 1700000000000000012\na\\=b v=1i 1700000000000000011\n",
	"m,a=1,b=2 message=\"has message\",v=9223372036854775807i 1\n",
	"m\x1b[1m,host=h\x1b[31mred\x1b[0m v=\"a\x1b]0;t\x07b\",w\x1b[m=1i 1700000000000000013\n",
}
var c20LPBodies = []struct{ Name, Text string }{
	{"untouched", "add_key(nk, 7)\n"},
	{"reads-writes", "add_key(nk2, \"s\")\nset_tag(tg1, \"tv\")\nrename(v2, v)\n"},
	{"empty", "# nothing\n"},
}

func c20LPCase(i int64) c20Case {
	out := []string{"json", "lineprotocol"}[i%2]
	i /= 2
	mode := []string{"workspace", "single"}[i%2]
	i /= 2
	body := c20LPBodies[int(i)%len(c20LPBodies)]
	in := c20LPInputs[int(i)/len(c20LPBodies)]
	cs := c20Case{Files: map[string]string{}, Script: "sel.p", OutType: out, Mode: mode, Features: []string{"lp-input", body.Name}}
	cs.Files["sel.p"] = body.Text
	cs.InType, cs.Input = "lineprotocol", in
	return cs
}

// text-inputs (exhaustive): text inputs that are not plain ASCII lines -
// bytes that are not valid UTF-8 (latin-1 text, a multi-byte character cut
// off, several bad bytes in a row), NUL, CR, tabs, a BOM, no final newline /
// several - x bodies that pass the message through / measure it / cut it
// x {json, lineprotocol} x {workspace, single file}: the script sees, and the
// output shows, the bytes of the file.
var c20TextInputs = []string{"caf\xe9 au lait", "cut off \xe4\xb8", "\xff\xfe\xfd three", "a\xc3", "nul\x00inside", "cr\r\nlf\n", "\ufeffbom first", "tab\tand  spaces ", "trailing\n\n\n", "é世😀 valid", "\xed\xa0\x80 surrogate", "x",
	// control bytes and the sequences terminals, pagers and log viewers interpret
	"\x1b[31mred\x1b[0m plain", "\x1b]0;title\x07after", "lone \x1b esc \x1b[", "\x1b[2J\x1b[H", "bs\x08\x08 del\x7f bel\x07 ff\x0c vt\x0b", "\x01\x02\x03\x04\x05\x06\x0e\x0f\x10\x1a\x1c\x1f",
	"c1 \u009b31m csi \u0085 nel", "\u2028 ls \u2029 ps \u202e rtl \u200b zw", "\x1b[38;5;196mx\x1b[m\x1b(B", "\x1bPdcs\x1b\\ \x1b^pm\x1b\\ \x1b_apc\x1b\\"}

func init() {
	// long inputs: a message on both sides of 4 KiB and 64 KiB, and one of 300 000 bytes (pipes, scanners and loggers have buffers)
	for _, n := range []int{4095, 4096, 4097, 65535, 65536, 65537, 300000} {
		c20TextInputs = append(c20TextInputs, strings.Repeat("0123456789abcdef", n/16+1)[:n-1]+"E")
	}
}

var c20TextBodies = []struct{ Name, Text string }{
	{"pass-through", "add_key(nk, 1)\n"},
	{"measure", "add_key(n, len(_))\nadd_key(head, _[0:3])\nadd_key(tail, _[-2:])\n"},
	{"copy", "add_key(copy, _)\nuppercase(copy)\n"},
}

func c20TextCase(i int64) c20Case {
	out := []string{"json", "lineprotocol"}[i%2]
	i /= 2
	mode := []string{"workspace", "single"}[i%2]
	i /= 2
	body := c20TextBodies[int(i)%len(c20TextBodies)]
	in := c20TextInputs[int(i)/len(c20TextBodies)]
	cs := c20Case{Files: map[string]string{}, Script: "sel.p", OutType: out, Mode: mode, Features: []string{"text-input", body.Name}}
	cs.Files["sel.p"] = body.Text
	cs.InType, cs.Input = "text", in
	return cs
}

func c20Matrix(i int64) c20Case {
	crlf := i%2 == 1
	i /= 2
	out := []string{"json", "lineprotocol"}[i%2]
	i /= 2
	in := int(i % 3)
	i /= 3
	mode := []string{"workspace", "single"}[i%2]
	body := c20MatrixBodies[i/2]
	cs := c20Case{Files: map[string]string{}, Script: "sel.p", OutType: out, Mode: mode, Features: []string{body.Name}}
	cs.Files["sel.p"] = body.Text
	cs.Files["lib.p"] = "add_key(from_lib, \"lib\")\n"
	cs.Files["lib.v1.ppl"] = "add_key(from_l1, 1)\nuse(\"deep.p\")\n"
	cs.Files["deep.p"] = "add_key(from_deep, 2)\nuse(\"deeper.ppl\")\n"
	cs.Files["deeper.ppl"] = "set_tag(deepest, \"yes\")\n"
	cs.Files["notes.txt"] = "nosuch_function()\n"
	// sub-folders with scripts named like the workspace's own (sorting before and after them)
	cs.Files["zlib/sel.p"] = "add_key(from_nested_decoy, 1)\n"
	cs.Files["zz/lib.p"] = "add_key(nested_lib, 1)\n"
	cs.Files["old/deep.p"] = "add_key(nested_deep, 1)\n"
	cs.Files["a_dir/sel.p"] = "add_key(from_early_decoy, 1)\n"
	cs.Files["zlib/more/deeper.ppl"] = "add_key(nested_deeper, 1)\n"
	if crlf {
		for n, t := range cs.Files {
			cs.Files[n] = strings.ReplaceAll(t, "\n", "\r\n")
		}
		cs.Features = append(cs.Features, "crlf")
	}
	switch in {
	case 0:
		cs.InType, cs.Input = "text", "plain text message"
	case 1:
		cs.InType, cs.Input = "lineprotocol", "nginx,host=h1 f1=1.5,f2=\"str\",time=5i 1700000000123456789\nm2 f1=2i 1600000000000000000\n"
	default:
		cs.InType, cs.Input = "text", "<none>"
	}
	return cs
}

type c20Case struct {
	Files      map[string]string
	Script     string
	Input      string // "" = none
	InType     string
	OutType    string
	Mode       string // workspace | single
	Features   []string
	ScriptTime bool // the script sets the time
}

var c20Snips = []struct {
	Name string
	Text string
	Time bool
}{
	{"add_key", "add_key(nk, 7)\nadd_key(ns, \"héllo\")\n", false},
	{"drop_key", "drop_key(f1)\n", false},
	{"rename", "rename(renamed, message)\n", false},
	{"cast", "add_key(cn, \"12\")\ncast(cn, \"int\")\n", false},
	{"set_tag", "set_tag(tg1, \"tv\")\nset_tag(f2)\n", false},
	{"set_measurement", "set_measurement(\"changed_m\")\n", false},
	{"set_measurement_key", "add_key(mk, \"from_key\")\nset_measurement(mk, true)\n", false},
	{"default_time", "add_key(ts, \"2021-05-27 06:54:14.760 UTC\")\ndefault_time(ts)\n", true},
	{"default_time_zone", "add_key(ts, \"2014-04-26 17:24:37.123\")\ndefault_time(ts, \"+8\")\n", true},
	{"grok", "add_key(line, \"abc 12\")\ngrok(line, \"%{WORD:w1} %{INT:n1:int}\")\n", false},
	{"strfmt", "strfmt(fmtd, \"%v-%v\", 1, \"a\")\n", false},
	{"loop", "for i = 0; i < 3; i = i + 1 {\n  add_key(cnt, i)\n}\n", false},
	{"use", "use(\"lib.p\")\n", false},
	// a script that simply runs for a long time (tens of thousands of statements)
	{"long_loop", "cnt2 = 0\nfor i = 0; i < 9000; i = i + 1 {\n  cnt2 = i\n  if i % 1000 == 0 {\n    add_key(milestone, i)\n  }\n}\nadd_key(after_long_loop, cnt2)\n", false},
	// literals that span lines: their value contains the file's own line ends
	{"multiline_literal", "add_key(ml, \"\"\"line one\nline two\n\"\"\")\nadd_key(ml2, '''t1\n  t2''')\n", false},
	// keys whose names collide with the point's own attributes
	{"key_named_time", "add_key(time, 1600000000000000000)\n", false},
	{"keys_named_like_attributes", "add_key(measurement, \"not the measurement\")\nadd_key(name, 5)\nset_tag(time, \"tag called time\")\nadd_key(fields, 1.5)\nadd_key(tags, true)\n", false},
	{"cast_time_key", "add_key(time, \"312\")\ncast(time, \"int\")\n", false},
	{"exit", "add_key(before_exit, 1)\nexit()\nadd_key(after_exit, 1)\n", false},
	{"run_error", "add_key(before_err, 1)\nx = 1 / zero_is_nil\n", false},
	{"load_error", "nosuch_function()\n", false},
	{"syntax_error", "a b\n", false},
	{"use_missing", "use(\"missing.p\")\n", false},
}

func (c20) build(c *mon.Ctx) c20Case {
	r := c.R
	cs := c20Case{Files: map[string]string{}}
	ext := []string{".p", ".ppl"}[r.Intn(2)]
	// script names: anything ending in .p / .ppl is a script, whatever else the name holds
	cs.Script = []string{"main", "main", "app.v2", "nginx.access.log", "my-script_1", "UPPER.Case"}[r.Intn(6)] + ext
	libName := []string{"lib.p", "lib.p", "lib.v1.ppl", "common.lib.p"}[r.Intn(4)]
	var body strings.Builder
	n := 1 + r.Intn(4)
	for k := 0; k < n; k++ {
		s := c20Snips[r.Intn(len(c20Snips))]
		if (s.Name == "load_error" || s.Name == "syntax_error" || s.Name == "use_missing" || s.Name == "run_error") && r.Intn(4) != 0 {
			s = c20Snips[r.Intn(8)]
		}
		body.WriteString(s.Text)
		cs.Features = append(cs.Features, s.Name)
		if s.Time {
			cs.ScriptTime = true
		}
	}
	cs.Files[cs.Script] = strings.ReplaceAll(body.String(), "\"lib.p\"", "\""+libName+"\"")
	cs.Files[libName] = "add_key(from_lib, \"lib\")\nset_tag(libtag, \"1\")\n"
	if r.Intn(2) == 0 {
		// a use() chain: the selected script reaches deep.p only through the library
		cs.Files[libName] += "use(\"deep.p\")\n"
		cs.Files["deep.p"] = "add_key(from_deep, 2)\nuse(\"deeper.ppl\")\n"
		cs.Files["deeper.ppl"] = "set_tag(deepest, \"yes\")\n"
	}
	if r.Intn(3) == 0 {
		cs.Files["other.ppl"] = "add_key(other, 1)\n"
	}
	if r.Intn(3) == 0 {
		cs.Files["broken.p"] = "a b c\n"
	}
	cs.Files["notes.txt"] = "nosuch_function() this is not a script\n"
	cs.Files["main.p.bak"] = "add_key(from_backup, 1)\n"
	cs.Files["zsub/"+cs.Script] = "add_key(from_nested_decoy, 1)\n"
	cs.Files["zsub/"+libName] = "add_key(nested_lib, 1)\n"
	cs.Files["0sub/deep.p"] = "a b c\n"
	if r.Intn(4) == 0 {
		// files saved with CRLF line ends (the scripts are then these very bytes for the library too)
		for n, t := range cs.Files {
			if strings.HasSuffix(n, ".p") || strings.HasSuffix(n, ".ppl") {
				cs.Files[n] = strings.ReplaceAll(t, "\n", "\r\n")
			}
		}
		cs.Features = append(cs.Features, "crlf")
	}
	cs.InType = []string{"text", "lineprotocol"}[r.Intn(2)]
	if cs.InType == "text" {
		cs.Input = []string{"plain text message", "héllo wörld 12", "", "line1\nline2\n", "  padded  "}[r.Intn(5)]
	} else {
		pts := []string{
			"nginx,host=h1,region=cn f1=1.5,f2=\"str\",f3=7i,f4=true 1700000000123456789",
			"m2 message=\"from lp\",f1=2i 1600000000000000000",
			"disk,t=a\\ b used=12i,free=3.25,f2=\"x,y\" 1650000000000000001",
			"http,host=h1 time=312i,code=200i,measurement=\"m\" 1700000000123456789",
		}
		k := 1 + r.Intn(3)
		var l []string
		for j := 0; j < k; j++ {
			l = append(l, pts[(r.Intn(4)+j)%4])
		}
		cs.Input = strings.Join(l, "\n") + "\n"
		switch r.Intn(6) {
		case 0:
			cs.Input = "# a comment line first\n" + cs.Input
		case 1:
			cs.Input = "\n\n" + cs.Input
		case 2:
			cs.Input = "m3,tg=x note=\"two\nlines\",f1=3i 1660000000000000000\n" + cs.Input
		}
	}
	if r.Intn(8) == 0 {
		cs.Input = "<none>"
	}
	cs.OutType = []string{"json", "lineprotocol"}[r.Intn(2)]
	cs.Mode = []string{"workspace", "single"}[r.Intn(2)]
	sort.Strings(cs.Features)
	return cs
}

func (k c20) Describe(c *mon.Ctx, workload string, i int64) any {
	switch workload {
	case "mode-matrix":
		return c20Matrix(i)
	case "lp-inputs":
		return c20LPCase(i)
	case "text-inputs":
		return c20TextCase(i)
	}
	return k.build(c)
}

type outPoint struct {
	Measurement string
	Tags        map[string]string
	Fields      map[string]string // rendered values
	Time        string
}

func (o outPoint) String() string {
	return fmt.Sprintf("measurement=%q tags=%v fields=%v time=%s", o.Measurement, o.Tags, o.Fields, o.Time)
}

func parseJSONOut(text string) (outPoint, error) {
	dec := json.NewDecoder(strings.NewReader(text))
	dec.UseNumber()
	var raw struct {
		Measurement string            `json:"measurement"`
		Tags        map[string]string `json:"tags"`
		Fields      map[string]any    `json:"fields"`
		Time        string            `json:"time"`
	}
	if err := dec.Decode(&raw); err != nil {
		return outPoint{}, err
	}
	o := outPoint{Measurement: raw.Measurement, Tags: raw.Tags, Fields: map[string]string{}, Time: raw.Time}
	if o.Tags == nil {
		o.Tags = map[string]string{}
	}
	for k2, v := range raw.Fields {
		o.Fields[k2] = fmt.Sprintf("%T:%v", v, v)
	}
	return o, nil
}

func parseLPOut(text string) (outPoint, error) {
	line := strings.TrimSpace(text)
	pts, err := models.ParsePointsWithPrecision([]byte(line), time.Unix(0, 0), "n")
	if err != nil || len(pts) != 1 {
		return outPoint{}, fmt.Errorf("cannot parse %q: %v", line, err)
	}
	p := pts[0]
	o := outPoint{Measurement: string(p.Name()), Tags: map[string]string{}, Fields: map[string]string{}, Time: fmt.Sprint(p.Time().UnixNano())}
	for _, t := range p.Tags() {
		o.Tags[string(t.Key)] = string(t.Value)
	}
	f, err := p.Fields()
	if err != nil {
		return outPoint{}, err
	}
	for k2, v := range f {
		o.Fields[k2] = fmt.Sprintf("%T:%v", v, v)
	}
	return o, nil
}

// libraryRun is the oracle: the library API on the same workspace and input.
func libraryRun(cs c20Case, scripts map[string]string) (block string, errText string, tn time.Time) {
	drive.Init()
	ok, errs := engine.ParseScript(scripts, funcs.FuncsMap, funcs.FuncsCheckMap)
	if e, bad := errs[cs.Script]; bad {
		return "", "load: " + e.Error(), tn
	}
	s, found := ok[cs.Script]
	if !found {
		return "", "script not found", tn
	}
	if cs.Input == "<none>" {
		return "", "", tn
	}
	var measurement string
	var tags map[string]string
	var fields map[string]any
	tn = time.Unix(1234567890, 0)
	switch cs.InType {
	case "lineprotocol":
		pts, err := models.ParsePointsWithPrecision([]byte(cs.Input), time.Unix(0, 0), "")
		if err != nil || len(pts) == 0 {
			return "", "input: cannot parse", tn
		}
		pt := influxdb.NewPointFrom(pts[0])
		f, err := pt.Fields()
		if err != nil {
			return "", "input: fields", tn
		}
		fields, tags, measurement, tn = f, pt.Tags(), pt.Name(), pt.Time()
	default:
		measurement = "default_name"
		fields = map[string]any{"message": cs.Input}
	}
	pt := input.InitPt(&input.Point{}, measurement, tags, fields, tn)
	if e := s.Run(pt, nil); e != nil {
		return "", "run: " + e.Error(), tn
	}
	if pt.Drop {
		return "", "dropped", tn
	}
	switch cs.OutType {
	case "json":
		buf := bytes.NewBuffer(nil)
		enc := json.NewEncoder(buf)
		enc.SetEscapeHTML(false)
		enc.SetIndent("", "  ")
		if err := enc.Encode(map[string]any{"measurement": pt.Measurement, "tags": pt.Tags, "fields": pt.Fields, "time": pt.Time}); err != nil {
			return "", "encode: " + err.Error(), tn
		}
		return buf.String(), "", pt.Time
	default:
		p, err := influxdb.NewPoint(pt.Measurement, pt.Tags, pt.Fields, pt.Time)
		if err != nil {
			return "", "encode: " + err.Error(), tn
		}
		return p.String(), "", pt.Time
	}
}

const c20Marker = "Platypus Output Data:"

func (k c20) Run(c *mon.Ctx, workload string, i int64) {
	cs := k.build(c)
	if workload == "mode-matrix" {
		cs = c20Matrix(i)
	}
	if workload == "lp-inputs" {
		cs = c20LPCase(i)
	}
	if workload == "text-inputs" {
		cs = c20TextCase(i)
	}
	bin := filepath.Join(root(), ".build", "platypus")
	if _, err := os.Stat(bin); err != nil {
		c.Inconclusive("the platypus binary has not been built: " + err.Error())
		return
	}
	dir, err := os.MkdirTemp("", "verif-c20-")
	if err != nil {
		c.Inconclusive(err.Error())
		return
	}
	defer os.RemoveAll(dir)
	ws := filepath.Join(dir, "ws")
	os.MkdirAll(ws, 0o755)
	os.MkdirAll(filepath.Join(ws, "subdir.p"), 0o755)
	for name, text := range cs.Files {
		os.MkdirAll(filepath.Dir(filepath.Join(ws, name)), 0o755)
		os.WriteFile(filepath.Join(ws, name), []byte(text), 0o644)
	}
	args := []string{"run", "-s", cs.Script, "-t", cs.InType, "--output-type", cs.OutType}
	scripts := map[string]string{}
	if cs.Mode == "workspace" {
		// four spellings of the same workspace (the process runs inside it):
		// absolute, with a trailing slash, relative, and the flag's default
		switch mon.Hash64(fmt.Sprint(cs.Files, cs.Input, cs.OutType)) % 4 {
		case 0:
			args = append(args, "-w", ws)
		case 1:
			args = append(args, "-w", ws+"/")
		case 2:
			args = append(args, "-w", ".")
		default:
			// no -w at all: the default is the current directory
		}
		for name, text := range cs.Files {
			// the workspace is the .p / .ppl files OF the directory (files in sub-folders are not part of it)
			if e := filepath.Ext(name); (e == ".p" || e == ".ppl") && !strings.Contains(name, "/") {
				scripts[name] = text
			}
		}
	} else {
		args = append(args, "-w", "")
		scripts[cs.Script] = cs.Files[cs.Script]
	}
	if cs.Input != "<none>" {
		in := filepath.Join(dir, "input.txt")
		os.WriteFile(in, []byte(cs.Input), 0o644)
		args = append(args, "-i", in)
	}
	cmd := exec.Command(bin, args...)
	cmd.Dir = ws
	var stdout, stderr bytes.Buffer
	cmd.Stdout, cmd.Stderr = &stdout, &stderr
	done := make(chan error, 1)
	if err := cmd.Start(); err != nil {
		c.Inconclusive("cannot start the binary: " + err.Error())
		return
	}
	go func() { done <- cmd.Wait() }()
	select {
	case <-done:
	case <-time.After(120 * time.Second):
		cmd.Process.Kill()
		<-done
		c.Inconclusive("the binary did not finish within the watchdog limit")
		return
	}
	c.Eval(1)
	out := stdout.String()
	info := map[string]any{"case": cs, "args": strings.Join(args, " "), "stdout": short(out), "stderr": short(stderr.String())}
	cell := fmt.Sprintf("%s | %s | %s | %s", strings.Join(cs.Features, "+"), map[bool]string{true: "no-input", false: cs.InType}[cs.Input == "<none>"], cs.Mode, cs.OutType)
	c.Cell("cells", cell)
	c.Nontrivial(fmt.Sprintf("%v|%s", cs.Files, strings.Join(args[:len(args)-1], " ")))

	wantBlock, wantErr, libTime := libraryRun(cs, scripts)
	hasBlock := strings.Contains(out, c20Marker)
	hasErrLine := strings.Contains(out, "ERROR")
	crashed := strings.Contains(stderr.String(), "panic:") || strings.Contains(out, "panic:")
	if crashed {
		if cs.InType == "lineprotocol" && strings.TrimSpace(cs.Input) == "" {
			return // outside the property's premise (no first point)
		}
		c.Violate("cli-panic", fmt.Sprintf("the binary panicked\n%s\n%s", short(out), short(stderr.String())), info)
		return
	}
	switch {
	case cs.Input == "<none>" && wantErr == "":
		if hasBlock {
			c.Violate("output-without-input", "no -i was given, yet an output block was printed\n"+short(out), info)
		}
		if hasErrLine {
			c.Violate("error-for-valid-script", "load-only run of a valid script reported an error\n"+short(out), info)
		}
		c.Count("load_only_runs", 1)
		return
	case wantErr != "":
		c.Count("runs_expected_to_report_an_error", 1)
		if hasBlock {
			c.Violate("output-despite-error", fmt.Sprintf("the library reports %q for this workspace/input, yet the binary printed an output block\n%s", wantErr, short(out)), info)
		} else if !hasErrLine {
			c.Violate("error-not-reported", fmt.Sprintf("the library reports %q; the binary printed neither an error nor output\n%s", wantErr, short(out)), info)
		}
		return
	}
	if !hasBlock {
		c.Violate("no-output-block", fmt.Sprintf("the library run succeeds, the binary printed no output block\n%s", short(out)), info)
		return
	}
	block := out[strings.Index(out, c20Marker)+len(c20Marker):]
	block = strings.TrimLeft(block, "\r\n")
	var got, want outPoint
	var e1, e2 error
	if cs.OutType == "json" {
		got, e1 = parseJSONOut(block)
		want, e2 = parseJSONOut(wantBlock)
	} else {
		got, e1 = parseLPOut(block)
		want, e2 = parseLPOut(wantBlock)
	}
	if e1 != nil || e2 != nil {
		c.Violate("unparsable-output", fmt.Sprintf("binary output: %v; library rendering: %v\n%s", e1, e2, short(block)), info)
		return
	}
	// the script determined the time iff the library run moved it away from
	// the oracle's fixed initial value
	timeDetermined := cs.InType == "lineprotocol" || !libTime.Equal(time.Unix(1234567890, 0))
	var diffs []string
	if got.Measurement != want.Measurement {
		diffs = append(diffs, fmt.Sprintf("measurement %q, library %q", got.Measurement, want.Measurement))
	}
	if fmt.Sprint(got.Tags) != fmt.Sprint(want.Tags) {
		diffs = append(diffs, fmt.Sprintf("tags %v, library %v", got.Tags, want.Tags))
	}
	if fmt.Sprint(got.Fields) != fmt.Sprint(want.Fields) {
		diffs = append(diffs, fmt.Sprintf("fields %v, library %v", got.Fields, want.Fields))
	}
	if timeDetermined && got.Time != want.Time {
		diffs = append(diffs, fmt.Sprintf("time %s, library %s", got.Time, want.Time))
	}
	if got.Time == "" {
		diffs = append(diffs, "no time in the output")
	}
	if len(diffs) > 0 {
		cl := "cli-output-differs"
		if strings.HasPrefix(diffs[0], "measurement") {
			cl += ":measurement"
		} else if strings.HasPrefix(diffs[0], "time") {
			cl += ":time"
		}
		c.Violate(cl, fmt.Sprintf("%s\n--- script %s\n%s--- input (%s)\n%s\n--- binary output\n%s", strings.Join(diffs, "; "), cs.Script, cs.Files[cs.Script], cs.InType, cs.Input, short(block)), info)
		return
	}
	c.Count("outputs_compared", 1)
	if c.WantSample() {
		c.Sample(map[string]any{"args": strings.Join(args, " "), "script": cs.Files[cs.Script], "input": cs.Input, "output": got.String()})
	}
}
