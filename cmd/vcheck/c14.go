package main

import (
	"fmt"

	"github.com/GuanceCloud/platypus/pkg/errchain"

	"verif/internal/drive"
	"verif/internal/gen"
	"verif/internal/gt"
	"verif/internal/mon"
	"verif/internal/ref"
)

// C14: a running script stops promptly when its cancellation signal fires.

type c14 struct{}

func init() {
	register(c14{})
	mon.Assumptions["C14"] = []string{
		"virtual time = the step hook's counter (evaluated nodes, statement starts, loop iterations); no wall clock is read",
		"\"the moment the signal starts reporting true\" is either the k-th poll (the property's quantifier) or a step index S (ExitSignal answers steps >= S), so an implementation that looks too rarely is caught",
		"the reference for the prefix condition is the real uninterrupted run of the same program (bounded by 3000 steps for non-terminating programs); only programs whose uninterrupted run reports no error are used",
		"allowance after firing: 2 x (nodes of the largest simple statement or header) + 4 x nesting depth + 16 steps",
	}
}

func (c14) ID() string             { return "C14" }
func (c14) HangIsViolation() bool  { return true }
func (c14) DeathIsViolation() bool { return true }
func (c14) Rule() string {
	return "seeded loop-bearing programs, terminating and non-terminating (empty infinite loops, infinite loops with effects, deep nesting, infinite loops inside use() callees for v1), for v1 and v2; for each program every poll index k (1..polls of the uninterrupted run, <= 40 for non-terminating) and every step index S (1..steps, <= 400, a seeded sample of 200 for long runs). Checked per run: returns, with nil error; no probe event after the first poll that answered true; at most one probe event after step S; the probe trace is a prefix of the uninterrupted trace; the run ends within the allowance after firing (else the step hook aborts it: 'did not stop'). Non-trivial = (program, k or S) strictly inside the run. Distinct = distinct (program, mode, index)."
}

func (c14) Plan(tier string, seed int64) []mon.Workload {
	n := int64(300)
	if tier == "thorough" {
		n = 6000
	}
	return []mon.Workload{{Name: "v1", N: n, CaseTimeoutS: 60}, {Name: "v2", N: n, CaseTimeoutS: 60}}
}

var c14Spins = []func() *gt.T{
	func() *gt.T { return gt.For(nil, nil, nil) },
	func() *gt.T { return gt.For(nil, nil, nil, gt.Call("p", gt.Str("spin"))) },
	func() *gt.T { return gt.For(nil, gt.Bool(true), nil) },
	func() *gt.T {
		return gt.For(gt.Assign("=", gt.Ident("zi"), gt.Int(0)), gt.Bin(">=", gt.Ident("zi"), gt.Int(0)), gt.Assign("=", gt.Ident("zi"), gt.Bin("+", gt.Ident("zi"), gt.Int(1))), gt.Call("p", gt.Ident("zi")))
	},
	func() *gt.T { return gt.For(nil, nil, nil, gt.ForIn("ze", gt.List(gt.Int(1), gt.Int(2)))) },
	func() *gt.T {
		return gt.For(nil, nil, nil, gt.If(gt.Bool(true), gt.Continue()), gt.Call("p", gt.Str("never")))
	},
	func() *gt.T { return gt.For(nil, nil, nil, gt.For(nil, nil, nil, gt.For(nil, nil, nil))) },
	func() *gt.T {
		return gt.For(nil, nil, nil, gt.If(gt.Bool(true), gt.If(gt.Bool(true), gt.ForIn("ze", gt.Str("ab"), gt.If(gt.Bool(false), gt.Break())))))
	},
	func() *gt.T {
		return gt.For(nil, nil, nil, gt.Call("p", gt.Str("a")), gt.Call("p", gt.Str("b")), gt.Call("p", gt.Str("c")))
	},
}

// deep spins: an infinite loop (empty, or with a body) below 8..65 enclosing
// blocks of alternating kinds - the signal has to unwind every level
func c14DeepSpin(depth int, inner *gt.T) *gt.T {
	t := inner
	for d := depth; d > 0; d-- {
		switch d % 3 {
		case 0:
			t = gt.If(gt.Bool(true), t)
		case 1:
			q := fmt.Sprintf("zq%d", d)
			t = gt.For(gt.Assign("=", gt.Ident(q), gt.Int(0)), gt.Bin("<", gt.Ident(q), gt.Int(2)), gt.Assign("=", gt.Ident(q), gt.Bin("+", gt.Ident(q), gt.Int(1))), t)
		default:
			t = gt.ForIn(fmt.Sprintf("zr%d", d), gt.List(gt.Int(1), gt.Int(2)), t)
		}
	}
	return t
}

func init() {
	for _, d := range []int{7, 8, 9, 15, 16, 17, 33, 65} {
		d := d
		c14Spins = append(c14Spins, func() *gt.T { return c14DeepSpin(d, gt.For(nil, nil, nil)) })
		if d%2 == 1 {
			c14Spins = append(c14Spins, func() *gt.T {
				return c14DeepSpin(d, gt.For(nil, nil, nil, gt.Call("p", gt.Str("deep")), gt.If(gt.Bool(false), gt.Break())))
			})
		}
	}
}

type c14Case struct {
	V2    bool
	Stmts map[string][]*gt.T
	Srcs  map[string]string
	Grace int64
	Spin  bool
}

func maxStmtNodes(l []*gt.T, depth int, maxNodes, maxDepth *int) {
	for _, s := range l {
		if depth > *maxDepth {
			*maxDepth = depth
		}
		n := 0
		switch s.K {
		case gt.KIf:
			for i, c := range s.Conds {
				if k := gt.Count([]*gt.T{c}); k > n {
					n = k
				}
				maxStmtNodes(s.Blocks[i], depth+1, maxNodes, maxDepth)
			}
			maxStmtNodes(s.Else, depth+1, maxNodes, maxDepth)
		case gt.KFor:
			for _, h := range []*gt.T{s.Init, s.Cond, s.Loop} {
				if h != nil {
					n += gt.Count([]*gt.T{h})
				}
			}
			maxStmtNodes(s.Body, depth+1, maxNodes, maxDepth)
		case gt.KForIn:
			n = gt.Count([]*gt.T{s.Kids[1]})
			maxStmtNodes(s.Body, depth+1, maxNodes, maxDepth)
		default:
			n = gt.Count([]*gt.T{s})
		}
		if n > *maxNodes {
			*maxNodes = n
		}
	}
}

// after-callee-exit: a script reached through use() (directly or one level
// further down) calls exit() - which ends that script only - and the CALLER
// then runs on, into a loop that never ends by itself. The host's signal has
// to stop that loop like any other.
func c14AfterExit(c *mon.Ctx) c14Case {
	cs := c14Case{Stmts: map[string][]*gt.T{}, Srcs: map[string]string{}, Spin: true}
	r := c.Sub("after-exit")
	deep := r.Intn(2) == 0
	leaf := []*gt.T{gt.Call("p", gt.Str("leaf")), gen.ExitStmt(r), gt.Call("p", gt.Str("never"))}
	if r.Intn(3) == 0 {
		leaf = []*gt.T{gt.ForIn("e", gt.List(gt.Int(1), gt.Int(2)), gt.Call("p", gt.Ident("e")), gt.If(gt.Bin("==", gt.Ident("e"), gt.Int(1)), gen.ExitStmt(r)))}
	}
	use := func(n string) *gt.T {
		if r.Intn(3) == 0 {
			return gt.If(gt.Bool(true), gt.Call("use", gt.Str(n)))
		}
		return gt.Call("use", gt.Str(n))
	}
	spin := c14Spins[r.Intn(len(c14Spins))]()
	if deep {
		cs.Stmts["s2.p"] = leaf
		cs.Stmts["s1.p"] = []*gt.T{gt.Call("p", gt.Str("s1")), use("s2.p"), gt.Call("p", gt.Str("s1-after"))}
		if r.Intn(2) == 0 {
			// the loop is in the middle script
			cs.Stmts["s1.p"] = append(cs.Stmts["s1.p"], spin)
			spin = gt.Call("p", gt.Str("main-after"))
		}
	} else {
		cs.Stmts["s1.p"] = leaf
	}
	cs.Stmts["main.p"] = []*gt.T{gt.Call("p", gt.Str("m0")), use("s1.p"), gt.Call("p", gt.Str("m1")), spin, gt.Call("p", gt.Str("end"))}
	mn, md := 1, 0
	for n, st := range cs.Stmts {
		st = gt.ParenthesizeStmts(st)
		cs.Stmts[n] = st
		cs.Srcs[n] = gt.Print(st, nil)
		maxStmtNodes(st, 0, &mn, &md)
	}
	cs.Grace = int64(2*mn + 8*md + 16)
	return cs
}

// use-in-literal: the use() call that is running when the signal fires sits
// INSIDE an expression - an element of a list or map literal, an index key on
// either side of an assignment, a bare expression statement - and more
// statements follow in the same block. The caller stops like after a plain
// use() statement.
func c14UseInLiteral(c *mon.Ctx) c14Case {
	cs := c14Case{Stmts: map[string][]*gt.T{}, Srcs: map[string]string{}}
	r := c.Sub("use-in-literal")
	use := gt.Call("use", gt.Str("s1.p"))
	var st *gt.T
	switch r.Intn(6) {
	case 0:
		st = gt.Assign("=", gt.Ident("x"), gt.List(gt.Int(1), use))
	case 1:
		st = gt.Assign("=", gt.Ident("x"), gt.Map(gt.Str("k"), gt.List(use)))
	case 2:
		st = gt.Assign("=", gt.Index("w", use), gt.Int(1))
	case 3:
		st = gt.List(use, gt.Int(2))
	case 4:
		st = gt.Assign("=", gt.Ident("x"), gt.Index("w", use))
	default:
		st = gt.Assign("=", gt.Ident("x"), gt.Map(gt.Str("a"), gt.Int(1), gt.Str("b"), use))
	}
	body := []*gt.T{gt.Call("p", gt.Str("m0")), gt.Assign("=", gt.Ident("w"), gt.List(gt.Int(1), gt.Int(2))), st, gt.Call("p", gt.Str("m1")), gt.Assign("=", gt.Ident("y"), gt.Int(2)), gt.Call("p", gt.Str("m2"))}
	switch r.Intn(3) {
	case 0:
		body = []*gt.T{gt.If(gt.Bool(true), body...), gt.Call("p", gt.Str("after-if"))}
	case 1:
		body = []*gt.T{gt.ForIn("zz", gt.List(gt.Int(1), gt.Int(2)), body...), gt.Call("p", gt.Str("after-loop"))}
	}
	cs.Stmts["main.p"] = body
	cs.Stmts["s1.p"] = []*gt.T{gt.Call("p", gt.Str("s1")),
		gt.For(gt.Assign("=", gt.Ident("i"), gt.Int(0)), gt.Bin("<", gt.Ident("i"), gt.Int(3)), gt.Assign("=", gt.Ident("i"), gt.Bin("+", gt.Ident("i"), gt.Int(1))), gt.Call("p", gt.Ident("i"))),
		gt.Call("p", gt.Str("s1-end"))}
	mn, md := 1, 0
	for n, stl := range cs.Stmts {
		stl = gt.ParenthesizeStmts(stl)
		cs.Stmts[n] = stl
		cs.Srcs[n] = gt.Print(stl, nil)
		maxStmtNodes(stl, 0, &mn, &md)
	}
	cs.Grace = int64(2*mn + 8*md + 16)
	return cs
}

func (c14) build(c *mon.Ctx, v2 bool) c14Case {
	if !v2 {
		switch c.R.Intn(9) {
		case 0:
			return c14AfterExit(c)
		case 1:
			return c14UseInLiteral(c)
		}
	}
	cs := c14Case{V2: v2, Stmts: map[string][]*gt.T{}, Srcs: map[string]string{}}
	names := []string{"main.p"}
	if !v2 {
		// use() chains up to depth 3: the signal must reach the innermost script
		switch c.R.Intn(8) {
		case 0, 1:
			names = append(names, "s1.p")
		case 2:
			names = append(names, "s1.p", "s2.p")
		case 3:
			names = append(names, "s1.p", "s2.p", "s3.p")
		}
	}
	spin := c.R.Intn(2) == 0
	cs.Spin = spin
	spinIn := names[c.R.Intn(len(names))]
	for i := len(names) - 1; i >= 0; i-- {
		g := gen.NewProg(c.Sub(names[i]))
		g.V2 = v2
		g.IllTyped = 0
		g.Unbound = 0
		g.Containers = c.R.Intn(2) == 0
		g.MaxDepth = 2 + c.R.Intn(3)
		g.MaxStmts = 14
		g.Names = []string{"a", "b", "c"}
		stmts := g.Program()
		r := c.Sub("inject" + names[i])
		if i < len(names)-1 {
			for k := 1 + r.Intn(2); k > 0; k-- {
				ps := gt.StmtPositions(&stmts)
				target := names[i+1]
				if k > 1 && r.Intn(2) == 0 {
					target = names[i+1+r.Intn(len(names)-i-1)]
				}
				ps[r.Intn(len(ps))].Insert(gt.Call("use", gt.Str(target)))
			}
		}
		if spin && (names[i] == spinIn || len(names) > 2 && i == len(names)-1 && r.Intn(2) == 0) {
			ps := gt.StmtPositions(&stmts)
			ps[r.Intn(len(ps))].Insert(c14Spins[r.Intn(len(c14Spins))]())
		}
		stmts = gt.ParenthesizeStmts(stmts)
		cs.Stmts[names[i]] = stmts
		cs.Srcs[names[i]] = gt.Print(stmts, nil)
	}
	mn, md := 1, 0
	for _, s := range cs.Stmts {
		maxStmtNodes(s, 0, &mn, &md)
	}
	cs.Grace = int64(2*mn + 8*md + 16)
	return cs
}

func (k c14) Describe(c *mon.Ctx, workload string, i int64) any {
	cs := k.build(c, workload == "v2")
	return map[string]any{"scripts": cs.Srcs, "allowance_steps": cs.Grace}
}

type c14Runner func(rs *drive.RunState) drive.Outcome

func pEvents(ev []drive.Event) []ref.Event {
	var out []ref.Event
	for _, e := range ev {
		if e.Kind == "p" {
			out = append(out, ref.Event{Kind: e.Kind, Script: e.Script, Vals: e.Vals})
		}
	}
	return out
}

func (k c14) Run(c *mon.Ctx, workload string, i int64) {
	v2 := workload == "v2"
	cs := k.build(c, v2)
	info := map[string]any{"scripts": cs.Srcs, "interpreter": workload}
	var run c14Runner
	if v2 {
		s, err := drive.LoadV2("main.p", cs.Srcs["main.p"])
		if err != nil {
			c.Violate("valid-program-rejected", fmt.Sprintf("%v\n%s", err, cs.Srcs["main.p"]), info)
			return
		}
		run = func(rs *drive.RunState) drive.Outcome { return drive.RunV2(s, rs) }
	} else {
		ok, errs := drive.LoadV1(cs.Srcs)
		for n, e := range errs {
			c.Violate("valid-program-rejected", fmt.Sprintf("%s: %v\n%s", n, e, srcDump(cs.Srcs)), info)
			return
		}
		s := ok["main.p"]
		run = func(rs *drive.RunState) drive.Outcome {
			return drive.RunV1(s, drive.PointFromModel(nil), rs)
		}
	}
	const refBudget = 3000
	// map iteration order is unspecified: a program that walks a map with
	// several keys has no unique uninterrupted trace to be a prefix of
	mo := ref.Run(&ref.Program{Scripts: cs.Stmts, Funcs: ref.Merge(ref.ProbeFuncs(), ref.PointFuncs()), V2: v2}, "main.p", ref.NewPoint("", nil, nil, drive.PointFromModel(nil).Time), 30000)
	if mo.Shared.MapOrderDependent || mo.TooBig {
		c.Count("programs_skipped_map_order", 1)
		return
	}
	base := run(&drive.RunState{Budget: refBudget})
	c.Eval(1)
	if base.Panic != nil {
		c.Violate("panic", fmt.Sprintf("%v\n%s", base.Panic, srcDump(cs.Srcs)), info)
		return
	}
	if base.Err != nil {
		c.Count("programs_skipped_uninterrupted_run_errors", 1)
		return
	}
	infinite := base.Budget
	refTrace := pEvents(base.State.Events)
	polls, steps := base.State.Polls, base.State.Steps
	if infinite {
		c.Count("non_terminating_programs", 1)
	} else {
		c.Count("terminating_programs", 1)
	}
	c.Count("polls_in_uninterrupted_runs", polls)
	if polls < 2 {
		c.Count("programs_with_fewer_than_two_polls", 1)
	}

	check := func(mode string, idx int64, rs *drive.RunState, o drive.Outcome) bool {
		c.Eval(1)
		inside := (mode == "poll" && idx < int64(polls)) || (mode == "step" && idx < steps) || infinite
		if inside {
			c.Nontrivial(fmt.Sprintf("%s|%s|%d", srcDump(cs.Srcs), mode, idx))
		}
		where := fmt.Sprintf("interpreter %s, signal fires at %s %d (uninterrupted run: %d polls, %d steps, terminating=%v)", workload, mode, idx, polls, steps, !infinite)
		cse := map[string]any{"scripts": cs.Srcs, "interpreter": workload, "mode": mode, "index": idx}
		switch {
		case o.Panic != nil:
			c.Violate("panic", fmt.Sprintf("%s: %v\n%s", where, o.Panic, srcDump(cs.Srcs)), cse)
			return false
		case o.Budget && rs.FiredPoll == 0 && mode == "poll":
			c.Violate("did-not-stop:"+workload, fmt.Sprintf("%s: the run never polled the signal a %d-th time within %d steps\n%s", where, idx, rs.Steps, srcDump(cs.Srcs)), cse)
			return false
		case o.Budget:
			c.Violate("did-not-stop:"+workload, fmt.Sprintf("%s: still running %d steps after the signal fired (allowance %d)\n%s", where, rs.Steps-firedAt(mode, idx, rs), cs.Grace, srcDump(cs.Srcs)), cse)
			return false
		case o.Err != nil && inside:
			c.Violate("interrupted-run-returned-error:"+workload, fmt.Sprintf("%s: %s\n%s", where, drive.ErrString(o.Err), srcDump(cs.Srcs)), cse)
			return false
		}
		if mode == "poll" && rs.StmtsAfterFire > 0 {
			c.Violate("statement-started-after-signal-observed:"+workload, fmt.Sprintf("%s: %d statement(s) were started after poll %d had answered true (nothing may execute after the signal was observed)\n%s", where, rs.StmtsAfterFire, rs.FiredPoll, srcDump(cs.Srcs)), cse)
			return false
		}
		tr := pEvents(rs.Events)
		// nothing after the signal was observed / at most one after step S
		late := 0
		for _, e := range rs.Events {
			if e.Kind != "p" {
				continue
			}
			if mode == "poll" && rs.FiredPoll > 0 && e.Poll >= rs.FiredPoll {
				c.Violate("effect-after-signal-observed:"+workload, fmt.Sprintf("%s: probe event %s happened after poll %d had answered true\n%s", where, ref.Event{Kind: e.Kind, Script: e.Script, Vals: e.Vals}, rs.FiredPoll, srcDump(cs.Srcs)), cse)
				return false
			}
			if mode == "step" && e.Step > idx {
				late++
			}
		}
		if late > 1 {
			c.Violate("ran-past-the-signal:"+workload, fmt.Sprintf("%s: %d probe events happened after the signal had started to report true (at most the statement in progress may finish)\n%s", where, late, srcDump(cs.Srcs)), cse)
			return false
		}
		// prefix
		if len(tr) > len(refTrace) && !infinite {
			c.Violate("not-a-prefix", fmt.Sprintf("%s: interrupted run produced %d probe events, the uninterrupted run %d\n%s", where, len(tr), len(refTrace), srcDump(cs.Srcs)), cse)
			return false
		}
		for j := range tr {
			if j >= len(refTrace) {
				break
			}
			if !eventsEqual(tr[j], refTrace[j], v2) {
				c.Violate("not-a-prefix", fmt.Sprintf("%s: probe event %d is %s, the uninterrupted run has %s\n%s", where, j, tr[j], refTrace[j], srcDump(cs.Srcs)), cse)
				return false
			}
		}
		if rs.FiredPoll > 0 {
			c.MaxOf("max_steps_between_fire_and_return", rs.Steps-firedAt(mode, idx, rs))
			c.Count("runs_interrupted", 1)
		} else {
			c.Count("runs_finished_before_signal", 1)
		}
		return true
	}

	maxK := polls
	if infinite && maxK > 40 {
		maxK = 40
	}
	for kk := 1; kk <= maxK; kk++ {
		rs := &drive.RunState{FireAtPoll: kk, GraceAfterFire: cs.Grace, Budget: refBudget + 200}
		if !check("poll", int64(kk), rs, run(rs)) {
			return
		}
	}
	var ss []int64
	lim := steps
	if infinite && lim > 400 {
		lim = 400
	}
	if lim <= 400 {
		for s := int64(1); s <= lim; s++ {
			ss = append(ss, s)
		}
	} else {
		r := c.Sub("steps")
		for n := 0; n < 200; n++ {
			ss = append(ss, 1+r.Int63n(lim))
		}
	}
	for _, s := range ss {
		rs := &drive.RunState{FireAtStep: s, Budget: s + cs.Grace}
		if !check("step", s, rs, run(rs)) {
			return
		}
	}
	if c.WantSample() && infinite && len(srcDump(cs.Srcs)) < 500 {
		c.Sample(map[string]any{"scripts": cs.Srcs, "uninterrupted_polls_within_bound": polls, "allowance_steps": cs.Grace, "poll_indices_tried": maxK, "step_indices_tried": len(ss)})
	}
}

func firedAt(mode string, idx int64, rs *drive.RunState) int64 {
	if mode == "step" {
		return idx
	}
	return rs.FiredStep
}

var _ = errchain.NewErr
