package main

import (
	"fmt"
	"strings"
	"time"

	"verif/internal/drive"
	"verif/internal/gen"
	"verif/internal/gt"
	"verif/internal/mon"
	"verif/internal/ref"
)

// C12: extraction builtins store exactly what their pattern engine extracts.

type c12 struct{}

func init() {
	register(c12{})
	mon.Assumptions["C12"] = []string{
		"the grok, xmlquery, dateparse and SQL-obfuscation engines are the trusted base and are called directly by the monitor; bugs inside them are invisible by design",
		"pattern scoping model: a definition is visible from its statement to the end of its block and in nested blocks, the nearest definition in the same block wins (pinned by TestAddPattern), the global table comes last; a name visible from an enclosing block is never redefined in a nested block (fn.md and the code disagree on that case)",
		"house layouts and the zone table are data copied from fn.md / handle.go; the default zone is the process's time.Local (UTC in this sandbox); year-less layouts (they depend on the current year) are not generated",
		"the failure note pl_msg is compared by its documented prefix only",
	}
}

func (c12) ID() string { return "C12" }
func (c12) Rule() string {
	return "scopes: seeded block structures (top level, if/elif/else branches, loop bodies, nested) holding add_pattern definitions (also built from earlier definitions, redefined in the same block) and grok calls that reference visible, not-yet-visible, sibling-block and unknown names, typed captures str/int/float/bool incl. values that do not convert, trim flag, subjects that are fields / tags / variables / non-strings / absent: load verdict and final point compared with the scoping model + the real grok engine; time: every supported layout sample x zones {none, +8, -3:30, Asia/Tokyo, UTC, CST, +99, Mars/Olympus} through default_time, epoch values x precisions x layout names through datetime; xml: documents x XPath queries (text, attribute, no match, invalid); sql: SQL-like strings. Non-trivial = the subject exists. Distinct = distinct (program, point)."
}

func (c12) Plan(tier string, seed int64) []mon.Workload {
	m := int64(1)
	if tier == "thorough" {
		m = 25
	}
	return []mon.Workload{
		{Name: "scopes", N: 1500 * m},
		{Name: "time", N: int64(len(c12Times)*len(gen.Zones)) * 2, Exhaustive: true},
		{Name: "datetime", N: 600 * m},
		{Name: "xml", N: int64(len(c12Docs) * len(gen.XPaths) * 3), Exhaustive: true},
		{Name: "sql", N: 300 * m},
		{Name: "typed-captures", N: int64(len(c12CapBases) * len(c12CapTypes) * len(c12CapTypes) * 3), Exhaustive: true},
		{Name: "shadowing", N: int64(len(c12ShadowBlocks) * len(c12ShadowPairs) * 3), Exhaustive: true},
		{Name: "redeclare", N: int64(len(c12RedeclForms) * len(c12ShadowPairs) * 2), Exhaustive: true},
		{Name: "after-guard", N: int64(len(c12GuardForms) * len(c12ShadowPairs)), Exhaustive: true},
		{Name: "subjects", N: int64(len(c12SubjOps) * len(c12SubjSetups) * len(c12SubjSpell)), Exhaustive: true},
		{Name: "between", N: int64(len(c12SubjOps) * len(c12Between) * 4), Exhaustive: true},
	}
}

var c12Times = []string{"2014-04-26 17:24:37.3186369", "May 8, 2009 5:57:51 PM", "2012-08-03 18:31:59.257000000", "oct 7, 1970", "2014-04-26 17:24:37.123",
	"2013-04-01 22:43", "2013-04-01 22:43:22", "2014-12-16 06:20:00 UTC", "Mon Jan  2 15:04:05 2006", "2014-12-16 06:20:00 GMT", "Mon Jan  2 15:04:05 MST 2006",
	"2014-04-26 05:24:37 PM", "Mon Jan 02 15:04:05 -0700 2006", "2014-04-26 13:13:43 +0800", "Monday, 02-Jan-06 15:04:05 MST", "Mon, 02 Jan 2006 15:04:05 MST",
	"2014-04-26 13:13:44 +09:00", "Tue, 11 Jul 2017 16:28:13 +0200 (CEST)", "2012-08-03 18:31:59.257000000 +0000 UTC", "Mon, 02 Jan 2006 15:04:05 -0700",
	"2015-09-30 18:48:56.35272715 +0000 UTC", "Thu, 4 Jan 2018 17:53:36 +0000", "2015-02-18 00:12:00 +0000 GMT", "2017-07-19 03:21:51+00:00",
	"September 17, 2012 10:09am", "2014-04-26", "2014-04", "2014", "2014:3:31", "2014-05-11 08:20:13,787", "3.31.2014", "2014:4:8 22:05", "08.21.71",
	"2014.03.30", "20140601", "20140722105203", "1332151919", "2006-01-02T15:04:05+0000", "1384216367189", "2009-08-12T22:15:09-07:00",
	"1384216367111222", "2009-08-12T22:15:09", "1384216367111222333", "2009-08-12T22:15:09Z", "02/Dec/2021:11:55:34 +0800", "02 Dec 2021 12:55:34.000",
	"171113 14:14:20", "2021/02/27 - 14:14:20", "Tue May 18 06:25:05.176170 2021", "2021-05-27 06:54:14.760 UTC", "not a time", "", "99/99/9999", "12",
	// every spelling the built-in layouts admit: negative and zero embedded offsets, hours and days without a leading zero, midnight, year boundaries
	"02/Dec/2021:11:55:34 -0700", "31/Dec/2021:23:59:59 -1130", "01/Jan/2022:00:00:00 +0000", "02/Dec/2021:1:55:34 +0800", "02 Dec 2021 1:55:34.000", "31 Dec 1999 23:59:59.999",
	"211202 1:55:34", "000101 00:00:00", "2021/12/02 - 1:55:34", "2021/12/02 - 00:00:00", "Tue Dec 2 1:55:34.000000 2021", "Fri Dec 31 23:59:59.999999 2021",
	"2021-12-02 1:55:34.000 UTC", "2021-12-02 00:00:00.000 UTC", "1970-01-01 00:00:00.000 UTC", "1969-12-31 23:59:59.000 UTC",
	// integers of every width around the epoch widths (10 / 13 / 16 / 19 digits), signed and unsigned, zero-padded
	"163841733", "-163841733", "+163841733", "1638417330", "-1638417330", "163841733001", "+163841733001", "-16384173300", "1638417330012", "163841733001222", "-163841733001222",
	"1638417330012223", "163841733001222333", "+163841733001222333", "1638417330012223334", "-1638417330012223334", "0000000001", "0", "-1", "+0", "16384173300122233344", "1e9", "1638417330.5"}

var c12Docs = []string{"<a id='7'><b>x</b><b>y</b></a>", "<a><b><c>deep</c></b>tail</a>", "<?xml version=\"1.0\"?><r><i k=\"v\">1</i></r>", "<a><b>unclosed", "plain text", ""}

var c12Lines = []string{"abc 12 3.5 true end", "  spaced   7 1e3 false ", "héllo 42 x yes", "10.1.2.3 user GET /x 200", "ab-12", "12", "",
	// white space at the edges of the subject (the pattern sees the subject as it is; trim_space is about the captures)
	" 42 ", "42\n", " abc 7", "\tabc 12\t", "abc 12 "}

var c12Defs = [][2]string{{"p1", "[a-z]+"}, {"p2", "\\d+"}, {"p3", "%{p1}-%{p2}"}, {"p1", "[a-zé]+"}, {"p4", "%{p3}|%{WORD}"}, {"p2", "[0-9.e]+"}, {"WORD", "[a-c]+"}, {"p5", "%{nosuch}"},
	{"p1", "\\d+"}, {"p2", "[a-z]+"}, {"p1", "[a-z]+"}, {"p2", "\\d+"}, {"p1", "\\S+"}, {"p2", "\\S+"}}
var c12Groks = []string{"%{p1:w1} %{p2:n1:int}", "%{WORD:w1} %{INT:n1:int} %{NUMBER:x1:float} %{WORD:b1:bool}", "%{p3:both}", "%{p1:w1:str}\\s+%{p2:x1:float}",
	"%{NOTSPACE:w1} %{NOTSPACE:n1:int}", "%{p4:any}", "%{IP:ip} %{WORD:u}", "%{GREEDYDATA:all}", "%{p2:n1:bool}", "%{WORD:message}", "%{nosuch:z}", "(?P<raw>\\d+)", "%{p5:z}",
	// anchored patterns and explicit white space at the edges
	"^%{INT:n1:int}$", "^\\s%{WORD:w1} %{INT:n1:int}", "^%{WORD:w1} %{INT:n1:int}$", "%{WORD:w1} %{INT:n1:int}\\s$", "^\\s*%{NOTSPACE:w1}\\s+%{GREEDYDATA:all}$", "\\A%{INT:n1}\\z"}

// typed-captures (exhaustive): two grok calls in one script whose patterns
// differ ONLY in the type annotation of the capture (none, str, string, int,
// float, bool), in both orders, over five base patterns: each call stores its
// capture with its own designated type.
// the last three capture the blanks around the number too (what a typed
// capture makes of " 42 " is the engine's business, with and without the trim flag)
var c12CapBases = []string{"INT", "NUMBER", "WORD", "NOTSPACE", "tok", "GREEDYDATA", "DATA", "padnum"}
var c12CapTypes = []string{"", ":str", ":string", ":int", ":float", ":bool"}

func c12TypedCaptures(i int64) ([]*gt.T, *ref.Point) {
	trim := []string{"", ", true", ", false"}[i%3]
	i /= 3
	t2 := c12CapTypes[int(i)%len(c12CapTypes)]
	i /= int64(len(c12CapTypes))
	t1 := c12CapTypes[int(i)%len(c12CapTypes)]
	bi := int(i) / len(c12CapTypes)
	base := c12CapBases[bi]
	text := "add_pattern(\"tok\", \"[0-9.]+|true\")\nadd_pattern(\"padnum\", \"\\\\s*[0-9.]+\\\\s*\")\n" +
		"ok1 = grok(_, \"%{" + base + ":cap" + t1 + "} rest\"" + trim + ")\np(ok1, cap, get_key(cap))\n" +
		"if true {\n  ok2 = grok(msg2, \"%{" + base + ":cap" + t2 + "} rest\"" + trim + ")\n  p(ok2, cap, get_key(cap))\n}\n" +
		"ok3 = grok(_, \"%{" + base + ":cap" + t1 + "} rest\"" + trim + ")\np(ok3, cap, get_key(cap))\n"
	o := drive.Parse("typed-captures", text)
	if o.Err != nil {
		panic("c12: typed-captures program does not parse: " + text + ": " + o.Err.Error())
	}
	l, err := gt.FromStmts(o.Stmts)
	if err != nil {
		panic(err)
	}
	msgs := []string{"404 rest", "15.5 rest", "true rest", "word rest"}
	if bi >= 5 {
		msgs = []string{" 42  rest", "  7.5 rest", "\t1 rest", "size  42 rest", "15.5 rest", " true  rest"}
	}
	pt := ref.NewPoint("m", nil, map[string]any{"message": msgs[int(i)%len(msgs)], "msg2": msgs[(int(i)+1)%len(msgs)]}, time.Unix(1600000000, 0))
	return gt.CloneStmts(l), pt
}

// shadowing (exhaustive): an alias declared in an outer block and redefined
// with another expression inside a nested block (every block form) is the
// OUTER definition again after that block has ended - directly after it, in
// a later sibling block, and in both places. (References inside the block
// after the redefinition are left to the seeded scopes workload.)
// after-guard forms are part of the shadowing table: a definition / grok
// that FOLLOWS a conditional break or continue in a loop body is a statement
// like any other (checked at load time, compiled, scoped).
var c12GuardForms = []string{
	"for e in [1, 2] {\n  if e == 1 {\n    continue\n  }\n  ok2 = grok(_, \"%{al:w2}\")\n  p(ok2, w2)\n}\n",
	"for i = 0; i < 3; i = i + 1 {\n  if i == 2 {\n    break\n  }\n  add_pattern(\"al\", \"@B@\")\n  add_pattern(\"loc\", \"%{al}\")\n  ok2 = grok(_, \"%{loc:w2}\")\n  p(ok2, w2)\n}\n",
	"for e in \"ab\" {\n  if e == \"z\" {\n    break\n  } elif e == \"a\" {\n    continue\n  }\n  ok2 = grok(_, \"%{al:w2} %{INT:w3:int}\")\n  p(ok2, w2, w3)\n}\n",
	"for e in [1] {\n  if e == 5 {\n    continue\n  }\n  ok2 = grok(_, \"%{nosuchalias:w2}\")\n}\n",
}

var c12ShadowBlocks = [][2]string{{"if true {\n", "}\n"}, {"if false {\n} else {\n", "}\n"}, {"for i = 0; i < 1; i = i + 1 {\n", "}\n"}, {"for e in [1] {\n", "}\n"},
	{"if true {\n  if true {\n", "  }\n}\n"}, {"if false {\n} elif true {\n", "}\n"}}
var c12ShadowPairs = [][2]string{{"[a-z]+", "\\\\d+"}, {"\\\\d+", "[a-z]+"}, {"[a-z]+", "\\\\S+ \\\\S+"}, {"\\\\S+ \\\\S+", "\\\\d+"}, {"[a-c]+", "[a-z]+ "}, {"\\\\d", "\\\\d+"}}

// redeclare (exhaustive): a composite alias (its text refers to another
// alias) declared again with byte-identical text after the alias it refers
// to was redefined: the second declaration expands with the sub-pattern
// visible THEN. Same scope, and a built-in composite over a redefined
// built-in.
var c12RedeclForms = []string{
	"add_pattern(\"sub\", \"@A@\")\nadd_pattern(\"comp\", \"%{sub}.\")\nok1 = grok(_, \"%{comp:w1}\")\nadd_pattern(\"sub\", \"@B@\")\nadd_pattern(\"comp\", \"%{sub}.\")\nok2 = grok(_, \"%{comp:w2@T@}\")\np(ok1, w1, ok2, w2)\n",
	"add_pattern(\"sub\", \"@A@\")\nadd_pattern(\"comp\", \"%{sub}.\")\nadd_pattern(\"sub\", \"@B@\")\nadd_pattern(\"comp\", \"%{sub}.\")\nadd_pattern(\"top\", \"%{comp} ?\")\nok2 = grok(_, \"%{top:w2@T@}\")\np(ok2, w2)\n",
	"add_pattern(\"USERNAME\", \"@A@\")\nadd_pattern(\"USER\", \"%{USERNAME}\")\nok1 = grok(_, \"%{USER:w1}\")\nadd_pattern(\"USERNAME\", \"@B@\")\nadd_pattern(\"USER\", \"%{USERNAME}\")\nok2 = grok(_, \"%{USER:w2@T@}\")\np(ok1, w1, ok2, w2)\n",
	"add_pattern(\"sub\", \"@A@\")\nadd_pattern(\"comp\", \"%{sub}.\")\nadd_pattern(\"comp\", \"%{sub}.\")\nadd_pattern(\"sub\", \"@B@\")\nok2 = grok(_, \"%{comp:w2@T@}\")\nadd_pattern(\"comp\", \"%{sub}.\")\nok3 = grok(_, \"%{comp:w3}\")\np(ok2, w2, ok3, w3)\n",
}

func c12Redeclare(i int64) ([]*gt.T, *ref.Point) {
	typed := i%2 == 1
	i /= 2
	pair := c12ShadowPairs[int(i)%len(c12ShadowPairs)]
	form := c12RedeclForms[int(i)/len(c12ShadowPairs)]
	ty := ""
	if typed {
		ty = ":int"
	}
	text := strings.ReplaceAll(strings.ReplaceAll(strings.ReplaceAll(form, "@A@", pair[0]), "@B@", pair[1]), "@T@", ty)
	o := drive.Parse("redeclare", text)
	if o.Err != nil {
		panic("c12: redeclare program does not parse: " + text + ": " + o.Err.Error())
	}
	l, err := gt.FromStmts(o.Stmts)
	if err != nil {
		panic(err)
	}
	pt := ref.NewPoint("m", nil, map[string]any{"message": "abc 12 zz"}, time.Unix(1600000000, 0))
	return gt.CloneStmts(l), pt
}

func c12Shadowing(i int64) ([]*gt.T, *ref.Point) {
	place := int(i % 3)
	i /= 3
	pair := c12ShadowPairs[int(i)%len(c12ShadowPairs)]
	block := c12ShadowBlocks[int(i)/len(c12ShadowPairs)]
	text := "add_pattern(\"al\", \"" + pair[0] + "\")\n" + block[0] + "  add_pattern(\"al\", \"" + pair[1] + "\")\n  inner = 1\n" + block[1]
	if place != 1 {
		text += "ok2 = grok(_, \"%{al:w2}\")\np(ok2, w2)\n"
	}
	if place != 0 {
		text += "if true {\n  ok3 = grok(_, \"%{al:w3}\")\n  p(ok3, w3)\n}\n"
	}
	text += "p(get_key(w2), get_key(w3))\n"
	o := drive.Parse("shadowing", text)
	if o.Err != nil {
		panic("c12: shadowing program does not parse: " + text + ": " + o.Err.Error())
	}
	l, err := gt.FromStmts(o.Stmts)
	if err != nil {
		panic(err)
	}
	pt := ref.NewPoint("m", nil, map[string]any{"message": "abc 12 zz"}, time.Unix(1600000000, 0))
	return gt.CloneStmts(l), pt
}

// subjects (exhaustive): every extraction builtin x where its subject lives
// (a field, a tag, a variable that shadows a field holding something else, a
// variable alone, nowhere) x how the subject is spelled (`message`, its alias
// `_`, another key): the engine is applied to the variable if one exists,
// otherwise to the point's value - under either spelling.
var c12SubjOps = [][3]string{
	// {operation on subject S, value A, value B}: A and B are both extractable and give different results
	{"ok = grok(S, \"%{WORD:w} %{INT:n:int}\")\np(ok, get_key(w), get_key(n))\n", "alpha 12", "beta 77"},
	{"xml(S, \"/a/b/text()\", xv)\np(get_key(xv))\n", "<a><b>first</b></a>", "<a><b>second</b></a>"},
	{"sql_cover(S)\np(get_key(S))\n", "select * from t where id = 5 and n = 'x'", "update u set a = 1"},
	{"default_time(S)\np(get_key(S))\n", "2021-03-04 05:06:07", "2019-12-31T23:59:58Z"},
	{"default_time(S, \"+8\")\np(get_key(S))\n", "2021-03-04 05:06:07", "2020-02-29 12:00:00"},
	{"ok = grok(S, \"%{NUMBER:f:float}\", true)\np(ok, get_key(f))\n", " 2.5 ", "99"},
}
var c12SubjSetups = []string{"field", "tag", "var-over-field", "var-over-tag", "var-alone", "absent", "nonstring-var-over-field", "var-in-block"}
var c12SubjSpell = [][2]string{{"message", "message"}, {"_", "message"}, {"message", "_"}, {"_", "_"}, {"k", "k"}}

func c12Subjects(i int64) ([]*gt.T, *ref.Point) {
	sp := c12SubjSpell[int(i)%len(c12SubjSpell)]
	i /= int64(len(c12SubjSpell))
	setup := c12SubjSetups[int(i)%len(c12SubjSetups)]
	op := c12SubjOps[int(i)/len(c12SubjSetups)]
	// sp[0] spells the subject in the call, sp[1] names the variable in the setup
	key := "message"
	if sp[0] == "k" {
		key = "k"
	}
	pt := ref.NewPoint("m", map[string]string{"bt": "by"}, map[string]any{"b1": int64(4)}, time.Unix(1600000000, 0))
	text := ""
	q := func(v string) string { return "\"" + strings.ReplaceAll(v, "\"", "\\\"") + "\"" }
	switch setup {
	case "field":
		pt.Fields[key] = op[1]
	case "tag":
		pt.Tags[key] = op[1]
	case "var-over-field":
		pt.Fields[key] = op[1]
		text = sp[1] + " = " + q(op[2]) + "\n"
	case "var-over-tag":
		pt.Tags[key] = op[1]
		text = sp[1] + " = " + q(op[2]) + "\n"
	case "var-alone":
		text = sp[1] + " = " + q(op[2]) + "\n"
	case "absent":
	case "nonstring-var-over-field":
		pt.Fields[key] = op[1]
		text = sp[1] + " = 12\n"
	case "var-in-block":
		pt.Fields[key] = op[1]
		text = "if true {\n  " + sp[1] + " = " + q(op[2]) + "\n}\n"
	}
	text += strings.ReplaceAll(op[0], "S", sp[0])
	text += "p(get_key(message), get_key(k))\n"
	o := drive.Parse("subjects", text)
	if o.Err != nil {
		panic("c12: subjects program does not parse: " + text + ": " + o.Err.Error())
	}
	l, err := gt.FromStmts(o.Stmts)
	if err != nil {
		panic(err)
	}
	return gt.CloneStmts(l), pt
}

func (c12) build(c *mon.Ctx, workload string, i int64) ([]*gt.T, *ref.Point) {
	if workload == "subjects" {
		return c12Subjects(i)
	}
	if workload == "between" {
		return c12BetweenCase(i)
	}
	if workload == "shadowing" {
		return c12Shadowing(i)
	}
	if workload == "redeclare" {
		return c12Redeclare(i)
	}
	if workload == "after-guard" {
		pair := c12ShadowPairs[int(i)%len(c12ShadowPairs)]
		form := c12GuardForms[int(i)/len(c12ShadowPairs)]
		text := "add_pattern(\"al\", \"" + pair[0] + "\")\n" + strings.ReplaceAll(form, "@B@", pair[1]) + "p(get_key(w2))\n"
		o := drive.Parse("after-guard", text)
		if o.Err != nil {
			panic("c12: after-guard program does not parse: " + text + ": " + o.Err.Error())
		}
		l, err := gt.FromStmts(o.Stmts)
		if err != nil {
			panic(err)
		}
		return gt.CloneStmts(l), ref.NewPoint("m", nil, map[string]any{"message": "abc 12 zz"}, time.Unix(1600000000, 0))
	}
	if workload == "typed-captures" {
		return c12TypedCaptures(i)
	}
	r := c.R
	pt := ref.NewPoint("m", map[string]string{"tg": "abc 12"}, map[string]any{"message": c12Lines[r.Intn(len(c12Lines))], "num": int64(12), "b": "by"}, time.Unix(1600000000, 0))
	subject := func() (*gt.T, []*gt.T) {
		switch r.Intn(7) {
		case 0:
			return gt.Ident("tg"), nil
		case 1:
			return gt.Ident("num"), nil
		case 2:
			return gt.Ident("v"), []*gt.T{gt.Assign("=", gt.Ident("v"), gt.Str(c12Lines[r.Intn(len(c12Lines))]))}
		case 3:
			return gt.Ident("absent"), nil
		case 4:
			return gt.Ident("_"), nil
		}
		return gt.Ident("message"), nil
	}
	switch workload {
	case "scopes":
		visible := []map[string]bool{{}}
		isVisible := func(n string) bool {
			for _, m := range visible[:len(visible)-1] {
				if m[n] {
					return true
				}
			}
			return false
		}
		anyVisible := func(n string) bool {
			for _, m := range visible {
				if m[n] {
					return true
				}
			}
			return false
		}
		// tainted[level][name]: the name was re-defined in this nested block
		// although an enclosing block defines it. fn.md says the redefinition
		// fails, the code lets it win inside the block: references from inside
		// that block are therefore not generated. After the block both
		// readings agree (the outer definition), so later references ARE
		// generated and compared.
		tainted := []map[string]bool{{}}
		isTainted := func(n string) bool {
			for _, m := range tainted {
				if m[n] {
					return true
				}
			}
			return false
		}
		refsTainted := func(pat string) bool {
			for _, n := range []string{"p1", "p2", "p3", "p4", "p5", "WORD"} {
				if strings.Contains(pat, "%{"+n) && isTainted(n) {
					return true
				}
			}
			// definitions built from a tainted name taint transitively: keep it simple
			return false
		}
		// refsOK: every custom name the pattern text references is visible
		refsOK := func(pat string) bool {
			if refsTainted(pat) {
				return false
			}
			for _, n := range []string{"p1", "p2", "p3", "p4", "p5", "nosuch"} {
				if strings.Contains(pat, "%{"+n) && !anyVisible(n) {
					return false
				}
			}
			return true
		}
		pickOK := func(pool []string) string {
			for tries := 0; ; tries++ {
				p := pool[r.Intn(len(pool))]
				if refsTainted(p) {
					continue
				}
				if refsOK(p) || (tries > 6 && r.Intn(8) == 0) || r.Intn(14) == 0 {
					return p
				}
			}
		}
		var gen1 func(depth int) []*gt.T
		gen1 = func(depth int) []*gt.T {
			var out []*gt.T
			for n := 1 + r.Intn(4); n > 0; n-- {
				switch k := r.Intn(9); {
				case k < 3:
					d := c12Defs[r.Intn(len(c12Defs))]
					if refsTainted(d[1]) {
						continue
					}
					if isVisible(d[0]) {
						// shadowing an enclosing block's definition: allowed, but
						// nothing inside this block may reference the name afterwards
						if len(visible) < 2 || r.Intn(4) == 0 {
							continue
						}
						tainted[len(tainted)-1][d[0]] = true
						// names defined from it in enclosing blocks keep their
						// (already denormalised) meaning, but to stay clear of the
						// disputed case they are not referenced here either
						for _, dd := range c12Defs {
							if strings.Contains(dd[1], "%{"+d[0]) {
								tainted[len(tainted)-1][dd[0]] = true
							}
						}
					}
					if !refsOK(d[1]) && r.Intn(10) != 0 && !isTainted(d[0]) {
						continue
					}
					visible[len(visible)-1][d[0]] = true
					out = append(out, gt.Call("add_pattern", gt.Str(d[0]), gt.Str(d[1])))
				case k < 6:
					s, pre := subject()
					out = append(out, pre...)
					call := gt.Call("grok", s, gt.Str(pickOK(c12Groks)))
					if r.Intn(3) == 0 {
						call.Kids = append(call.Kids, gt.Bool(r.Intn(2) == 0))
					}
					if r.Intn(2) == 0 {
						out = append(out, gt.Assign("=", gt.Ident("ok"), call), gt.Call("p", gt.Ident("ok")))
					} else {
						out = append(out, call)
					}
				case depth > 0 && k == 6:
					visible = append(visible, map[string]bool{})
					tainted = append(tainted, map[string]bool{})
					a := gen1(depth - 1)
					visible = visible[:len(visible)-1]
					tainted = tainted[:len(tainted)-1]
					visible = append(visible, map[string]bool{})
					tainted = append(tainted, map[string]bool{})
					b := gen1(depth - 1)
					visible = visible[:len(visible)-1]
					tainted = tainted[:len(tainted)-1]
					cond := gt.Bool(r.Intn(2) == 0)
					st := gt.If(cond, a...)
					if r.Intn(2) == 0 {
						st.Elif(gt.Bool(true), b...)
					} else {
						st.ElseDo(b...)
					}
					out = append(out, st)
				case depth > 0 && k == 7:
					visible = append(visible, map[string]bool{}, map[string]bool{})
					tainted = append(tainted, map[string]bool{})
					body := gen1(depth - 1)
					visible = visible[:len(visible)-2]
					tainted = tainted[:len(tainted)-1]
					out = append(out, gt.For(gt.Assign("=", gt.Ident("i"), gt.Int(0)), gt.Bin("<", gt.Ident("i"), gt.Int(int64(r.Intn(3)))),
						gt.Assign("=", gt.Ident("i"), gt.Bin("+", gt.Ident("i"), gt.Int(1))), body...))
				case depth > 0:
					visible = append(visible, map[string]bool{})
					tainted = append(tainted, map[string]bool{})
					body := gen1(depth - 1)
					visible = visible[:len(visible)-1]
					tainted = tainted[:len(tainted)-1]
					out = append(out, gt.ForIn("e", gt.List(gt.Int(1), gt.Int(2)), body...))
				}
			}
			return out
		}
		stmts := gen1(2)
		stmts = append(stmts, gt.Call("p", gt.Ident("w1"), gt.Ident("n1"), gt.Ident("x1"), gt.Ident("b1"), gt.Ident("message")))
		return stmts, pt
	case "time":
		withVar := i%2 == 1
		i /= 2
		zone := gen.Zones[i%int64(len(gen.Zones))]
		text := c12Times[i/int64(len(gen.Zones))]
		var stmts []*gt.T
		key := "ts"
		if withVar {
			stmts = append(stmts, gt.Assign("=", gt.Ident("ts"), gt.Str(text)))
			pt.Fields["ts"] = "shadowed"
		} else {
			pt.Fields["ts"] = text
		}
		call := gt.Call("default_time", gt.Ident(key))
		if zone != "" {
			call.Kids = append(call.Kids, gt.Str(zone))
		}
		stmts = append(stmts, call, gt.Call("p", gt.Ident("ts"), gt.Call("get_key", gt.Ident("ts"))))
		return stmts, pt
	case "datetime":
		vals := []any{int64(0), int64(1700000000), int64(1700000000123), int64(-1), 1.7e9, "1700000000", int64(253402300799)}
		pt.Fields["ts"] = vals[r.Intn(len(vals))]
		prec := []string{"s", "ms"}[r.Intn(2)]
		lay := gen.TimeFmts[r.Intn(len(gen.TimeFmts))]
		if r.Intn(3) == 0 {
			ks := []string{"ANSIC", "UnixDate", "RubyDate", "RFC822Z", "RFC850", "RFC1123", "RFC1123Z", "RFC3339Nano", "Stamp", "StampMilli", "StampMicro"}
			lay = ks[r.Intn(len(ks))]
		}
		subj := []string{"ts", "ts", "absent", "b"}[r.Intn(4)]
		return []*gt.T{gt.Call("datetime", gt.Ident(subj), gt.Str(prec), gt.Str(lay)), gt.Call("p", gt.Ident("ts"))}, pt
	case "xml":
		src := int(i % 3)
		i /= 3
		xp := gen.XPaths[i%int64(len(gen.XPaths))]
		doc := c12Docs[i/int64(len(gen.XPaths))]
		var stmts []*gt.T
		switch src {
		case 0:
			pt.Fields["doc"] = doc
		case 1:
			stmts = append(stmts, gt.Assign("=", gt.Ident("doc"), gt.Str(doc)))
		case 2:
			pt.Tags["doc"] = doc
		}
		dst := []*gt.T{gt.Ident("out"), gt.Str("out"), gt.Ident("b")}[int(i)%3]
		stmts = append(stmts, gt.Call("xml", gt.Ident("doc"), gt.Str(xp), dst), gt.Call("p", gt.Ident("out"), gt.Ident("b")))
		return stmts, pt
	}
	// sql
	qs := []string{"select * from t where id = 1 and name = 'bob'", "INSERT INTO x VALUES (1, 'a', 2.5)", "update t set a=1 -- comment", "not sql at all", "select '", "",
		"SELECT a FROM b WHERE c IN (1,2,3)", "select héllo from wörld where x = \"y\"",
		"select * from t where dir = 'C:\\logs\\'", "select \"CORP\\svc_app\" from u", "select `a\\b` from t where x = 'it\\'s'", "select 'a\\\\' , 'b\\'"}
	pt.Fields["q"] = qs[r.Intn(len(qs))]
	pt.Fields["q2"] = qs[r.Intn(len(qs))]
	subj := []string{"q", "q", "num", "absent"}[r.Intn(4)]
	return []*gt.T{gt.Call("sql_cover", gt.Ident(subj)), gt.Call("sql_cover", gt.Ident("q2")), gt.Call("p", gt.Ident("q"), gt.Ident("q2"))}, pt
}

func (k c12) Describe(c *mon.Ctx, workload string, i int64) any {
	st, pt := k.build(c, workload, i)
	return map[string]any{"source": gt.Print(gt.ParenthesizeStmts(st), nil), "point": pt.Show()}
}

func (k c12) Run(c *mon.Ctx, workload string, i int64) {
	stmts, pt := k.build(c, workload, i)
	runExtractCase(c, stmts, pt, workload)
}

func runExtractCase(c *mon.Ctx, stmtsIn []*gt.T, pt *ref.Point, cell string) {
	stmts := gt.ParenthesizeStmts(stmtsIn)
	compiled, fail := ref.LoadCheck(stmts)
	if fail != "" {
		// the model says: load error. Verify through the shared runner by
		// giving it a model outcome flagged LoadErr.
		runBuiltinCaseLoadErr(c, stmts, pt, fail)
		return
	}
	funcs := ref.Merge(ref.ProbeFuncs(), ref.FieldFuncs(), ref.ExtractFuncs(compiled))
	runBuiltinCaseNorm(c, stmts, pt, cell, funcs, "c12.p")
}

var _ = strings.Contains
var _ = fmt.Sprint

// between (exhaustive): the same extraction twice on the same key of the same
// point, with the key's content replaced in between in every way a script can
// replace it (rename away and rename another key onto it, drop and re-create,
// overwrite, move to a tag, shadow by a variable ...). The second extraction
// sees what the key holds THEN (or nothing, if the key is gone).
var c12Between = []string{
	"rename(tmp, S)\nrename(S, o)", "drop_key(S)\nrename(S, o)", "add_key(S, B)", "rename(S, o)", "drop_key(S)\nadd_key(S, B)", "set_tag(S, B)", "drop_key(S)", "rename(tmp, S)",
	"S = B", "rename(tmp, S)\nadd_key(S, B)", "rename(tmp, S)\nrename(S, o)\nrename(o, tmp)", "rename(tmp, S)\nrename(S, tmp)", "set_tag(S)\nrename(tmp, S)\nrename(S, o)",
	"rename(tmp, S)\nrename(t2, o)\nrename(S, t2)", "if true {\n  rename(tmp, S)\n}\nfor e in [1] {\n  rename(S, o)\n}",
}

func c12BetweenCase(i int64) ([]*gt.T, *ref.Point) {
	variant := int(i % 4) // key message / k, subject initially a field / a tag
	i /= 4
	bw := c12Between[int(i)%len(c12Between)]
	op := c12SubjOps[int(i)/len(c12Between)]
	key := []string{"message", "k"}[variant%2]
	pt := ref.NewPoint("m", map[string]string{"bt": "by"}, map[string]any{"b1": int64(4), "o": op[2]}, time.Unix(1600000000, 0))
	if variant/2 == 0 {
		pt.Fields[key] = op[1]
	} else {
		pt.Tags[key] = op[1]
	}
	q := "\"" + strings.ReplaceAll(op[2], "\"", "\\\"") + "\""
	run := strings.ReplaceAll(op[0], "S", key)
	text := run + strings.ReplaceAll(strings.ReplaceAll(bw, "S", key), "B", q) + "\n" + run + "p(get_key(message), get_key(k), get_key(o), get_key(tmp), get_key(t2))\n"
	o := drive.Parse("between", text)
	if o.Err != nil {
		panic("c12: between program does not parse: " + text + ": " + o.Err.Error())
	}
	l, err := gt.FromStmts(o.Stmts)
	if err != nil {
		panic(err)
	}
	return gt.CloneStmts(l), pt
}
