package ref

import (
	"verif/internal/gt"
)

// Probe builtins (the real counterparts live in internal/drive).

// ProbeFuncs returns the model of the probe builtins.
func ProbeFuncs() map[string]Builtin {
	return map[string]Builtin{
		"p":    probeP,
		"t":    probeT,
		"boom": func(in *Interp, c *gt.T) (Val, *RunErr) { return Void, in.errAt(c, "boom") },
		"void": func(in *Interp, c *gt.T) (Val, *RunErr) { return Void, nil },
		// tick(): 1, 2, 3, ... - the number of tick() calls of this run so far
		// (a condition that changes between iterations without naming a variable)
		"tick": func(in *Interp, c *gt.T) (Val, *RunErr) {
			in.Shared.Ticks++
			return Val{in.Shared.Ticks, TInt}, nil
		},
		// sink(a, b=0), vsink(...rest): evaluate their arguments, return nothing (v2 probes)
		"sink":  probeSink,
		"vsink": probeSink,
		"multi": func(in *Interp, c *gt.T) (Val, *RunErr) {
			if !in.Prog.V2 {
				unspec("multi() on v1")
			}
			return Val{nil, TMulti}, nil
		},
		"use":  modelUse,
		"exit": func(in *Interp, c *gt.T) (Val, *RunErr) { in.exit = true; return Void, nil },
		"len":  modelLen,
	}
}

func init() {
	MultiResults["multi"] = func(in *Interp, c *gt.T) ([]Val, *RunErr) {
		return []Val{{int64(101), TInt}, {"m2", TStr}}, nil
	}
}

func (in *Interp) args(c *gt.T) ([]Val, *RunErr) {
	out := make([]Val, 0, len(c.Kids))
	for _, a := range c.Kids {
		if a.K == gt.KAssign {
			unspec("named argument to a probe")
		}
		v, err := in.eval(a)
		if err != nil {
			return nil, err
		}
		if err := in.need(v, a); err != nil {
			return nil, err
		}
		cp, big := CopyN(v.V)
		if big {
			panic(TooBig{})
		}
		out = append(out, Val{cp, v.T})
	}
	return out, nil
}

func probeSink(in *Interp, c *gt.T) (Val, *RunErr) {
	if !in.Prog.V2 {
		unspec("sink() on v1")
	}
	if _, err := in.args(c); err != nil {
		return Void, err
	}
	return Void, nil
}

func probeP(in *Interp, c *gt.T) (Val, *RunErr) {
	vs, err := in.args(c)
	if err != nil {
		return Void, err
	}
	in.Shared.Events = append(in.Shared.Events, Event{Kind: "p", Script: in.Name, Vals: vs})
	return Void, nil
}

func probeT(in *Interp, c *gt.T) (Val, *RunErr) {
	if len(c.Kids) != 2 {
		unspec("t() needs two arguments")
	}
	id, err := in.eval(c.Kids[0])
	if err != nil {
		return Void, err
	}
	v, err := in.eval(c.Kids[1])
	if err != nil {
		return Void, err
	}
	if err := in.need(v, c.Kids[1]); err != nil {
		return Void, err
	}
	cp, big := CopyN(v.V)
	if big {
		panic(TooBig{})
	}
	in.Shared.Events = append(in.Shared.Events, Event{Kind: "t", Script: in.Name, ID: id.V, Vals: []Val{{cp, v.T}}})
	return v, nil
}

func modelLen(in *Interp, c *gt.T) (Val, *RunErr) {
	if len(c.Kids) != 1 {
		unspec("len() arity")
	}
	v, err := in.eval(c.Kids[0])
	if err != nil {
		return Void, err
	}
	switch x := v.V.(type) {
	case string:
		return Val{int64(len(x)), TInt}, nil
	case []any:
		return Val{int64(len(x)), TInt}, nil
	case map[string]any:
		return Val{int64(len(x)), TInt}, nil
	}
	return Val{int64(0), TInt}, nil
}

// modelUse runs the named script with a fresh variable environment on the
// same point; an error in the callee aborts the caller with the call site
// appended.
func modelUse(in *Interp, c *gt.T) (Val, *RunErr) {
	if len(c.Kids) != 1 || c.Kids[0].K != gt.KStr {
		unspec("use() argument shape")
	}
	name := c.Kids[0].S
	body, ok := in.Prog.Scripts[name]
	if !ok {
		unspec("use() of a script that is not loaded")
	}
	callee := &Interp{Prog: in.Prog, Name: name, Point: in.Point, Shared: in.Shared}
	callee.push()
	if err := callee.block(body); err != nil {
		err.Sites = append(err.Sites, Site{Script: in.Name, Call: c})
		return Void, err
	}
	return Void, nil
}
