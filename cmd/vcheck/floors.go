package main

import (
	"fmt"

	"verif/internal/mon"
)

// Floors: a run that silently stopped reaching the code must not pass. Each
// check states minimum observation counts; a run below a floor is
// INCONCLUSIVE (exit 2), never "held".

type floor struct {
	Counter string  // counter name, or "set:<name>" for the size of a coverage set
	MinAbs  int64   // absolute minimum
	MinFrac float64 // or: fraction of the result's case count
}

var floors = map[string][]floor{
	"C01": {{"accepted", 100, 0.4}, {"set:builtins_called", 25, 0}, {"runs_ending_in_reported_error", 50, 0}},
	"C02": {{"compared", 1000, 0.6}, {"set:cells", 20000, 0}},
	"C03": {{"compared", 1000, 0.8}, {"set:for_shapes", 8, 0}},
	"C04": {{"compared", 1000, 0.8}},
	"C05": {{"rejected", 1000, 0}, {"accepted", 500, 0}, {"set:error_messages", 30, 0}},
	"C06": {{"layouts_with_break_inside_expression", 1000, 0}, {"set:node_kinds", 23, 0}},
	"C07": {{"set:string_cells", 10, 0}},
	"C08": {{"bases_accepted", 100, 0}, {"set:position_kinds", 35, 0}, {"set:offender_kinds", 40, 0}},
	"C09": {{"chains_validated", 1000, 0}, {"orders_explored", 1000, 0}, {"set:real_driver_orders", 10, 0}},
	"C10": {{"set:states", 1000, 0}},
	"C11": {{"compared", 1000, 0.5}, {"set:cells", 2000, 0}},
	"C12": {{"compared", 1000, 0.5}},
	"C13": {{"compared", 500, 0.8}, {"runs_that_entered_a_callee", 200, 0}, {"error_chains_checked", 100, 0}},
	"C14": {{"runs_interrupted", 10000, 0}, {"non_terminating_programs", 50, 0}, {"terminating_programs", 100, 0}},
	"C15": {{"operations_on_recycled_parser", 500, 0}, {"operations_on_recycled_point", 200, 0}},
	"C16": {{"set:in_flight_pairs", 8, 0}},
	"C17": {{"positions_compared", 100000, 0}, {"error_positions_checked", 500, 0}, {"set:position_cells", 60, 0}},
	"C18": {{"compared", 1000, 0.8}, {"set:stale_cells", 300, 0}, {"differential_v1_runs", 80, 0}},
	"C19": {{"set:call_cells", 20, 0}},
	"C20": {{"outputs_compared", 40, 0}, {"runs_expected_to_report_an_error", 5, 0}, {"load_only_runs", 3, 0}},
}

// finish is called by every check's Finish method.
func finish(id string, r *mon.Result) []string {
	var out []string
	for _, f := range floors[id] {
		var have int64
		if len(f.Counter) > 4 && f.Counter[:4] == "set:" {
			have = int64(r.SetSize(f.Counter[4:]))
		} else {
			have = r.Counters[f.Counter]
		}
		min := f.MinAbs
		if fr := int64(f.MinFrac * float64(r.Cases)); fr > min {
			min = fr
		}
		if have < min {
			out = append(out, fmt.Sprintf("coverage floor: %s = %d, need at least %d", f.Counter, have, min))
		}
	}
	return out
}

func (c01) Finish(tier string, r *mon.Result, extra map[string]any) []string { return finish("C01", r) }

func (c02) Finish(tier string, r *mon.Result, extra map[string]any) []string { return finish("C02", r) }

func (c03) Finish(tier string, r *mon.Result, extra map[string]any) []string { return finish("C03", r) }

func (c04) Finish(tier string, r *mon.Result, extra map[string]any) []string { return finish("C04", r) }

func (c05) Finish(tier string, r *mon.Result, extra map[string]any) []string { return finish("C05", r) }

func (c06) Finish(tier string, r *mon.Result, extra map[string]any) []string { return finish("C06", r) }

func (c07) Finish(tier string, r *mon.Result, extra map[string]any) []string { return finish("C07", r) }

func (c08) Finish(tier string, r *mon.Result, extra map[string]any) []string { return finish("C08", r) }

func (c09) Finish(tier string, r *mon.Result, extra map[string]any) []string { return finish("C09", r) }

func (c10) Finish(tier string, r *mon.Result, extra map[string]any) []string { return finish("C10", r) }

func (c11) Finish(tier string, r *mon.Result, extra map[string]any) []string { return finish("C11", r) }

func (c12) Finish(tier string, r *mon.Result, extra map[string]any) []string { return finish("C12", r) }

func (c13) Finish(tier string, r *mon.Result, extra map[string]any) []string { return finish("C13", r) }

func (c14) Finish(tier string, r *mon.Result, extra map[string]any) []string { return finish("C14", r) }

func (c15) Finish(tier string, r *mon.Result, extra map[string]any) []string { return finish("C15", r) }

func (c16) Finish(tier string, r *mon.Result, extra map[string]any) []string { return finish("C16", r) }

func (c17) Finish(tier string, r *mon.Result, extra map[string]any) []string { return finish("C17", r) }

func (c18) Finish(tier string, r *mon.Result, extra map[string]any) []string { return finish("C18", r) }

func (c19) Finish(tier string, r *mon.Result, extra map[string]any) []string { return finish("C19", r) }

func (c20) Finish(tier string, r *mon.Result, extra map[string]any) []string { return finish("C20", r) }
