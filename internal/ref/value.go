// Package ref is the executable reference semantics of the language, written
// from docs/src/references/01-syntax-spec.md, funcs/md/fn.md and the property
// statements. It interprets the generator's own tree type (gt.T), never the
// parser's output.
//
// Values use the host representation nil, bool, int64, float64, string,
// []any (list) and map[string]any (map). Lists never grow in this language,
// so a Go slice header aliasing its backing array is exactly "shared by
// reference"; slicing always allocates.
package ref

import (
	"fmt"
	"math"
	"math/big"
	"sort"
	"strconv"
	"strings"
)

// Type tags (same names as the language's dynamic types).
type Type uint8

const (
	TInvalid Type = iota
	TVoid
	TNil
	TBool
	TInt
	TFloat
	TStr
	TList
	TMap
	TMulti // several values at once (v2 multi-value call)
)

var typeNames = [...]string{"invalid", "void", "nil", "bool", "int", "float", "str", "list", "map", "multi"}

func (t Type) String() string { return typeNames[t] }

// Val is a value with its dynamic type.
type Val struct {
	V any
	T Type
}

var Void = Val{nil, TVoid}
var NilV = Val{nil, TNil}

// TypeOf classifies a host value; unknown host types are TInvalid.
func TypeOf(v any) Type {
	switch v.(type) {
	case nil:
		return TNil
	case bool:
		return TBool
	case int64:
		return TInt
	case float64:
		return TFloat
	case string:
		return TStr
	case []any:
		return TList
	case map[string]any:
		return TMap
	}
	return TInvalid
}

func Of(v any) Val { return Val{v, TypeOf(v)} }

// Truthy is the documented truthiness table.
func Truthy(v Val) bool {
	switch x := v.V.(type) {
	case bool:
		return x
	case int64:
		return x != 0
	case float64:
		return x != 0
	case string:
		return x != ""
	case []any:
		return len(x) != 0
	case map[string]any:
		return len(x) != 0
	}
	return false
}

// DeepEqual compares two host values exactly: same Go types, NaN equals NaN
// when nanEq is set, lists element-wise, maps key-wise. Depth is bounded.
// DeepEqual compares two values. nanEq selects identity (NaN equals NaN,
// -0.0 differs from 0.0: what a monitor compares observations with) as
// opposed to the language's numeric equality.
func DeepEqual(a, b any, nanEq bool) bool { return deepEq(a, b, nanEq, 0) }

func deepEq(a, b any, nanEq bool, d int) bool {
	if d > 200 {
		return true
	}
	switch x := a.(type) {
	case nil:
		return b == nil
	case bool:
		y, ok := b.(bool)
		return ok && x == y
	case int64:
		y, ok := b.(int64)
		return ok && x == y
	case float64:
		y, ok := b.(float64)
		if !ok {
			return false
		}
		if nanEq && math.IsNaN(x) && math.IsNaN(y) {
			return true
		}
		if nanEq {
			// identity (monitor comparisons): -0.0 and 0.0 are different
			// values, they print and divide differently. The language's own
			// == and `in` (nanEq false) are numeric: -0.0 == 0.0.
			return x == y && math.Signbit(x) == math.Signbit(y)
		}
		return x == y
	case string:
		y, ok := b.(string)
		return ok && x == y
	case []any:
		y, ok := b.([]any)
		if !ok || len(x) != len(y) {
			return false
		}
		for i := range x {
			if !deepEq(x[i], y[i], nanEq, d+1) {
				return false
			}
		}
		return true
	case map[string]any:
		y, ok := b.(map[string]any)
		if !ok || len(x) != len(y) {
			return false
		}
		for k, v := range x {
			w, ok := y[k]
			if !ok || !deepEq(v, w, nanEq, d+1) {
				return false
			}
		}
		return true
	}
	// foreign host types (int, uint64, ...) are never equal to model values
	return false
}

// Copy deep-copies a value with a depth bound (cycles are cut with a marker).
func Copy(v any) any {
	n := 0
	return copyD(v, 0, &n)
}

// CopyN is Copy that also reports whether the node budget was exhausted
// (the copy is then truncated with "<big>" markers).
func CopyN(v any) (any, bool) {
	n := 0
	c := copyD(v, 0, &n)
	return c, n > copyBudget
}

const copyBudget = 50000

func copyD(v any, d int, n *int) any {
	*n++
	if d > 40 {
		return "<deep>"
	}
	if *n > copyBudget {
		return "<big>"
	}
	switch x := v.(type) {
	case []any:
		o := make([]any, len(x))
		for i := range x {
			o[i] = copyD(x[i], d+1, n)
		}
		return o
	case map[string]any:
		o := make(map[string]any, len(x))
		for k, e := range x {
			o[k] = copyD(e, d+1, n)
		}
		return o
	}
	return v
}

// Show renders a host value with its Go type made visible.
func Show(v any) string { return show(v, 0) }

func show(v any, d int) string {
	if d > 6 {
		return "…"
	}
	switch x := v.(type) {
	case nil:
		return "nil"
	case bool:
		return strconv.FormatBool(x)
	case int64:
		return strconv.FormatInt(x, 10)
	case float64:
		return strconv.FormatFloat(x, 'g', -1, 64) + "f"
	case string:
		if len(x) > 80 {
			return strconv.Quote(x[:80]) + "…"
		}
		return strconv.Quote(x)
	case []any:
		p := make([]string, len(x))
		for i := range x {
			p[i] = show(x[i], d+1)
		}
		return "[" + strings.Join(p, ", ") + "]"
	case map[string]any:
		ks := make([]string, 0, len(x))
		for k := range x {
			ks = append(ks, k)
		}
		sort.Strings(ks)
		p := make([]string, len(ks))
		for i, k := range ks {
			p[i] = strconv.Quote(k) + ": " + show(x[k], d+1)
		}
		return "{" + strings.Join(p, ", ") + "}"
	}
	return fmt.Sprintf("<%T %v>", v, v)
}

// SliceIndices is Python's slice semantics (PySlice_AdjustIndices followed by
// the index walk), computed with big integers so that no bound or step can
// overflow. start/end nil = omitted. step must be non-zero. It returns the
// selected indices in order.
func SliceIndices(length int, start, end *int64, step int64) []int {
	if step == 0 {
		panic("ref: zero step")
	}
	n := big.NewInt(int64(length))
	st := big.NewInt(step)
	zero := big.NewInt(0)
	one := big.NewInt(1)
	neg := st.Sign() < 0
	adj := func(p *int64, isStart bool) *big.Int {
		if p == nil {
			if isStart {
				if neg {
					return new(big.Int).Sub(n, one)
				}
				return big.NewInt(0)
			}
			if neg {
				return big.NewInt(-1)
			}
			return new(big.Int).Set(n)
		}
		v := big.NewInt(*p)
		if v.Sign() < 0 {
			v.Add(v, n)
			if v.Sign() < 0 {
				if neg {
					return big.NewInt(-1)
				}
				return big.NewInt(0)
			}
		} else if v.Cmp(n) >= 0 {
			if neg {
				return new(big.Int).Sub(n, one)
			}
			return new(big.Int).Set(n)
		}
		return v
	}
	s := adj(start, true)
	e := adj(end, false)
	var out []int
	i := new(big.Int).Set(s)
	for {
		if neg {
			if i.Cmp(e) <= 0 {
				break
			}
		} else if i.Cmp(e) >= 0 {
			break
		}
		if i.Cmp(zero) < 0 || i.Cmp(n) >= 0 {
			break // cannot happen after adjustment; defensive
		}
		out = append(out, int(i.Int64()))
		i.Add(i, st)
	}
	return out
}
