package main

import (
	"fmt"
	"math/rand"
	"strings"

	"github.com/GuanceCloud/platypus/pkg/parser"

	"verif/internal/drive"
	"verif/internal/gen"
	"verif/internal/gt"
	"verif/internal/mon"
)

// C06: expressions group by the documented precedence; layout never matters.
// Oracle: the tree returned by the real parser, converted to the generator's
// tree type, must equal the generated tree (with paren nodes exactly where
// the precedence table requires them or where the generator put redundant
// ones), for the canonical layout and for every seeded layout.

type c06 struct{}

func init() {
	register(c06{})
	mon.Assumptions["C06"] = []string{
		"precedence table as documented (levels 1-7) plus, from gram.y, `in` between && and the comparisons and unary operators above * / %",
		"a sign directly in front of a numeric literal is folded into the literal (documented normalisation)",
		"layout break points are those named by the property (after operators, commas, opening brackets, between statements); the extended points gram.y admits are exercised in separate workloads",
	}
}

func (c06) ID() string { return "C06" }
func (c06) Rule() string {
	return "pairs: every ordered pair of binary operators in both groupings and every unary operator over/under every binary operator (exhaustive); trees: seeded random statement lists over every expression and statement form, printed with only the required parentheses (plus generator-inserted redundant ones), canonical layout plus k seeded layouts each. Non-trivial = the tree mixes two operators of different precedence, or a layout placed a line break or comment inside an expression. Distinct = distinct source texts."
}

func (c06) Plan(tier string, seed int64) []mon.Workload {
	nb := int64(len(gen.BinOps))
	pairs := nb*nb*2 + int64(len(gen.UnaryOps))*nb*3
	trees, ext := int64(4000), int64(1500)
	if tier == "thorough" {
		trees, ext = 200000, 60000
	}
	return []mon.Workload{
		{Name: "pairs", N: pairs, Exhaustive: true},
		{Name: "trees", N: trees},
		{Name: "extended-layout", N: ext},
		{Name: "after-rejected", N: ext},
		{Name: "deep-groups", N: int64(len(c06DeepKinds) * len(c06DeepLevels)), Exhaustive: true},
		{Name: "expr-places", N: int64(c06NPlaces) * (int64(len(gen.BinOps)) + int64(len(gen.UnaryOps))), Exhaustive: true},
	}
}

func c06Pair(i int64) *gt.T {
	nb := int64(len(gen.BinOps))
	a, b, c := gt.Ident("a"), gt.Ident("b"), gt.Ident("c")
	if i < nb*nb*2 {
		left := i%2 == 0
		i /= 2
		o1, o2 := gen.BinOps[i/nb], gen.BinOps[i%nb]
		if left {
			return gt.Bin(o1, gt.Bin(o2, a, b), c)
		}
		return gt.Bin(o1, a, gt.Bin(o2, b, c))
	}
	i -= nb * nb * 2
	shape := i % 3
	i /= 3
	u, o := gen.UnaryOps[i/nb], gen.BinOps[i%nb]
	switch shape {
	case 0:
		return gt.Unary(u, gt.Bin(o, a, b))
	case 1:
		return gt.Bin(o, gt.Unary(u, a), b)
	}
	return gt.Bin(o, a, gt.Unary(u, b))
}

// expr-places (exhaustive): `a OP b` for every binary operator (`in`
// included) and `OP a` for every unary one, in every place of every statement
// form that takes an expression - the three clauses of a classic for (alone
// and together), if and elif conditions, the iterable of a for-in, both kinds
// of assignment, positional and named call arguments, list and map elements,
// index keys, a parenthesised statement.
const c06NPlaces = 16

func c06ExprPlace(i int64) []*gt.T {
	place := int(i % c06NPlaces)
	i /= c06NPlaces
	e := func() *gt.T {
		if int(i) < len(gen.BinOps) {
			return gt.Bin(gen.BinOps[i], gt.Ident("x"), gt.Ident("y"))
		}
		return gt.Unary(gen.UnaryOps[int(i)-len(gen.BinOps)], gt.Ident("x"))
	}
	body := gt.Call("p", gt.Int(1))
	switch place {
	case 0:
		return []*gt.T{gt.For(e(), nil, nil, body)}
	case 1:
		return []*gt.T{gt.For(nil, e(), nil, body)}
	case 2:
		return []*gt.T{gt.For(nil, nil, e(), body)}
	case 3:
		return []*gt.T{gt.For(e(), e(), e())}
	case 4:
		return []*gt.T{gt.If(e(), body)}
	case 5:
		t := gt.If(gt.Ident("c"), body)
		t.Conds = append(t.Conds, e())
		t.Blocks = append(t.Blocks, []*gt.T{gt.Call("p", gt.Int(2))})
		return []*gt.T{t}
	case 6:
		return []*gt.T{gt.ForIn("v", e(), body)}
	case 7:
		return []*gt.T{gt.Assign("=", gt.Ident("z"), e())}
	case 8:
		return []*gt.T{gt.Assign("+=", gt.Ident("z"), e())}
	case 9:
		return []*gt.T{gt.Call("f", e(), gt.Ident("w"))}
	case 10:
		return []*gt.T{gt.Call("f", gt.Named("k", e()))}
	case 11:
		return []*gt.T{gt.Assign("=", gt.Ident("z"), gt.List(e(), gt.Int(1)))}
	case 12:
		return []*gt.T{gt.Assign("=", gt.Ident("z"), gt.Map(gt.Str("k"), e()))}
	case 13:
		return []*gt.T{gt.Assign("=", gt.Ident("z"), gt.Index("m", e()))}
	case 14:
		return []*gt.T{gt.Assign("=", gt.Index("m", e()), gt.Int(1))}
	}
	return []*gt.T{gt.Paren(e()), gt.For(gt.Assign("=", gt.Ident("q"), e()), nil, gt.Assign("=", gt.Ident("q"), e()))}
}

func mixedPrec(l []*gt.T) bool {
	seen := map[int]bool{}
	gt.WalkStmts(l, func(t *gt.T) {
		switch t.K {
		case gt.KArith, gt.KCond, gt.KIn, gt.KUnary:
			seen[gt.Prec(t)] = true
		}
	})
	return len(seen) >= 2
}

func hasBreakInsideExpr(src string, l []*gt.T) bool {
	found := false
	gt.WalkStmts(l, func(t *gt.T) {
		if found || t.IsStmtOnly() && t.K != gt.KAssign {
			return
		}
		if t.Span[1] > t.Span[0] && t.Span[1] <= len(src) {
			for _, ch := range src[t.Span[0]:t.Span[1]] {
				if ch == '\n' || ch == '#' {
					found = true
					return
				}
			}
		}
	})
	return found
}

func (k c06) build(c *mon.Ctx, workload string, i int64) (stmts []*gt.T, layouts []*gt.Layout) {
	switch workload {
	case "deep-groups":
		return gt.ParenthesizeStmts(c06Deep(i)), []*gt.Layout{nil, {R: c.Sub("lay"), Breaks: true, Extended: true}, {R: c.Sub("lay2"), Compact: true}}
	case "expr-places":
		stmts = c06ExprPlace(i)
		layouts = []*gt.Layout{nil, {R: c.Sub("lay"), Breaks: true}, {R: c.Sub("lay2"), Compact: true}}
	case "pairs":
		stmts = []*gt.T{c06Pair(i)}
		layouts = []*gt.Layout{nil, {R: c.Sub("lay"), Breaks: true}, {R: c.Sub("lay2"), Compact: true}}
	default:
		s := gen.NewSyntax(c.R)
		s.HexSpell = true
		ed, d := 3, 2
		if c.Tier == "thorough" {
			ed, d = 3+c.R.Intn(3), 2+c.R.Intn(2)
		}
		stmts = s.Program(4, d, ed)
		nl := 3
		if c.Tier == "thorough" {
			nl = 6
		}
		layouts = []*gt.Layout{nil}
		for j := 0; j < nl; j++ {
			layouts = append(layouts, &gt.Layout{R: c.Sub(fmt.Sprint("lay", j)), Breaks: true,
				Extended: workload == "extended-layout", Multibyte: j%2 == 1, Compact: j >= 1})
		}
	}
	return gt.ParenthesizeStmts(stmts), layouts
}

func (k c06) Describe(c *mon.Ctx, workload string, i int64) any {
	stmts, _ := k.build(c, workload, i)
	return map[string]any{"source": gt.Print(stmts, nil), "tree": gt.DumpStmts(stmts)}
}

// deep-groups (exhaustive): groups nested 8..120 deep - lists, maps, parens,
// calls, index expressions, slices, blocks, and mixtures that start with
// each kind - still parse to exactly the tree written.
var c06DeepKinds = []string{"list", "map", "paren", "call", "index", "mixed-list-first", "mixed-paren-first", "mixed-map-first", "blocks", "blocks+lists"}
var c06DeepLevels = []int{8, 16, 31, 32, 33, 34, 48, 63, 64, 65, 66, 100, 120}

func c06Deep(i int64) []*gt.T {
	kind := c06DeepKinds[int(i)%len(c06DeepKinds)]
	depth := c06DeepLevels[int(i)/len(c06DeepKinds)]
	var e *gt.T = gt.Ident("a")
	wrap := func(k string, e *gt.T) *gt.T {
		switch k {
		case "list":
			return gt.List(gt.Int(1), e)
		case "map":
			return gt.Map(gt.Str("k"), e)
		case "paren":
			return gt.Paren(gt.Bin("+", e, gt.Int(1)))
		case "call":
			return gt.Call("f", e, gt.Int(2))
		default:
			return gt.Index("x", e)
		}
	}
	if strings.HasPrefix(kind, "blocks") {
		body := []*gt.T{gt.Assign("=", gt.Ident("y"), gt.Int(1))}
		for d := 0; d < depth; d++ {
			var cond *gt.T = gt.Ident("c")
			if kind == "blocks+lists" && d%2 == 0 {
				cond = gt.Bin("in", gt.Ident("c"), gt.List(gt.List(gt.Int(int64(d)))))
			}
			if d%3 == 2 {
				body = []*gt.T{gt.ForIn("e", gt.Ident("l"), body...)}
			} else {
				body = []*gt.T{gt.If(cond, body...)}
			}
		}
		return body
	}
	for d := 0; d < depth; d++ {
		k := kind
		if strings.HasPrefix(kind, "mixed") {
			order := []string{"list", "paren", "map", "call", "index"}
			switch kind {
			case "mixed-paren-first":
				order = []string{"paren", "index", "list", "map", "call"}
			case "mixed-map-first":
				order = []string{"map", "call", "paren", "list", "index"}
			}
			// the OUTERMOST group is order[0]: d counts from the inside
			k = order[(depth-1-d)%len(order)]
		}
		e = wrap(k, e)
	}
	return []*gt.T{gt.Assign("=", gt.Ident("r"), e)}
}

// after-rejected: the same round trip, but every parse is preceded by the
// parse of a REJECTED text (brackets, strings, blocks left open; stray
// characters; a lexer error inside nesting) on the same goroutine, so that
// the recycled parser object meets the valid text next. The tree of a text
// does not depend on what was parsed before it.
var c06Rejected = []string{"f(", "x = [1, 2", "g(a, \"unterminated", "h(a $ b)", "{", "a[", "x = \"\"\"abc", "x = `raw", "x = (1 +", "if a {", "m = {\"k\": [1, (2", "f(a, [b, {\"c\": (",
	"for x in [1, 2 {", "x = a[1:(2", "))", "x = 1 +\n", "a = 'q\n", "f(1, 2))", "x = [1, 2]]", "# only a comment (", "x = 0x", "a.b.(c"}

func (k c06) Run(c *mon.Ctx, workload string, i int64) {
	drive.Init()
	stmts, layouts := k.build(c, workload, i)
	want := gt.DumpStmts(stmts)
	mixed := mixedPrec(stmts)
	for li, lay := range layouts {
		if workload == "after-rejected" {
			rej := c06Rejected[c.R.Intn(len(c06Rejected))]
			func() {
				defer func() { recover() }()
				if _, err := parser.ParsePipeline("rejected.p", rej); err != nil {
					c.Count("preceding_rejected_parses", 1)
				}
			}()
		}
		src := gt.Print(stmts, lay)
		var got []*gt.T
		var perr, cerr error
		var pan any
		func() {
			defer func() { pan = recover() }()
			res, err := parser.ParsePipeline("c06.p", src)
			perr = err
			if err == nil {
				got, cerr = gt.FromStmts(res)
			}
		}()
		c.Eval(1)
		brk := li > 0 && hasBreakInsideExpr(src, stmts)
		if mixed || brk {
			c.Nontrivial(src)
		}
		if brk {
			c.Count("layouts_with_break_inside_expression", 1)
		}
		c.Count("layouts", 1)
		cs := map[string]any{"source": src, "tree": want, "layout": li}
		switch {
		case pan != nil:
			c.Violate("parser-panic", fmt.Sprintf("ParsePipeline panicked on generated text: %v\n%s", pan, src), cs)
		case perr != nil:
			cl := "valid-text-rejected"
			if li > 0 {
				cl = "layout-rejected"
				if workload == "extended-layout" {
					cl = "extended-layout-rejected"
				}
			}
			c.Violate(cl, fmt.Sprintf("text printed from a valid tree was rejected: %v\n--- source\n%s\n--- tree\n%s", perr, src, want), cs)
		case cerr != nil:
			c.Violate("incomplete-tree", fmt.Sprintf("parser returned an incomplete tree: %v\n%s", cerr, src), cs)
		default:
			if d := gt.DiffStmts(stmts, got); d != "" {
				cl := "wrong-tree"
				if li > 0 {
					cl = "layout-changed-tree"
					if workload == "extended-layout" {
						cl = "extended-layout-changed-tree"
					}
				}
				c.Violate(cl, fmt.Sprintf("%s\n--- source\n%s\n--- expected\n%s\n--- parsed\n%s", d, src, want, gt.DumpStmts(got)), cs)
			}
		}
		if li == 1 && c.WantSample() && mixed && len(src) < 300 {
			c.Sample(map[string]any{"source": src, "tree": want})
		}
	}
	gt.WalkStmts(stmts, func(t *gt.T) { c.Cell("node_kinds", t.K.String()) })
}

var _ = rand.Int
