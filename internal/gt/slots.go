package gt

import "fmt"

// Slot is one expression position of a program: a place where any
// expression may syntactically stand.
type Slot struct {
	Kind string
	Get  func() *T
	Set  func(*T)
	// InLoop: the slot lies inside a loop body (or header).
	InLoop bool
}

// StmtPos is a position in a statement list where a statement can be
// inserted (before index At of *List).
type StmtPos struct {
	List   *[]*T
	At     int
	InLoop bool
	// AfterLoop: the previous statement of the same list is a loop.
	AfterLoop bool
	// InIfAfterLoop: the list is a branch of an if that follows a loop.
	InIfAfterLoop bool
	Depth         int
}

// ExprSlots enumerates every expression slot of the program.
func ExprSlots(stmts []*T) []Slot {
	var out []Slot
	var expr func(kind string, get func() *T, set func(*T), inLoop bool)
	var stmt func(t *T, inLoop bool)
	list := func(kind string, l []*T, inLoop bool) {
		for i := range l {
			i := i
			if l[i].K == KAssign && kind == "call-arg" {
				// named argument: its value is the slot
				a := l[i]
				expr("named-arg-value", func() *T { return a.RHS[0] }, func(n *T) { a.RHS[0] = n }, inLoop)
				continue
			}
			expr(kind, func() *T { return l[i] }, func(n *T) { l[i] = n }, inLoop)
		}
	}
	expr = func(kind string, get func() *T, set func(*T), inLoop bool) {
		t := get()
		if t == nil {
			return
		}
		out = append(out, Slot{Kind: kind, Get: get, Set: set, InLoop: inLoop})
		switch t.K {
		case KList:
			list("list-elem", t.Kids, inLoop)
		case KMap:
			for i := 0; i+1 < len(t.Kids); i += 2 {
				i := i
				expr("map-key", func() *T { return t.Kids[i] }, func(n *T) { t.Kids[i] = n }, inLoop)
				expr("map-value", func() *T { return t.Kids[i+1] }, func(n *T) { t.Kids[i+1] = n }, inLoop)
			}
		case KParen:
			list("paren", t.Kids, inLoop)
		case KUnary:
			list("unary-operand", t.Kids, inLoop)
		case KArith, KCond:
			expr("binary-left", func() *T { return t.Kids[0] }, func(n *T) { t.Kids[0] = n }, inLoop)
			expr("binary-right", func() *T { return t.Kids[1] }, func(n *T) { t.Kids[1] = n }, inLoop)
		case KIn:
			expr("in-left", func() *T { return t.Kids[0] }, func(n *T) { t.Kids[0] = n }, inLoop)
			expr("in-right", func() *T { return t.Kids[1] }, func(n *T) { t.Kids[1] = n }, inLoop)
		case KIndex:
			list("index-key", t.Kids, inLoop)
		case KAttr:
			// parts are identifiers, index expressions or attribute
			// expressions; only index keys are slots
			var parts func(a *T)
			parts = func(a *T) {
				for _, k := range a.Kids {
					switch k.K {
					case KIndex:
						list("index-key", k.Kids, inLoop)
					case KAttr:
						parts(k)
					}
				}
			}
			parts(t)
		case KSlice:
			form := ""
			if t.Start != nil {
				form += "s"
			}
			if t.End != nil {
				form += "e"
			}
			if t.Colon2 {
				form += ":"
			}
			if t.Step != nil {
				form += "p"
			}
			expr("slice-object", func() *T { return t.Kids[0] }, func(n *T) { t.Kids[0] = n }, inLoop)
			expr("slice-start["+form+"]", func() *T { return t.Start }, func(n *T) { t.Start = n }, inLoop)
			expr("slice-end["+form+"]", func() *T { return t.End }, func(n *T) { t.End = n }, inLoop)
			expr("slice-step["+form+"]", func() *T { return t.Step }, func(n *T) { t.Step = n }, inLoop)
		case KCall:
			list("call-arg", t.Kids, inLoop)
		}
	}
	var block func(l []*T, inLoop bool)
	block = func(l []*T, inLoop bool) {
		for i := range l {
			i := i
			s := l[i]
			switch s.K {
			case KIf, KFor, KForIn, KBreak, KContinue, KAssign:
				stmt(s, inLoop)
			default:
				expr("value-stmt", func() *T { return l[i] }, func(n *T) { l[i] = n }, inLoop)
			}
		}
	}
	stmt = func(t *T, inLoop bool) {
		switch t.K {
		case KAssign:
			for i := range t.LHS {
				i := i
				if t.LHS[i].K == KIndex {
					list("assign-target-index-key", t.LHS[i].Kids, inLoop)
				} else if t.LHS[i].K != KIdent {
					expr("assign-target", func() *T { return t.LHS[i] }, func(n *T) { t.LHS[i] = n }, inLoop)
				}
			}
			kind := "assign-source"
			if t.Op != "=" {
				kind = "compound-assign-source"
			} else if len(t.LHS) > 1 {
				kind = "multi-assign-source"
			}
			list(kind, t.RHS, inLoop)
		case KIf:
			for i := range t.Conds {
				i := i
				kind := "if-cond"
				if i > 0 {
					kind = "elif-cond"
				}
				expr(kind, func() *T { return t.Conds[i] }, func(n *T) { t.Conds[i] = n }, inLoop)
				block(t.Blocks[i], inLoop)
			}
			block(t.Else, inLoop)
		case KFor:
			for _, x := range []struct {
				k string
				p **T
			}{{"for-init", &t.Init}, {"for-cond", &t.Cond}, {"for-loop", &t.Loop}} {
				p := x.p
				if *p == nil {
					continue
				}
				if (*p).K == KAssign {
					stmt(*p, true)
					continue
				}
				expr(x.k, func() *T { return *p }, func(n *T) { *p = n }, x.k != "for-init" || inLoop)
			}
			block(t.Body, true)
		case KForIn:
			expr("forin-iterable", func() *T { return t.Kids[1] }, func(n *T) { t.Kids[1] = n }, inLoop)
			block(t.Body, true)
		}
	}
	block(stmts, false)
	return out
}

// StmtPositions enumerates every place a statement can be inserted.
func StmtPositions(stmts *[]*T) []StmtPos {
	var out []StmtPos
	var walk func(l *[]*T, inLoop, inIfAfterLoop bool, depth int)
	walk = func(l *[]*T, inLoop, inIfAfterLoop bool, depth int) {
		for i := 0; i <= len(*l); i++ {
			after := i > 0 && ((*l)[i-1].K == KFor || (*l)[i-1].K == KForIn)
			out = append(out, StmtPos{List: l, At: i, InLoop: inLoop, AfterLoop: after, InIfAfterLoop: inIfAfterLoop, Depth: depth})
		}
		for i, s := range *l {
			afterLoop := i > 0 && ((*l)[i-1].K == KFor || (*l)[i-1].K == KForIn)
			switch s.K {
			case KIf:
				for b := range s.Blocks {
					walk(&s.Blocks[b], inLoop, afterLoop || inIfAfterLoop, depth+1)
				}
				if s.HasElse {
					walk(&s.Else, inLoop, afterLoop || inIfAfterLoop, depth+1)
				}
			case KFor, KForIn:
				walk(&s.Body, true, false, depth+1)
			}
		}
	}
	walk(stmts, false, false, 0)
	return out
}

// InsertStmt inserts s at the position and returns an undo function.
func (p StmtPos) Insert(s *T) (undo func()) {
	old := *p.List
	n := make([]*T, 0, len(old)+1)
	n = append(n, old[:p.At]...)
	n = append(n, s)
	n = append(n, old[p.At:]...)
	*p.List = n
	return func() { *p.List = old }
}

func (p StmtPos) String() string {
	return fmt.Sprintf("depth%d/inLoop=%v/afterLoop=%v/inIfAfterLoop=%v", p.Depth, p.InLoop, p.AfterLoop, p.InIfAfterLoop)
}
