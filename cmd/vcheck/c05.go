package main

import (
	"fmt"
	"math/rand"
	"regexp"
	"strings"
	"sync"

	"github.com/GuanceCloud/platypus/pkg/parser"

	"verif/internal/drive"
	"verif/internal/gen"
	"verif/internal/gt"
	"verif/internal/mon"
)

// C05: parsing any text ends with a syntax tree or a positioned diagnostic.

type c05 struct{}

func init() {
	register(c05{})
	mon.Assumptions["C05"] = []string{
		"termination is decided in logical steps (lexer hook: token requests <= 4n+64, state transitions <= 16n+256 for n input bytes); a hang inside a single lexer state function or in a grammar action has no logical clock and is caught only by the batch watchdog followed by a solitary re-run",
		"the lexer stream is checked up to its first ERROR item",
	}
}

func (c05) ID() string             { return "C05" }
func (c05) DeathIsViolation() bool { return true }
func (c05) HangIsViolation() bool  { return true }
func (c05) Rule() string {
	return "inputs: valid generated programs with one token deleted / duplicated / swapped / replaced, random sequences of valid tokens, truncations at every byte offset, strings and escapes over a hostile alphabet, malformed numbers in every expression context, nesting up to depth 5000, random bytes and invalid UTF-8 spliced into programs. Each input goes through ParsePipeline (tree xor positioned error, no internal panic, complete tree) and through the exported lexer (ordered, gap-free token stream). Distinct = distinct input texts; non-trivial = the lexer produced at least 3 items."
}

func (c05) Plan(tier string, seed int64) []mon.Workload {
	m := int64(1)
	if tier == "thorough" {
		m = 60
	}
	ws := []mon.Workload{
		{Name: "mutate", N: 900 * m},
		{Name: "tokens", N: 4000 * m},
		{Name: "truncate", N: 60 * m},
		{Name: "strings", N: 4000 * m},
		{Name: "numbers", N: int64(len(c05Numbers) * len(c05NumCtx)), Exhaustive: true},
		{Name: "numbers-nested", N: int64(len(c05NestNums) * len(c05NestInner) * (len(c05NumCtx) + len(c05NestOuter))), Exhaustive: true},
		{Name: "nesting", N: 40},
		{Name: "bytes", N: 3000 * m},
		{Name: "number-soup", N: 4000 * m},
		{Name: "concurrent-spellings", N: 12 * m, Procs: 8, MaxWorkers: 2},
		{Name: "many-diagnostics", N: int64(len(c05DiagStmts) * 40), Exhaustive: true},
		{Name: "case-mapping", N: int64(len(c05FoldChars) * len(c05FoldPlaces) * len(c05FoldTails)), Exhaustive: true},
	}
	for i := range ws {
		// a parse takes microseconds to milliseconds; one that is still open
		// after 45 s of wall clock (twice, see mon.Run) did not terminate
		ws[i].CaseTimeoutS = 45
	}
	return ws
}

var c05Numbers = []string{"0x", "0X", "1e", "1e+", "1e-", "1E", "0x1.8", "08", "09.5", "1__0", "1_0", "0x1g", "1.2.3", "1..2", ".5", "5.", "0xe+1",
	"1e5", "0x10", "00", "1e999", "0x8000000000000000", "9223372036854775808", "99999999999999999999999", "1.e3", ".e3", "0b101", "0o17", "1e+", "0x.", "0x.p1", "1ee2", "1e2e3", "inf", "nan", "INF", "Nan", "infinity", "1f", "1.5x", "0xg", "1/0", "1%0", "2/0.0", "1/-0", "0x/0"}

var c05DiagStmts = []string{"x = 1 / 0", "x = 7 % 0", "x = \"\\X41\"", "x = a[1.5:]", "x = a[:\"s\"]", "for q in 1 {}", "x = 'a\\qb'", "x = -(1 / 0)", "f(k = 3 % 0)", "x = [1 / 0, 2 / 0]"}

var c05NumCtx = []string{"x = %s", "x = %s中", "f(%s😀)", "x = %sé + 1", "-%s", "- %s", "+%s", "!%s", "for a in %s {}", "a[%s:]", "a[:%s]", "a[::%s]", "a[%s]", "%s + 1", "1 + %s", "f(%s)", "f(k=%s)",
	"[%s]", "{\"k\": %s}", "{%s: 1}", "if %s {}", "x / %s", "x %% %s", "x /= %s", "(%s)", "%s[0:1]", "%s in x", "for ; %s; {}", "for %s;; {}", "x, y = %s, 1", "-%s[1:2]", "%s.a", "a.%s"}

// numbers-nested (exhaustive): an operand the parser rejects by itself
// (malformed number, constant zero divisor), as an operand of every kind of
// expression, and that expression in every statement context - including the
// places where only an identifier or an iterable is admitted, so that a
// second diagnostic about the enclosing construct meets the first.
var c05NestNums = []string{"0x", "1e", "1e+", "0x1.8", "1/0", "1%0", "1e999", "99999999999999999999999", "0x1g", "1.2.3", "a[1.5:]", "'\\q'"}
var c05NestInner = []string{"%s == a", "%s != a", "%s < a", "%s >= a", "%s && a", "%s || a", "%s in a", "a == %s", "a in %s", "a && %s", "!%s", "(%s)", "[%s]", "%s + 1", "1 - %s", "-%s", "%s[0]", "f(%s)", "{\"k\": %s}", "%s == %s"}
var c05NestOuter = []string{"for %s in x {}", "for a in x { y = %s }", "if a {} elif %s {} else {}", "for k = %s; k < 1; k = k + 1 {}", "for ;; k = %s {}", "x = a[1:2] + %s", "for %s in %s {}", "x = 1\nfor %s in x {\n  y = 2\n}\nz = 3",
	"if %s {\n  y = 1/0\n}", "x = [1, %s,\n  2]"}

var c05Tokens = []string{",", "*", "*=", "/", "/=", "%", "%=", "+", "+=", "-", "-=", "=", "==", ":", ";", "\n", ".", "||", "&&", "!", "!=", "<", "<=", ">", ">=",
	"(", ")", "{", "}", "[", "]", "if", "elif", "else", "for", "in", "break", "continue", "true", "false", "nil", "null", "while", "return", "str", "int", "map",
	"identifier", "a", "b", "f", "_", "`q x`", "1", "0", "2.5", "inf", "\"s\"", "'t'", "\"\"\"m\"\"\"", "# c\n", "IF", "NIL"}

var c05Alphabet = []string{"a", "\"", "'", "`", "\\", "n", "x", "u", "U", "0", "4", "8", "\n", "\x00", "é", "世", "\xff", "\xc3", " ", "#", "\"\"\"", "'''", "\\x4", "\\u00e", "\\400", "\\ud800", "\\U00110000"}

// case-mapping (exhaustive): characters whose upper / lower-case mapping has
// another UTF-8 length (Kelvin, Ohm and Angstrom signs, capital sharp s,
// dotted capital I, ...) in a comment, a string, an identifier or a
// back-quoted identifier, followed by keywords in mixed case and identifiers
// that run up to the very end of the text (no trailing newline).
var c05FoldChars = []string{"\u212a", "\u2126", "\u212b", "\u1e9e", "\u2c62", "\u0130", "\u023a", "\u023e", "\u212a\u212a\u212a", "\u0130\u0130\u212a", "\u1e9ex\u2126"}
var c05FoldPlaces = []string{"# C\n", "x = \"C\"\n", "C = 1\n", "x = `C`\n", "x = 'C' # C\nC1 = x\n", "aCb = 2\n"}
var c05FoldTails = []string{"y", "y = x", "if x {\n}\ntrue", "for a in x {\n}\nNIL", "zz", "IF TRUE {\n} ELSE {\n}", "y = nUlL", "y = x\n", "if x {}\nelif", "C", "y = C", "FOR a IN x {\n  BREAK\n}"}

func (k c05) inputs(c *mon.Ctx, workload string, i int64) []string {
	r := c.R
	switch workload {
	case "case-mapping":
		tail := c05FoldTails[int(i)%len(c05FoldTails)]
		i /= int64(len(c05FoldTails))
		place := c05FoldPlaces[int(i)%len(c05FoldPlaces)]
		ch := c05FoldChars[int(i)/len(c05FoldPlaces)]
		return []string{strings.ReplaceAll(place+tail, "C", ch)}
	case "mutate":
		s := gen.NewSyntax(r)
		stmts := gt.ParenthesizeStmts(s.Program(3, 2, 2))
		var lay *gt.Layout
		if r.Intn(2) == 0 {
			lay = &gt.Layout{R: c.Sub("lay"), Breaks: true, Extended: true, Multibyte: true}
		}
		src := gt.Print(stmts, lay)
		items, _ := drive.LexAll(src, len(src)+2)
		if len(items) < 3 {
			return []string{src}
		}
		// rebuild from token texts and the gaps between them
		type tk struct{ gap, text string }
		var toks []tk
		prev := 0
		for _, it := range items {
			if it.EOF || it.Err || it.Pos < prev || it.Pos+len(it.Val) > len(src) {
				break
			}
			toks = append(toks, tk{src[prev:it.Pos], it.Val})
			prev = it.Pos + len(it.Val)
		}
		join := func(t []tk) string {
			var sb strings.Builder
			for _, x := range t {
				sb.WriteString(x.gap)
				sb.WriteString(x.text)
			}
			return sb.String()
		}
		out := []string{}
		for m := 0; m < 14 && len(toks) > 1; m++ {
			t := append([]tk(nil), toks...)
			j := r.Intn(len(t))
			switch r.Intn(5) {
			case 0:
				t = append(t[:j], t[j+1:]...)
			case 1:
				t = append(t[:j+1], t[j:]...)
			case 2:
				if j+1 < len(t) {
					t[j].text, t[j+1].text = t[j+1].text, t[j].text
				}
			case 3:
				t[j].text = c05Tokens[r.Intn(len(c05Tokens))]
			case 4:
				t[j].text = c05Numbers[r.Intn(len(c05Numbers))]
			}
			out = append(out, join(t))
		}
		return out
	case "tokens":
		n := 2 + r.Intn(30)
		var sb strings.Builder
		for j := 0; j < n; j++ {
			sb.WriteString(c05Tokens[r.Intn(len(c05Tokens))])
			if r.Intn(4) != 0 {
				sb.WriteByte(' ')
			}
		}
		return []string{sb.String()}
	case "truncate":
		s := gen.NewSyntax(r)
		stmts := gt.ParenthesizeStmts(s.Program(3, 2, 2))
		src := gt.Print(stmts, &gt.Layout{R: c.Sub("lay"), Breaks: true, Multibyte: true})
		if len(src) > 260 {
			src = src[:260]
		}
		out := make([]string, 0, len(src)+1)
		for j := 0; j <= len(src); j++ {
			out = append(out, src[:j])
		}
		return out
	case "strings":
		n := 1 + r.Intn(9)
		var sb strings.Builder
		for j := 0; j < n; j++ {
			sb.WriteString(c05Alphabet[r.Intn(len(c05Alphabet))])
		}
		body := sb.String()
		q := []string{"\"", "'", "`", "\"\"\"", "'''"}[r.Intn(5)]
		closeq := q
		switch r.Intn(6) {
		case 0:
			closeq = ""
		case 1:
			closeq = []string{"\"", "'", "`", "\"\"\"", "'''"}[r.Intn(5)]
		}
		ctx := []string{"x = %s", "%s", "f(%s, 1)", "if %s {}", "%s[1:2]", "x = [%s, %s]", "%s = 1", "a.%s"}[r.Intn(8)]
		return []string{strings.ReplaceAll(ctx, "%s", q+body+closeq)}
	case "many-diagnostics":
		// 1..40 statements each of which is syntactically fine but recorded as
		// an error by a grammar action (and then one real syntax error, or not)
		st := c05DiagStmts[int(i)%len(c05DiagStmts)]
		n := int(i)/len(c05DiagStmts) + 1
		text := strings.Repeat(st+"\n", n)
		return []string{text, text + "a b\n", "ok = 1\n" + text + "x = \"unterminated\n", strings.Repeat(st+"; ", n)}
	case "number-soup":
		// number-like fragments glued to multi-byte characters, invalid bytes
		// and each other: the number scanner looks ahead and backs up
		soup := []string{"0", "1", "9", ".", "e", "E", "+", "-", "x", "X", "_", "a", "f", "中", "é", "😀", "\xff", "\xc3", " ", "i", "n"}
		var sb strings.Builder
		for j := 1 + r.Intn(8); j > 0; j-- {
			sb.WriteString(soup[r.Intn(len(soup))])
		}
		ctx := []string{"x = %s", "%s", "f(%s)", "a[%s:]", "x = 1 + %s", "x = [%s, %s]", "if %s {}", "x = -%s", "%s = 1", "x = %s\ny = 2"}[r.Intn(10)]
		return []string{strings.ReplaceAll(ctx, "%s", sb.String())}
	case "numbers-nested":
		outer := append(append([]string{}, c05NumCtx...), c05NestOuter...)
		o := outer[int(i)%len(outer)]
		i /= int64(len(outer))
		in := c05NestInner[int(i)%len(c05NestInner)]
		n := c05NestNums[int(i)/len(c05NestInner)]
		return []string{strings.ReplaceAll(strings.ReplaceAll(o, "%s", strings.ReplaceAll(in, "%s", n)), "%%", "%")}
	case "numbers":
		n := c05Numbers[int(i)/len(c05NumCtx)]
		ctx := c05NumCtx[int(i)%len(c05NumCtx)]
		return []string{fmt.Sprintf(ctx, n)}
	case "nesting":
		depth := []int{1, 10, 100, 1000, 5000}[i%5]
		switch i / 5 {
		case 0:
			return []string{strings.Repeat("(", depth) + "1" + strings.Repeat(")", depth)}
		case 1:
			return []string{"x = " + strings.Repeat("[", depth) + strings.Repeat("]", depth)}
		case 2:
			return []string{strings.Repeat("{\"a\":", depth) + "1" + strings.Repeat("}", depth)}
		case 3:
			return []string{"x = " + strings.Repeat("-!", depth) + "y"}
		case 4:
			return []string{strings.Repeat("if a {\n", depth) + strings.Repeat("}\n", depth)}
		case 5:
			return []string{strings.Repeat("(", depth)}
		case 6:
			return []string{"a" + strings.Repeat("[0]", depth)}
		default:
			return []string{"x = 1" + strings.Repeat(" + 1", depth)}
		}
	case "bytes":
		if r.Intn(3) == 0 {
			b := make([]byte, 1+r.Intn(24))
			r.Read(b)
			return []string{string(b)}
		}
		s := gen.NewSyntax(r)
		src := gt.Print(gt.ParenthesizeStmts(s.Program(2, 1, 2)), nil)
		out := []string{}
		for m := 0; m < 6; m++ {
			b := []byte(src)
			for e := 1 + r.Intn(3); e > 0 && len(b) > 0; e-- {
				j := r.Intn(len(b))
				switch r.Intn(4) {
				case 0:
					b[j] = byte(r.Intn(256))
				case 1:
					b = append(b[:j], b[j+1:]...)
				case 2:
					ins := []byte{0xff, 0xc3, 0x00, 0xe4, 0xb8, '\\', '"', '\'', '`', '#', '\r'}[r.Intn(11)]
					b = append(b[:j], append([]byte{ins}, b[j:]...)...)
				case 3:
					b[j] ^= 0x80
				}
			}
			out = append(out, string(b))
		}
		return out
	}
	return nil
}

func (k c05) Describe(c *mon.Ctx, workload string, i int64) any {
	if workload == "concurrent-spellings" {
		return map[string]any{"round": i}
	}
	return map[string]any{"inputs": k.inputs(c, workload, i)}
}

var reQuoted = regexp.MustCompile(`"(?:[^"\\]|\\.)*"|'[^']*'|` + "`[^`]*`" + `|[0-9]+`)

func msgClass(s string) string {
	s = reQuoted.ReplaceAllString(s, "_")
	if len(s) > 60 {
		s = s[:60]
	}
	return s
}

// concurrent-spellings: "never crashes internally" also when several
// goroutines parse at once (a loaded system parses scripts on many
// goroutines). Each goroutine parses valid texts whose keywords are spelled
// in fresh random letter case, so that any per-spelling work the lexer does
// lazily happens while other goroutines are lexing. Oracle: every parse
// returns a tree; a dead worker is the violation (the Go runtime kills the
// process on an unsynchronised map access). The race detector itself is
// C16's instrument, not used here.
func (k c05) concurrent(c *mon.Ctx, i int64) {
	words := []string{"if", "elif", "else", "for", "in", "break", "continue", "true", "false", "nil", "null"}
	tmpl := "IF TRUE {\n  x = NIL\n} ELIF FALSE {\n  y = NULL\n} ELSE {\n  z = 1\n}\nFOR a IN [1, 2] {\n  IF a == 1 {\n    CONTINUE\n  }\n  BREAK\n}\nw = TRUE && !FALSE\n"
	const G = 8
	var wg sync.WaitGroup
	var mu sync.Mutex
	var bad []string
	parses := 0
	for g := 0; g < G; g++ {
		wg.Add(1)
		r := c.Sub(fmt.Sprint("g", g))
		go func() {
			defer wg.Done()
			n := 0
			for it := 0; it < 250; it++ {
				text := tmpl
				for _, w := range words {
					up := strings.ToUpper(w)
					for strings.Contains(text, up) {
						b := []byte(w)
						for j := range b {
							if r.Intn(2) == 0 {
								b[j] -= 32
							}
						}
						text = strings.Replace(text, up, "\x00"+string(b)+"\x00", 1)
					}
				}
				text = strings.ReplaceAll(text, "\x00", "")
				st, err := parser.ParsePipeline("conc.p", text)
				n++
				if err != nil || st == nil {
					mu.Lock()
					if len(bad) < 3 {
						bad = append(bad, fmt.Sprintf("%v\n%s", err, text))
					}
					mu.Unlock()
				}
			}
			mu.Lock()
			parses += n
			mu.Unlock()
		}()
	}
	wg.Wait()
	c.Eval(parses)
	c.Count("concurrent_parses", parses)
	c.Nontrivial(fmt.Sprint("concurrent", i))
	if len(bad) > 0 {
		c.Violate("valid-text-rejected-under-concurrency", "a valid text was rejected while other goroutines were parsing: "+bad[0], map[string]any{"examples": bad})
	}
}

func (k c05) Run(c *mon.Ctx, workload string, i int64) {
	if workload == "concurrent-spellings" {
		k.concurrent(c, i)
		return
	}
	for _, text := range k.inputs(c, workload, i) {
		c05CheckText(c, "c05.p", text)
	}
}

func short(s string) string {
	if len(s) > 600 {
		return s[:300] + "…" + s[len(s)-200:]
	}
	return s
}

func c05CheckText(c *mon.Ctx, name, text string) {
	cs := map[string]any{"text": short(text), "quoted": fmt.Sprintf("%q", short(text))}
	drive.BoundParse = true
	o := drive.Parse(name, text)
	c.Eval(1)
	if n := int64(len(text)) + 1; o.NonTerm == "" {
		// observed work per input byte, in thousandths (the bounds are 4 and 16 per byte)
		c.MaxOf("max_token_requests_per_kilobyte", o.LexCalls*1000/n)
		c.MaxOf("max_lexer_transitions_per_kilobyte", o.LexStates*1000/n)
	}
	switch {
	case o.NonTerm != "":
		c.Violate("does-not-terminate", fmt.Sprintf("parsing was aborted by the monitor: %s\ninput %q", o.NonTerm, short(text)), cs)
		return
	case o.Panic != nil:
		c.Violate("parse-panic-escaped", fmt.Sprintf("ParsePipeline panicked: %v\ninput %q", o.Panic, short(text)), cs)
	case o.Stderr != "":
		c.Violate("parser-internal-panic", fmt.Sprintf("the parser crashed internally and recovered (err=%v)\ninput %q\n%s", o.Err, short(text), firstN(o.Stderr, 25)), cs)
	case o.Err == nil && o.Stmts == nil:
		c.Violate("neither-tree-nor-error", fmt.Sprintf("ParsePipeline returned neither a tree nor an error\ninput %q", short(text)), cs)
	case o.Err != nil && o.Stmts != nil:
		c.Violate("both-tree-and-error", fmt.Sprintf("ParsePipeline returned a tree and an error %v\ninput %q", o.Err, short(text)), cs)
	case o.Err != nil:
		if d := drive.CheckParseError(o.Err, name, text); d != "" {
			c.Violate("bad-parse-error", fmt.Sprintf("%s\nerror: %v\ninput %q", d, o.Err, short(text)), cs)
		}
		c.Cell("error_messages", msgClass(o.Err.Error()))
		c.Count("rejected", 1)
		// the same text offered again under ANOTHER script name: the
		// diagnostic names the script being parsed
		if len(text) < 400 {
			other := "second copy/" + name + "l"
			o2 := drive.Parse(other, text)
			c.Eval(1)
			if o2.Err == nil || o2.Stmts != nil {
				c.Violate("reparse-differs", fmt.Sprintf("the text was rejected as %s and %s as %s\ninput %q", name, map[bool]string{true: "accepted", false: "rejected with a tree"}[o2.Err == nil], other, short(text)), cs)
			} else if d := drive.CheckParseError(o2.Err, other, text); d != "" {
				c.Violate("bad-parse-error", fmt.Sprintf("second parse under the name %q: %s\nerror: %v\ninput %q", other, d, o2.Err, short(text)), cs)
			}
		}
		if c.WantSample() && len(text) > 8 && len(text) < 120 && c.R.Intn(20) == 0 {
			c.Sample(map[string]any{"input": fmt.Sprintf("%q", text), "outcome": "rejected: " + o.Err.Error()})
		}
	default:
		if _, err := gt.FromStmts(o.Stmts); err != nil {
			c.Violate("incomplete-tree", fmt.Sprintf("accepted, but the tree is incomplete: %v\ninput %q", err, short(text)), cs)
		}
		c.Count("accepted", 1)
	}

	// lexer stream
	items, pan := drive.LexAll(text, len(text)+2)
	c.Eval(1)
	if lb, ok := pan.(drive.LexBoundExceeded); ok {
		c.Violate("does-not-terminate", fmt.Sprintf("the exported lexer made %d state transitions on %d bytes without producing its next item (bound %d)\ninput %q", lb.Count, len(text), lb.Bound, short(text)), cs)
		return
	}
	if pan != nil {
		c.Violate("lexer-panic", fmt.Sprintf("the exported lexer panicked: %v\ninput %q", pan, short(text)), cs)
		return
	}
	if len(items) >= 3 {
		c.Nontrivial(text)
	}
	end := 0
	for n, it := range items {
		if it.Err {
			c.Count("lex_error_streams", 1)
			break
		}
		if it.Pos < end {
			c.Violate("lexer-overlap", fmt.Sprintf("item %d %q at %d starts before the previous item ended (%d)\ninput %q", n, it.Val, it.Pos, end, short(text)), cs)
			return
		}
		for _, ch := range []byte(text[end:min(it.Pos, len(text))]) {
			if ch != ' ' && ch != '\t' && ch != '\r' {
				c.Violate("lexer-skipped-bytes", fmt.Sprintf("bytes %q between offsets %d and %d belong to no token\ninput %q", text[end:it.Pos], end, it.Pos, short(text)), cs)
				return
			}
		}
		if it.EOF {
			if it.Pos != len(text) {
				c.Violate("lexer-early-eof", fmt.Sprintf("EOF item at %d, text length %d\ninput %q", it.Pos, len(text), short(text)), cs)
			}
			return
		}
		if it.Pos+len(it.Val) > len(text) || text[it.Pos:it.Pos+len(it.Val)] != it.Val || len(it.Val) == 0 {
			c.Violate("lexer-item-text", fmt.Sprintf("item %d at %d claims text %q, which is not what the source holds there\ninput %q", n, it.Pos, it.Val, short(text)), cs)
			return
		}
		end = it.Pos + len(it.Val)
	}
	if n := len(items); n > 0 && !items[n-1].Err && !items[n-1].EOF {
		c.Violate("lexer-no-end", fmt.Sprintf("%d items from %d bytes without reaching EOF or ERROR\ninput %q", n, len(text), short(text)), cs)
	}
}

func firstN(s string, n int) string {
	l := strings.Split(s, "\n")
	if len(l) > n {
		l = l[:n]
	}
	return strings.Join(l, "\n")
}

var _ = rand.Int
