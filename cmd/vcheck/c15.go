package main

import (
	"encoding/json"
	"fmt"
	"os"
	"os/exec"
	"path/filepath"
	"runtime"
	"sort"
	"strconv"
	"strings"
	"time"
	"unsafe"

	"github.com/GuanceCloud/platypus/pkg/ast"
	"github.com/GuanceCloud/platypus/pkg/engine"
	plrt "github.com/GuanceCloud/platypus/pkg/engine/runtime"
	"github.com/GuanceCloud/platypus/pkg/errchain"
	"github.com/GuanceCloud/platypus/pkg/inimpl/guancecloud/input"
	"github.com/GuanceCloud/platypus/pkg/parser"

	"verif/internal/drive"
	"verif/internal/gen"
	"verif/internal/gt"
	"verif/internal/mon"
	"verif/internal/ref"
)

// C15: each run depends only on its script, its functions and its input
// point.

type c15 struct{}

func init() {
	register(c15{})
	mon.Assumptions["C15"] = []string{
		"the reference outcome of an operation is that operation executed as the first thing in a fresh process (vcheck oneshot), rendered canonically (load verdict and error text, or probe trace, final point and error text)",
		"histories run with GOMAXPROCS=1, so sync.Pool hands back the most recently returned object; the evidence counts operations that actually ran on a recycled parser / task / point",
		"time-dependent outcomes are excluded by construction (fixed point times, no year-less layouts)",
	}
}

func (c15) ID() string { return "C15" }
func (c15) Rule() string {
	return "a fixed pool of ~90 operations - loads of valid / syntactically invalid (incl. malformed numbers and unterminated strings) / check-failing / link-failing sources on both loaders, v1 and v2 runs that succeed, fail mid-loop, fail inside use(), exit() early, are cancelled at poll k, run with and without WithPrivate, call functions that return nothing right after functions that return something, leave all six return registers full - plus seeded generated programs; histories are seeded interleavings of the pool (length 30 quick / 80 thorough), every operation's outcome compared with the same operation performed first in a fresh process. Non-trivial = distinct ordered pairs (predecessor, operation) in which the operation ran on a recycled pooled object."
}

func (c15) Plan(tier string, seed int64) []mon.Workload {
	n := int64(300)
	if tier == "thorough" {
		n = 8000
	}
	return []mon.Workload{{Name: "histories", N: n}}
}

type c15Op struct {
	Name string
	Run  func(st *c15State) string
}

type c15State struct {
	// loaded script sets are kept across operations, so that histories
	// contain run-after-run sequences with no load (and hence no check pass
	// re-initialising pooled tasks) in between
	loaded  map[string]map[string]*plrt.Script
	parsers map[uintptr]bool
	tasks   map[uintptr]bool
	points  map[uintptr]bool
	// set by the op that just ran
	recycledParser, recycledTask, recycledPoint bool
}

func errText(e error) string {
	if e == nil {
		return "<nil>"
	}
	if pe, ok := e.(*errchain.PlError); ok && pe == nil {
		return "<nil>"
	}
	return e.Error()
}

func canonEvents(ev []drive.Event) string {
	var sb strings.Builder
	for _, e := range ev {
		sb.WriteString(ref.Event{Kind: e.Kind, Script: e.Script, ID: e.ID, Vals: e.Vals}.String())
		sb.WriteByte(';')
	}
	return sb.String()
}

var c15Srcs = map[string]string{
	"ok-simple":          "a = 1 + 2\nadd_key(r, a)\np(a)\n",
	"ok-grok":            "add_pattern(\"pp\", \"[a-z]+\")\nok = grok(_, \"%{pp:w} %{INT:n:int}\")\np(ok, w, n)\n",
	"ok-loop":            "s = \"\"\nfor i = 0; i < 4; i = i + 1 {\n  s = s + \"x\"\n  if i == 2 { continue }\n  add_key(cnt, i)\n}\np(s, i)\n",
	"ok-containers":      "l = [1, [2, 3], {\"k\": \"v\"}]\nm = {\"a\": l}\nm[\"a\"][0] = 9\np(l, m, l[1:], len(m))\nfor e in l { p(e) }\n",
	"fail-mid-loop":      "for i = 0; i < 5; i = i + 1 {\n  add_key(seen, i)\n  if i == 2 { x = 1 / (i - 2) }\n}\np(\"unreachable\")\n",
	"fail-type":          "a = \"s\" - 1\np(a)\n",
	"exit-early":         "add_key(before, 1)\nif true { exit() }\nadd_key(after, 1)\np(\"unreachable\")\n",
	"use-ok":             "add_key(m1, 1)\nuse(\"lib.p\")\np(from_lib)\n",
	"use-fail":           "add_key(m1, 1)\nuse(\"badrun.p\")\np(\"unreachable\")\n",
	"void-after-val":     "x = len(\"abc\")\ny = void()\nz = len(\"\")\np(x, y, z)\nv = t(1, 5)\nw = void()\np(v, w)\n",
	"regs-full":          "r = six()\np(r)\nq = void()\np(q)\nn = len(\"ab\")\np(n)\n",
	"private":            "p(priv())\n",
	"infinite":           "for ;; {\n  add_key(spins, 1)\n  p(1)\n}\n",
	"nested-infinite":    "for i = 0; i < 3; i = i + 1 {\n  for ;; {\n    p(i)\n  }\n}\n",
	"strfmt-print":       "strfmt(out, \"%v|%5.1f|%s\", 1, 2.5, \"x\")\nprintf(\"%d-%s\\n\", 7, \"p\")\ncast(out, \"str\")\np(out)\n",
	"time":               "add_key(ts, \"2021-05-27 06:54:14.760 UTC\")\ndefault_time(ts, \"Asia/Tokyo\")\nadd_key(ts2, 1700000000)\ndatetime(ts2, \"s\", \"RFC3339\")\np(ts2)\n",
	"xml-sql":            "add_key(doc, \"<a><b>x</b></a>\")\nxml(doc, \"/a/b\", got)\nadd_key(q, \"select 1 from t where a = 'b'\")\nsql_cover(q)\np(got, q)\n",
	"json":               "j = load_json(\"{\\\"a\\\": [1, 2.5, {\\\"b\\\": null}]}\")\np(j, j[\"a\"][-1], len(j))\nadd_key(jj, j)\n",
	"rename-tag":         "set_tag(tt, \"v\")\nrename(t2, tt)\nset_tag(f1)\ndrop_key(f2)\nset_measurement(\"mm\")\np(t2, f1, f2)\n",
	"fail-nested-vars":   "a = \"leak-a\"\ns = \"leak-s\"\nw = \"leak-w\"\nn = 99\nadd_pattern(\"leakp\", \"x+\")\nif true {\n  for i = 0; i < 2; i = i + 1 {\n    q = 1 / (1 - i)\n  }\n}\np(\"unreachable\")\n",
	"fail-in-use-branch": "x = \"caller-private\"\nok = \"stale-ok\"\nif true {\n  use(\"badrun.p\")\n}\n",
	// the value of a call that returns nothing, used where a run-time error names the operand's type - before and after value-returning calls in the same run
	// a container without a JSON form (a non-finite float inside, a cycle) stored over a key that already holds a scalar of each type, and readers of such keys
	"unenc-over-int":   "add_key(f1, [1, 1e308 * 10.0])\np(f1, f2, message)\n",
	"unenc-over-str":   "c = [1]\nc[0] = c\nadd_key(message, c)\np(message, f1)\n",
	"unenc-over-float": "add_key(fl, 2.5)\nadd_key(fl, {\"x\": 1e308 * 10.0})\nadd_key(bo, true)\nadd_key(bo, [1e308 * 10.0])\np(fl, bo)\n",
	"scalar-readers":   "add_key(i2, 7)\nadd_key(s2, \"str\")\nadd_key(fl2, 0.5)\nadd_key(b2, false)\np(i2, s2, fl2, b2, f1, f2, message)\ncast(i2, \"str\")\np(get_key(i2), len(s2))\n",
	"void-operand":     "x = drop_key(nosuchkey)\ny = x + 1\np(\"unreachable\")\n",
	"void-iterable":    "for e in add_key(k9, 1) {\n  p(e)\n}\n",
	"void-in":          "set_tag(k8, \"v\")\nz = 1 in rename(k7, k8)\np(z)\n",
	"void-compound":    "x = 1\nx += cast(f1, \"int\")\np(x)\n",
	"void-after-len":   "n = len(\"abc\")\nx = drop_key(nosuchkey)\ny = x - n\n",
	"void-unary":       "x = -set_tag(k6, \"v\")\np(x)\n",
	"reader":           "p(a, s, w, n, x, ok, q, i, b)\nadd_key(seen_a, a)\nadd_key(seen_x, x)\n",
	"reader-use":       "use(\"reader2.p\")\np(a, x)\n",
	"reader2":          "p(a, s, w, n, x, ok)\n",
	// the same grok pattern text under different script-local alias definitions
	"grok-alias-digits":  "add_pattern(\"tok\", \"[0-9]+\")\nif true {\n  ok = grok(_, \"%{tok:w}\")\n  p(ok, w)\n}\n",
	"grok-alias-letters": "add_pattern(\"tok\", \"[a-z]+\")\nif true {\n  ok = grok(_, \"%{tok:w}\")\n  p(ok, w)\n}\n",
	"grok-alias-top":     "add_pattern(\"tok\", \"[a-z]+ [0-9]\")\nok = grok(_, \"%{tok:w}\")\np(ok, w)\n",
	"grok-alias-loop":    "add_pattern(\"tok\", \"c [0-9]\")\nfor i = 0; i < 2; i = i + 1 {\n  if i == 1 {\n    ok = grok(_, \"%{tok:w}\")\n    p(ok, w)\n  }\n}\n",
	"grok-alias-inner":   "if true {\n  add_pattern(\"tok\", \"bc\")\n  for e in [1] {\n    ok = grok(_, \"%{tok:w}\")\n    p(ok, w)\n  }\n}\n",
	"grok-alias-shadow":  "add_pattern(\"tok\", \"[0-9]+\")\nif true {\n  add_pattern(\"tok\", \"a\")\n  ok = grok(_, \"%{tok:w}\")\n  p(ok, w)\n}\nok = grok(_, \"%{tok:w}\")\np(ok, w)\n",
	"grok-global-only":   "if true {\n  ok = grok(_, \"%{WORD:w} %{INT:n}\")\n  p(ok, w, n)\n}\n",
	// renames onto names that already exist (the replaced key's bookkeeping object goes somewhere), then scripts that create and read many keys
	"rename-onto-field":     "rename(f2, f1)\np(f1, f2)\n",
	"rename-onto-tag":       "rename(tg, f2)\np(tg, f2)\nadd_key(n9, 1)\n",
	"rename-tag-onto-field": "rename(f1, tg)\np(f1, tg)\nset_tag(message)\nrename(f2, message)\n",
	"rename-chain":          "add_key(x1, 1)\nadd_key(x2, \"two\")\nset_tag(x3, \"three\")\nrename(x2, x1)\nrename(x3, x2)\nrename(f1, x3)\ndrop_key(f1)\np(x1, x2, x3, f1)\n",
	"many-keys":             "add_key(n1, 5)\nadd_key(n2, 5)\nset_tag(n3, \"t\")\nadd_key(n4, 2.5)\nadd_key(n5, true)\nset_tag(n6, \"u\")\np(n1, n2, n3, n4, n5, n6, f1, f2, tg, message)\ncast(n2, \"str\")\ncast(n4, \"int\")\nrename(n7, n3)\np(get_key(n2), get_key(n4), get_key(n7), get_key(n5))\n",
	// values built from constant literals and then written in place: a second run of the same loaded script starts from the literals again
	"nested-literals":      "a = [[1, 2], [3]]\na[0][0] += 10\nm = {\"k\": [1, 2], \"j\": {\"d\": 0}}\nm[\"k\"][1] = m[\"k\"][1] * 2\nm[\"j\"][\"d\"] += 1\nfor i = 0; i < 2; i = i + 1 {\n  g = [{\"n\": 0}, [0]]\n  g[0][\"n\"] += 5\n  g[1][0] = g[0][\"n\"] + i\n  p(g)\n}\np(a, m)\n",
	"nested-literals-fail": "a = [[1, 2], [3]]\na[0][1] = a[0][1] + 40\na[1][0] = \"x\"\np(a)\nq = a[1][0] - 1\np(\"unreachable\")\n",
	// SQL whose string literals end in a backslash / contain an escaped quote / are ambiguous between the two readings
	"sql-backslash-literal": "add_key(q, \"select * from t where p = 'C:\\\\'\")\nsql_cover(q)\np(q)\n",
	"sql-backslash-escape":  "add_key(q, \"select * from t where p = 'it\\\\'s' and a = 1\")\nsql_cover(q)\np(q)\n",
	"sql-backslash-both":    "add_key(q, \"SELECT 'a\\\\' , b -- '\")\nsql_cover(q)\nadd_key(q2, \"select 1 from t where a = 'b'\")\nsql_cover(q2)\np(q, q2)\n",
	// one zone under several spellings: the canonical name, the offset that maps to it, wrong letter case (unknown to a case-sensitive zone database)
	"zone-canonical": "add_key(ts, \"2021-03-03 01:06:07\")\ndefault_time(ts, \"Pacific/Kiritimati\")\np(get_key(ts))\n",
	"zone-offset":    "add_key(ts, \"2021-03-03 01:06:07\")\ndefault_time(ts, \"+14\")\np(get_key(ts))\n",
	"zone-miscased":  "add_key(ts, \"2021-03-03 01:06:07\")\ndefault_time(ts, \"pacific/kiritimati\")\np(get_key(ts), get_key(pl_msg))\n",
	"zone-upper":     "add_key(ts, \"2021-03-03 01:06:07\")\ndefault_time(ts, \"ASIA/TOKYO\")\nadd_key(ts4, \"2021-03-03 01:06:07\")\ndefault_time(ts4, \"asia/Tokyo\")\np(get_key(ts), get_key(ts4))\n",
	"lib":            "add_key(from_lib, \"lib\")\nb = 2\n",
	// builtins that fail at run time because of a constant argument (a pattern that does not compile, an unknown layout), reached through use() and as an argument: the error and its call-site lines are those of THIS run
	"badre":           "add_key(in_badre, 1)\nreplace(message, \"a(b\", \"x\")\nadd_key(after_badre, 1)\n",
	"use-badre":       "add_key(m1, 1)\nuse(\"badre.p\")\np(\"unreachable\")\n",
	"use-badre-twice": "for i = 0; i < 2; i = i + 1 {\n  if i == 0 {\n    add_key(first, 1)\n  }\n  use(\"badre.p\")\n}\n",
	"arg-badre":       "add_key(k1, 1)\nadd_key(k2, replace(message, \"a(b\", \"x\"))\nadd_key(k3, 1)\n",
	"arg-baddt":       "add_key(ts3, 1700000000)\nadd_key(k2, datetime(ts3, \"s\", \"no-such-layout-name\"))\n",
	"badrun":          "add_key(in_bad, 1)\nboom()\n",
}

var c15Invalid = []string{"a b", "x = 0x", "-1e", "for a in 1e {}", "x = \"unterminated", "x = 'a\\q'", "if { }", "x = [1, 2", "))", "x = 1 / 0", "f(", "x = \"\"\"abc", "`raw", "a = \xff\xfe", "x = 1 +", "for ;; ", "{", "x = a[1:2:3:4]", "else {}", "x = 99999999999999999999999e9999"}
var c15CheckFail = []string{"nosuch()", "x = [1, add_key()]", "break", "if a { continue }", "cast(x, \"nosuchtype\")", "grok(_, \"%{NOSUCH:x}\")", "a[::nosuch()]", "use(\"missing.p\")", "{1: 2}", "for x in y { for ;; { break } }\nbreak",
	"if true {\n  ok = grok(_, \"%{tok:w}\")\n}\n", "if true {\n  add_pattern(\"tok\", \"x\")\n}\nok = grok(_, \"%{tok:w}\")\n", "for e in [1] {\n  if e {\n    grok(_, \"%{tok:w}\")\n  }\n}\n"}

// extra probes for this check
func c15Funcs() (map[string]plrt.FuncCall, map[string]plrt.FuncCheck) {
	call, check := drive.V1Funcs()
	okc := func(*plrt.Task, *ast.CallExpr) *errchain.PlError { return nil }
	call["six"] = func(ctx *plrt.Task, e *ast.CallExpr) *errchain.PlError {
		for i := 0; i < 8; i++ {
			ctx.Regs.ReturnAppend(int64(60+i), ast.Int)
		}
		return nil
	}
	check["six"] = okc
	call["priv"] = func(ctx *plrt.Task, e *ast.CallExpr) *errchain.PlError {
		v, ok := ctx.PValue("k")
		if !ok {
			ctx.Regs.ReturnAppend("no-private", ast.String)
			return nil
		}
		ctx.Regs.ReturnAppend(fmt.Sprint(v), ast.String)
		return nil
	}
	check["priv"] = okc
	return call, check
}

var c15Call, c15Check = c15Funcs()

func c15Point() *input.Point {
	pt := input.GetPoint()
	return input.InitPt(pt, "m", map[string]string{"tg": "tv"}, map[string]any{"message": "abc 12", "f1": int64(7), "f2": "x"}, time.Unix(1700000000, 0))
}

func (st *c15State) notePoint(pt *input.Point) {
	id := uintptr(unsafe.Pointer(pt))
	st.recycledPoint = st.points[id]
	st.points[id] = true
}

func c15RunV1(st *c15State, main string, rs *drive.RunState, opts ...plrt.Opt) string {
	set := map[string]string{"main.p": c15Srcs[main], "lib.p": c15Srcs["lib"], "badrun.p": c15Srcs["badrun"], "reader2.p": c15Srcs["reader2"], "badre.p": c15Srcs["badre"]}
	drive.Init()
	var ok map[string]*plrt.Script
	var errs map[string]error
	stdout := ""
	var out string
	func() {
		defer func() {
			if r := recover(); r != nil {
				out = fmt.Sprintf("PANIC %v", r)
			}
		}()
		if st.loaded == nil {
			st.loaded = map[string]map[string]*plrt.Script{}
		}
		ok = st.loaded[main]
		if ok == nil {
			ok, errs = engine.ParseScript(set, c15Call, c15Check)
			if e := errs["main.p"]; e != nil {
				out = "load error: " + errText(e)
				return
			}
			st.loaded[main] = ok
		}
		pt := c15Point()
		st.notePoint(pt)
		var perr *errchain.PlError
		budget := false
		stdout = drive.CaptureStdout(func() {
			func() {
				defer func() {
					if r := recover(); r != nil {
						if _, isB := r.(drive.BudgetExceeded); isB {
							budget = true
							return
						}
						panic(r)
					}
				}()
				perr = ok["main.p"].Run(pt, rs, opts...)
			}()
		})
		var pe error
		if perr != nil {
			pe = perr
		}
		out = fmt.Sprintf("err=%s budget=%v events=%s point=%s stdout=%q", errText(pe), budget, canonEvents(rs.Events), showRealPoint(pt), stdout)
		input.PutPoint(pt)
	}()
	return out
}

func c15Pool(seed int64) []c15Op {
	var ops []c15Op
	for _, name := range []string{"ok-simple", "ok-grok", "ok-loop", "ok-containers", "fail-mid-loop", "fail-type", "exit-early", "use-ok", "use-fail",
		"void-after-val", "regs-full", "strfmt-print", "time", "xml-sql", "json", "rename-tag", "fail-nested-vars", "fail-in-use-branch", "reader", "reader-use",
		"zone-canonical", "zone-offset", "zone-miscased", "zone-miscased", "zone-upper", "sql-backslash-literal", "sql-backslash-escape", "sql-backslash-both", "sql-backslash-both", "nested-literals", "nested-literals", "nested-literals-fail", "rename-onto-field", "rename-onto-tag", "rename-tag-onto-field", "rename-chain", "many-keys", "many-keys",
		"grok-alias-digits", "grok-alias-letters", "grok-alias-top", "grok-alias-loop", "grok-alias-inner", "grok-alias-shadow", "grok-global-only",
		"use-badre", "use-badre", "use-badre-twice", "arg-badre", "arg-badre", "arg-baddt", "badre",
		"unenc-over-int", "unenc-over-str", "unenc-over-float", "scalar-readers", "scalar-readers",
		"void-operand", "void-operand", "void-iterable", "void-in", "void-compound", "void-after-len", "void-unary"} {
		name := name
		if c15Srcs[name] == "" {
			panic("c15: the pool names a script that has no source: " + name)
		}
		ops = append(ops, c15Op{"run:" + name, func(st *c15State) string { return c15RunV1(st, name, &drive.RunState{Budget: 20000}) }})
	}
	ops = append(ops, c15Op{"run:private-with", func(st *c15State) string {
		return c15RunV1(st, "private", &drive.RunState{Budget: 2000}, plrt.WithPrivate(map[string]any{"k": "secret"}))
	}})
	ops = append(ops, c15Op{"run:private-without", func(st *c15State) string { return c15RunV1(st, "private", &drive.RunState{Budget: 2000}) }})
	for _, k := range []int{1, 2, 5, 11} {
		k := k
		ops = append(ops, c15Op{fmt.Sprintf("run:infinite-cancel@%d", k), func(st *c15State) string {
			return c15RunV1(st, "infinite", &drive.RunState{Budget: 5000, FireAtPoll: k})
		}})
		ops = append(ops, c15Op{fmt.Sprintf("run:nested-infinite-cancel@%d", k), func(st *c15State) string {
			return c15RunV1(st, "nested-infinite", &drive.RunState{Budget: 5000, FireAtPoll: k})
		}})
		ops = append(ops, c15Op{fmt.Sprintf("run:ok-loop-cancel@%d", k), func(st *c15State) string {
			return c15RunV1(st, "ok-loop", &drive.RunState{Budget: 5000, FireAtPoll: k})
		}})
	}
	// loads of OTHER workspaces that share file names and texts with the sets
	// the run operations keep loaded: same main.p, another lib.p / reader2.p;
	// one that fails to link. Nothing of them is kept; they may not change
	// what an earlier loaded set does.
	for j, other := range []map[string]string{
		{"main.p": c15Srcs["use-ok"], "lib.p": "add_key(from_lib, \"OTHER LIB\")\nadd_key(extra, 1)\n", "badrun.p": c15Srcs["badrun"], "reader2.p": c15Srcs["reader2"]},
		{"main.p": c15Srcs["reader-use"], "lib.p": c15Srcs["lib"], "badrun.p": c15Srcs["badrun"], "reader2.p": "p(\"other reader\")\nadd_key(seen_by_other, 1)\n"},
		{"main.p": c15Srcs["use-ok"], "lib.p": "use(\"main.p\")\n", "badrun.p": c15Srcs["badrun"], "reader2.p": c15Srcs["reader2"]},
		{"main.p": c15Srcs["use-fail"], "lib.p": c15Srcs["lib"], "badrun.p": "add_key(in_bad, 2)\n", "reader2.p": c15Srcs["reader2"]},
	} {
		other, j := other, j
		ops = append(ops, c15Op{fmt.Sprintf("load-other-workspace:%d", j), func(st *c15State) string {
			ok, errs := engine.ParseScript(other, c15Call, c15Check)
			var names []string
			for n := range ok {
				names = append(names, n)
			}
			sort.Strings(names)
			var en []string
			for n, e := range errs {
				en = append(en, n+": "+errText(e))
			}
			sort.Strings(en)
			return fmt.Sprintf("accepted=%v rejected=%v", names, en)
		}})
	}
	for i, src := range c15Invalid {
		src := src
		ops = append(ops, c15Op{fmt.Sprintf("parse-invalid:%d", i), func(st *c15State) string {
			o := drive.Parse("inv.p", src)
			return fmt.Sprintf("panic=%v err=%s tree=%v stderr=%v", o.Panic, errText(o.Err), o.Stmts != nil, o.Stderr != "")
		}})
	}
	for i, src := range c15CheckFail {
		src := src
		ops = append(ops, c15Op{fmt.Sprintf("load-check-fail:%d", i), func(st *c15State) string {
			_, errs := engine.ParseScript(map[string]string{"cf.p": src}, c15Call, c15Check)
			return "v1 " + errText(errs["cf.p"])
		}})
		ops = append(ops, c15Op{fmt.Sprintf("load-check-fail-v2:%d", i), func(st *c15State) string {
			_, err := drive.LoadV2("cf.p", src)
			return "v2 " + errText(err)
		}})
	}
	// v2 runs
	v2srcs := []string{"a = 5\nb = void()\np(a, b)\n", "a, b = 1, \"x\"\na, b = b, a\np(a, b)\n", "x = undefined_name\n", "for i = 0; i < 3; i = i + 1 { p(i) }\nif void() { p(1) }\n",
		"l = [1, 2, 3]\np(l[::-1], l[5:], -false)\nm, n = multi()\np(m, n)\n", "for ;; { p(1) }\n"}
	for i, src := range v2srcs {
		src, i := src, i
		ops = append(ops, c15Op{fmt.Sprintf("run-v2:%d", i), func(st *c15State) string {
			s, err := drive.LoadV2("v2.p", src)
			if err != nil {
				return "load " + errText(err)
			}
			rs := &drive.RunState{Budget: 3000}
			if strings.Contains(src, "for ;;") {
				rs.FireAtPoll = 3
			}
			o := drive.RunV2(s, rs)
			var pe error
			if o.Err != nil {
				pe = o.Err
			}
			return fmt.Sprintf("panic=%v budget=%v err=%s events=%s", o.Panic, o.Budget, errText(pe), canonEvents(rs.Events))
		}})
	}
	// seeded generated programs
	for j := 0; j < 12; j++ {
		g := gen.NewProg(gen.Rand(seed*1000 + int64(j)))
		g.Boom = true
		g.AddKey = true
		g.IllTyped = 30
		stmts := gt.ParenthesizeStmts(g.Program())
		src := gt.Print(stmts, nil)
		ops = append(ops, c15Op{fmt.Sprintf("run:generated-%d", j), func(st *c15State) string {
			drive.Init()
			if st.loaded == nil {
				st.loaded = map[string]map[string]*plrt.Script{}
			}
			ok := st.loaded[src]
			if ok == nil {
				var errs map[string]error
				ok, errs = engine.ParseScript(map[string]string{"g.p": src}, c15Call, c15Check)
				if e := errs["g.p"]; e != nil {
					return "load error: " + errText(e)
				}
				st.loaded[src] = ok
			}
			pt := c15Point()
			st.notePoint(pt)
			rs := &drive.RunState{Budget: 30000}
			o := drive.RunV1(ok["g.p"], pt, rs)
			var pe error
			if o.Err != nil {
				pe = o.Err
			}
			out := fmt.Sprintf("panic=%v budget=%v err=%s events=%x point=%s", o.Panic, o.Budget, errText(pe), mon.Hash64(canonEvents(rs.Events)), showRealPoint(pt))
			input.PutPoint(pt)
			return out
		}})
	}
	return ops
}

// OneShot prints the outcome of one operation executed first in this process.
func (c15) OneShot(args []string) int {
	seed, _ := strconv.ParseInt(args[0], 10, 64)
	idx, _ := strconv.Atoi(args[1])
	runtime.GOMAXPROCS(1)
	ops := c15Pool(seed)
	st := &c15State{parsers: map[uintptr]bool{}, tasks: map[uintptr]bool{}, points: map[uintptr]bool{}}
	out := ops[idx].Run(st)
	b, _ := json.Marshal(out)
	os.Stdout.Write(b)
	return 0
}

var c15RefCache = map[string]string{}

func c15Reference(seed int64, idx int) (string, error) {
	key := fmt.Sprintf("%d/%d", seed, idx)
	if v, ok := c15RefCache[key]; ok {
		return v, nil
	}
	exe, _ := os.Executable()
	// references are shared between the workers of one build through a
	// small on-disk cache keyed by the binary's identity
	cacheDir := ""
	if fi, err := os.Stat(exe); err == nil {
		cacheDir = filepath.Join(root(), ".build", "c15ref", fmt.Sprintf("%d-%d", fi.ModTime().UnixNano(), fi.Size()))
		os.MkdirAll(cacheDir, 0o755)
		if b, err := os.ReadFile(filepath.Join(cacheDir, strings.ReplaceAll(key, "/", "-"))); err == nil {
			var s string
			if json.Unmarshal(b, &s) == nil {
				c15RefCache[key] = s
				return s, nil
			}
		}
	}
	cmd := exec.Command(exe, "oneshot", "C15", strconv.FormatInt(seed, 10), strconv.Itoa(idx))
	cmd.Env = append(os.Environ(), "GOMAXPROCS=1")
	b, err := cmd.Output()
	if err != nil {
		return "", fmt.Errorf("one-shot reference process failed: %v", err)
	}
	var s string
	if err := json.Unmarshal(b, &s); err != nil {
		return "", fmt.Errorf("one-shot reference output: %v (%q)", err, short(string(b)))
	}
	c15RefCache[key] = s
	if cacheDir != "" {
		tmp := filepath.Join(cacheDir, fmt.Sprintf(".tmp-%d-%s", os.Getpid(), strings.ReplaceAll(key, "/", "-")))
		if os.WriteFile(tmp, b, 0o644) == nil {
			os.Rename(tmp, filepath.Join(cacheDir, strings.ReplaceAll(key, "/", "-")))
		}
	}
	return s, nil
}

func (k c15) Run(c *mon.Ctx, workload string, i int64) {
	drive.Init()
	ops := c15Pool(c.Seed)
	st := &c15State{parsers: map[uintptr]bool{}, tasks: map[uintptr]bool{}, points: map[uintptr]bool{}}
	parser.VerifParserGetHook = func(id any) {
		p := reflectPtr(id)
		st.recycledParser = st.recycledParser || st.parsers[p]
		st.parsers[p] = true
	}
	defer func() { parser.VerifParserGetHook = nil }()
	n := 30
	if c.Tier == "thorough" {
		n = 80
	}
	var hist []string
	prev := "<start>"
	for step := 0; step < n; step++ {
		idx := c.R.Intn(len(ops))
		op := ops[idx]
		hist = append(hist, op.Name)
		st.recycledParser, st.recycledTask, st.recycledPoint = false, false, false
		got := op.Run(st)
		c.Eval(1)
		if c.R.Intn(10) == 0 {
			runtime.GC() // pool victim caches move
		}
		want, err := c15Reference(c.Seed, idx)
		if err != nil {
			c.Inconclusive(err.Error())
			return
		}
		if st.recycledParser || st.recycledPoint {
			c.Nontrivial(prev + " -> " + op.Name)
			c.Count("operations_on_recycled_objects", 1)
			if st.recycledParser {
				c.Count("operations_on_recycled_parser", 1)
			}
			if st.recycledPoint {
				c.Count("operations_on_recycled_point", 1)
			}
		}
		if got != want {
			c.Violate("history-dependent-outcome:"+strings.SplitN(op.Name, ":", 2)[0], fmt.Sprintf("operation %s after the history [%s]\n  outcome here  : %s\n  fresh process : %s", op.Name,
				strings.Join(hist[:len(hist)-1], ", "), short(got), short(want)), map[string]any{"history": hist, "operation": op.Name})
			return
		}
		prev = op.Name
	}
	if c.WantSample() {
		c.Sample(map[string]any{"history": hist})
	}
	sort.Strings(hist)
}

func reflectPtr(v any) uintptr {
	type iface struct {
		typ, data unsafe.Pointer
	}
	return uintptr((*iface)(unsafe.Pointer(&v)).data)
}
