package ref

import (
	"fmt"
	"strconv"
	"strings"
	"time"

	"github.com/DataDog/datadog-agent/pkg/obfuscate"
	"github.com/GuanceCloud/grok"
	"github.com/antchfx/xmlquery"
	"github.com/araddon/dateparse"

	"verif/internal/gt"
)

// Models of the extraction builtins (C12). The pattern, XPath, time and SQL
// engines are the trusted base and are called directly; what is modelled is
// what the builtins do around them: subject lookup, pattern scoping, typing
// and placement of the results, the failure note, the frame condition.

var globalPatterns = grok.CopyDenormalizedDefalutPatterns()

// patternScopes is the chain of add_pattern definitions visible at a point
// of the program (innermost last).
type patternScopes []map[string]*grok.GrokPattern

func (p patternScopes) GetPattern(name string) (*grok.GrokPattern, bool) {
	for i := len(p) - 1; i >= 0; i-- {
		if g, ok := p[i][name]; ok {
			return g, true
		}
	}
	g, ok := globalPatterns[name]
	return g, ok
}

func (p patternScopes) SetPattern(string, *grok.GrokPattern) {}

// LoadCheck mirrors what must happen at load time for grok/add_pattern: a
// definition is visible from its statement to the end of its block and in
// nested blocks; every grok pattern is compiled against the definitions
// visible at its position; an unknown name (or an otherwise uncompilable
// pattern) is a load error. It returns the compiled expression per grok call.
func LoadCheck(stmts []*gt.T) (map[*gt.T]*grok.GrokRegexp, string) {
	out := map[*gt.T]*grok.GrokRegexp{}
	var fail string
	var block func(l []*gt.T, sc patternScopes)
	var visit func(t *gt.T, sc patternScopes)
	visit = func(t *gt.T, sc patternScopes) {
		if t == nil || fail != "" {
			return
		}
		if t.K == gt.KCall {
			for _, a := range t.Kids {
				visit(a, sc)
			}
			switch t.S {
			case "add_pattern":
				if len(t.Kids) != 2 || t.Kids[0].K != gt.KStr || t.Kids[1].K != gt.KStr {
					fail = "add_pattern shape"
					return
				}
				g, err := grok.DenormalizePattern(t.Kids[1].S, sc)
				if err != nil {
					fail = "add_pattern: " + err.Error()
					return
				}
				sc[len(sc)-1][t.Kids[0].S] = g
			case "grok":
				if len(t.Kids) < 2 || t.Kids[1].K != gt.KStr {
					fail = "grok shape"
					return
				}
				re, err := grok.CompilePattern(t.Kids[1].S, sc)
				if err != nil {
					fail = "grok: " + err.Error()
					return
				}
				out[t] = re
			}
			return
		}
		switch t.K {
		case gt.KIf:
			for i, c := range t.Conds {
				visit(c, sc)
				block(t.Blocks[i], sc)
			}
			if t.HasElse {
				block(t.Else, sc)
			}
		case gt.KFor:
			inner := append(append(patternScopes{}, sc...), map[string]*grok.GrokPattern{})
			visit(t.Init, inner)
			visit(t.Cond, inner)
			block(t.Body, inner)
			visit(t.Loop, inner)
		case gt.KForIn:
			visit(t.Kids[1], sc)
			block(t.Body, sc)
		case gt.KAssign:
			for _, x := range t.LHS {
				visit(x, sc)
			}
			for _, x := range t.RHS {
				visit(x, sc)
			}
		default:
			for _, k := range t.Kids {
				visit(k, sc)
			}
			visit(t.Start, sc)
			visit(t.End, sc)
			visit(t.Step, sc)
		}
	}
	block = func(l []*gt.T, sc patternScopes) {
		inner := append(append(patternScopes{}, sc...), map[string]*grok.GrokPattern{})
		for _, s := range l {
			visit(s, inner)
		}
	}
	top := patternScopes{map[string]*grok.GrokPattern{}}
	for _, s := range stmts {
		visit(s, top)
	}
	return out, fail
}

// ExtractFuncs returns the model table for C12; compiled holds LoadCheck's
// result for the program being run.
func ExtractFuncs(compiled map[*gt.T]*grok.GrokRegexp) map[string]Builtin {
	return map[string]Builtin{
		"add_pattern": func(in *Interp, c *gt.T) (Val, *RunErr) { return Void, nil },
		"grok": func(in *Interp, c *gt.T) (Val, *RunErr) {
			needPoint(in)
			re := compiled[c]
			if re == nil {
				unspec("grok call without a compiled pattern")
			}
			k := argKey(c, 0)
			s, ok := in.subjectStr(k)
			if !ok {
				return Val{false, TBool}, nil
			}
			trim := true
			if len(c.Kids) == 3 {
				if c.Kids[2].K != gt.KBool {
					unspec("grok third argument")
				}
				trim = c.Kids[2].B
			}
			m, _, err := re.RunWithTypeInfo(s, trim)
			if err != nil {
				return Val{false, TBool}, nil
			}
			for name, v := range m {
				val := Of(v)
				if val.T == TInvalid {
					continue
				}
				in.Point.Set(pkey(name), val)
			}
			return Val{true, TBool}, nil
		},
		"xml":          modelXML,
		"datetime":     modelDateTime,
		"default_time": modelDefaultTime,
		"sql_cover":    modelSQLCover,
	}
}

func modelXML(in *Interp, c *gt.T) (Val, *RunErr) {
	needPoint(in)
	k := argKey(c, 0)
	xp := argStrLit(c, 1)
	dst := argKey(c, 2)
	s, ok := in.subjectStr(k)
	if !ok {
		return Void, nil
	}
	doc, err := xmlquery.Parse(strings.NewReader(s))
	if err != nil {
		return Void, nil
	}
	var node *xmlquery.Node
	func() {
		defer func() {
			if recover() != nil {
				unspec("the XPath engine panicked on " + xp)
			}
		}()
		node, err = xmlquery.Query(doc, xp)
	}()
	if err != nil || node == nil {
		return Void, nil
	}
	in.Point.Set(pkey(dst), Val{node.InnerText(), TStr})
	return Void, nil
}

// Layout names of datetime() (data, from fn.md / handle.go).
var dateLayouts = map[string]string{
	"ANSIC": time.ANSIC, "UnixDate": time.UnixDate, "RubyDate": time.RubyDate, "RFC822": time.RFC822, "RFC822Z": time.RFC822Z,
	"RFC850": time.RFC850, "RFC1123": time.RFC1123, "RFC1123Z": time.RFC1123Z, "RFC3339": time.RFC3339, "RFC3339Nano": time.RFC3339Nano,
	"Kitchen": time.Kitchen, "Stamp": time.Stamp, "StampMilli": time.StampMilli, "StampMicro": time.StampMicro, "StampNano": time.StampNano,
}

func modelDateTime(in *Interp, c *gt.T) (Val, *RunErr) {
	needPoint(in)
	k := argKey(c, 0)
	prec, layout := argStrLit(c, 1), argStrLit(c, 2)
	v, found := in.Get(k)
	if !found {
		return Void, nil
	}
	var n int64
	switch x := v.V.(type) {
	case int64:
		n = x
	case float64:
		if x < -9e18 || x > 9e18 {
			unspec("datetime of a huge float")
		}
		n = int64(x)
	case string:
		i, err := strconv.ParseInt(x, 10, 64)
		if err != nil {
			unspec("datetime of a non-integer string")
		}
		n = i
	default:
		unspec("datetime of " + v.T.String())
	}
	var t time.Time
	switch prec {
	case "s":
		t = time.Unix(n, 0)
	case "ms":
		if n > 9e12 || n < -9e12 {
			unspec("datetime ms overflow")
		}
		t = time.Unix(0, n*int64(time.Millisecond))
	default:
		unspec("datetime precision " + prec)
	}
	l, ok := dateLayouts[layout]
	if !ok {
		return Void, in.errAt(c, "unknown layout")
	}
	in.Point.Set(pkey(k), Val{t.Format(l), TStr})
	return Void, nil
}

// House layouts tried before the general date parser (data, from
// handle.go); the year-less redis layout depends on the current year and is
// not used by the monitor.
var houseLayouts = []string{
	"02/Jan/2006:15:04:05 -0700",
	"02 Jan 2006 15:04:05.000",
	"060102 15:04:05",
	"2006/01/02 - 15:04:05",
	"Mon Jan 2 15:04:05.000000 2006",
	"2006-01-02 15:04:05.000 UTC",
}

// Zone table for numeric offsets (data, from fn.md / handle.go).
var zoneTable = map[string]string{
	"-11": "Pacific/Midway", "-10": "Pacific/Honolulu", "-9:30": "Pacific/Marquesas", "-9": "America/Anchorage", "-8": "America/Los_Angeles",
	"-7": "America/Phoenix", "-6": "America/Chicago", "-5": "America/New_York", "-4": "America/Santiago", "-3:30": "America/St_Johns",
	"-3": "America/Sao_Paulo", "-2": "America/Noronha", "-1": "America/Scoresbysund", "+0": "Europe/London", "+1": "Europe/Vatican",
	"+2": "Europe/Kiev", "+3": "Europe/Moscow", "+3:30": "Asia/Tehran", "+4": "Asia/Dubai", "+4:30": "Asia/Kabul", "+5": "Asia/Samarkand",
	"+5:30": "Asia/Kolkata", "+5:45": "Asia/Kathmandu", "+6": "Asia/Almaty", "+6:30": "Asia/Yangon", "+7": "Asia/Jakarta", "+8": "Asia/Shanghai",
	"+8:45": "Australia/Eucla", "+9": "Asia/Tokyo", "+9:30": "Australia/Darwin", "+10": "Australia/Sydney", "+10:30": "Australia/Lord_Howe",
	"+11": "Pacific/Guadalcanal", "+12": "Pacific/Auckland", "+12:45": "Pacific/Chatham", "+13": "Pacific/Apia", "+14": "Pacific/Kiritimati",
}

// PlMsgPrefix is the documented failure note's prefix.
const PlMsgPrefix = "time convert failed: "

// ParseTimestamp is the model of the timestamp conversion: ok=false is the
// documented failure (unknown zone, unparsable text).
func ParseTimestamp(text, tz string) (int64, bool) {
	loc := time.Local
	if tz != "" {
		if tz[0] == '+' || tz[0] == '-' {
			name, ok := zoneTable[tz]
			if !ok {
				return 0, false
			}
			tz = name
		}
		l, err := time.LoadLocation(tz)
		if err != nil {
			return 0, false
		}
		loc = l
	}
	for _, lay := range houseLayouts {
		if t, err := time.ParseInLocation(lay, text, loc); err == nil && t.UnixNano() > 0 {
			return t.UnixNano(), true
		}
	}
	t, err := dateparse.ParseIn(text, loc)
	if err != nil {
		return 0, false
	}
	return t.UnixNano(), true
}

func modelDefaultTime(in *Interp, c *gt.T) (Val, *RunErr) {
	needPoint(in)
	k := argKey(c, 0)
	s, ok := in.subjectStr(k)
	if !ok {
		return Void, nil
	}
	tz := ""
	if len(c.Kids) > 1 {
		tz = argStrLit(c, 1)
	}
	var ns int64
	var good bool
	func() {
		defer func() {
			if recover() != nil {
				unspec("the date parser panicked on " + strconv.Quote(s))
			}
		}()
		ns, good = ParseTimestamp(s, tz)
	}()
	if !good {
		in.Point.Set("pl_msg", Val{PlMsgPrefix, TStr})
		return Void, nil
	}
	in.Point.Time = time.Unix(ns/int64(time.Second), ns%int64(time.Second))
	in.Point.Delete(pkey(k))
	return Void, nil
}

// the engine's answer for ONE subject, independent of earlier subjects: a
// fresh obfuscator per call (the obfuscator adapts its escape mode to what it
// has seen before)
func obfuscateSQL(s string) (string, error) {
	q, err := obfuscate.NewObfuscator(obfuscate.Config{}).ObfuscateSQLString(s)
	if err != nil {
		return "", err
	}
	return q.Query, nil
}

func modelSQLCover(in *Interp, c *gt.T) (Val, *RunErr) {
	needPoint(in)
	k := argKey(c, 0)
	s, ok := in.subjectStr(k)
	if !ok {
		return Void, nil
	}
	q, err := obfuscateSQL(s)
	if err != nil {
		return Void, nil
	}
	in.Point.Set(pkey(k), Val{q, TStr})
	return Void, nil
}

var _ = fmt.Sprint
