package main

import (
	"fmt"
	"math"
	"math/big"
	"strconv"
	"strings"
	"unicode/utf8"

	"verif/internal/drive"
	"verif/internal/gt"
	"verif/internal/mon"
)

// C07: literals denote exactly the values they spell.

type c07 struct{}

func init() {
	register(c07{})
	mon.Assumptions["C07"] = []string{
		"escape rules are Go's (both quote kinds alike); the decoder in c07.go is written from the Go spec, not from parser/strutil.go",
		"strconv.ParseFloat is the trusted nearest-float64 oracle",
		"spellings whose triple-quoted content contains adjacent quote characters, whose body closes early, empty back-quoted identifiers, hexadecimal literals above the largest int64 and decimals with a leading zero are classed ambiguous: only crash-freedom and, if accepted as one literal, no claim",
	}
}

func (c07) ID() string { return "C07" }
func (c07) Rule() string {
	return "strings: every string over a 16-symbol alphabet (quotes, backslash, escape letters, digits, newline, NUL, multi-byte runes) up to the tier's length in each of the 5 quote styles (exhaustive), plus seeded longer bodies built from complete / truncated / invalid escape fragments; integers at 2^k, 2^k+-1, 10^k, 10^k+-1 in decimal and hex, signed and unsigned (exhaustive); floats: seeded float64 bit patterns printed in e, f and shortest form; keyword case variants (exhaustive). Each spelling is placed in `x = <spelling>` and parsed by the real parser; an independent decoder says well-formed(value) / malformed / ambiguous. Distinct = distinct spellings; non-trivial = contains an escape, quote or multi-byte rune, or is numeric."
}

var c07Alphabet = []string{"a", "\"", "'", "`", "\\", "n", "x", "u", "U", "0", "4", "8", "\n", "\x00", "é", "世", "\r"}

var c07Frags = []string{"a", "z", " ", "é", "世", "\x00", "\\a", "\\b", "\\f", "\\n", "\\r", "\\t", "\\v", "\\\\", "\\\"", "\\'", "\\`",
	"\\101", "\\377", "\\400", "\\08", "\\1", "\\x41", "\\xff", "\\x4", "\\xg1", "\\X41", "\\u00e9", "\\u4e16", "\\ud800", "\\udfff", "\\u12",
	"\\U0001F600", "\\U00110000", "\\U0000d800", "\\U1234", "\\U80000041", "\\UFFFFFFFF", "\\UDEADBEEF", "\\U7FFFFFFF", "\\uFFFF", "\\U0010FFFF", "\\xFF", "\\777", "\\x00", "\\z", "\\ ", "\\", "\"", "'", "`", "\n", "#", "\"\"", "''", "\\\n", "0", "x", "\r", "\r\n", "\t", "\x7f", "\u00a0", "\u2028", "\ufeff"}

var c07Styles = []string{"\"", "'", "`", "\"\"\"", "'''"}

func c07StrLen(tier string) int {
	if tier == "thorough" {
		return 4
	}
	return 3
}

func c07Ints() []string {
	var out []string
	seen := map[string]bool{}
	add := func(b *big.Int) {
		if b.Sign() < 0 {
			return
		}
		for _, s := range []string{b.String(), "0x" + b.Text(16), "0X" + strings.ToUpper(b.Text(16))} {
			for _, sign := range []string{"", "-", "+"} {
				if !seen[sign+s] {
					seen[sign+s] = true
					out = append(out, sign+s)
				}
			}
		}
	}
	one := big.NewInt(1)
	for k := 0; k <= 64; k++ {
		p := new(big.Int).Lsh(one, uint(k))
		add(new(big.Int).Sub(p, one))
		add(p)
		add(new(big.Int).Add(p, one))
	}
	ten := big.NewInt(10)
	for k := 0; k <= 20; k++ {
		p := new(big.Int).Exp(ten, big.NewInt(int64(k)), nil)
		add(new(big.Int).Sub(p, one))
		add(p)
		add(new(big.Int).Add(p, one))
	}
	return out
}

var c07IntList = c07Ints()

var c07Keywords = func() []string {
	var out []string
	for _, w := range []string{"true", "false", "nil", "null"} {
		n := len(w)
		for m := 0; m < 1<<n; m++ {
			b := []byte(w)
			for i := 0; i < n; i++ {
				if m&(1<<i) != 0 {
					b[i] -= 32
				}
			}
			out = append(out, string(b))
		}
	}
	return out
}()

func (c07) Plan(tier string, seed int64) []mon.Workload {
	n := seqCount(len(c07Alphabet), c07StrLen(tier)) * int64(len(c07Styles))
	rnd, fl := int64(50000), int64(35000)
	if tier == "thorough" {
		rnd, fl = 1500000, 700000
	}
	return []mon.Workload{
		{Name: "strings-exhaustive", N: n, Exhaustive: true},
		{Name: "strings-random", N: rnd},
		{Name: "code-points", N: int64(len(c07CodePoints) * len(c07CPForms) * len(c07CPContexts) * len(c07Styles)), Exhaustive: true},
		{Name: "code-point-pairs", N: int64(len(c07PairCPs) * len(c07PairCPs) * 2 * 2 * 2 * 2), Exhaustive: true},
		{Name: "two-literals", N: int64(len(c07PairBodies) * len(c07Styles) * len(c07Styles) * 2), Exhaustive: true},
		{Name: "ints", N: int64(len(c07IntList)), Exhaustive: true},
		{Name: "number-neighbours", N: int64(len(c07NbLits) * len(c07NbForms)), Exhaustive: true},
		{Name: "floats", N: fl},
		{Name: "keywords", N: int64(len(c07Keywords)), Exhaustive: true},
		{Name: "literal-contexts", N: int64(len(c07CtxLits) * len(c07Ctxs)), Exhaustive: true},
	}
}

type litClass int

const (
	litWell litClass = iota
	litMalformed
	litAmbiguous
)

// decodeQuoted is the independent decoder for '...' and "..." spellings.
func decodeQuoted(sp string) (litClass, string) {
	q := sp[0]
	var out []byte
	i := 1
	for {
		if i >= len(sp) {
			return litMalformed, "" // unterminated
		}
		ch := sp[i]
		switch {
		case ch == q:
			if i != len(sp)-1 {
				return litAmbiguous, "" // closes early: the rest is other tokens
			}
			return litWell, string(out)
		case ch == '\n':
			return litMalformed, ""
		case ch != '\\':
			out = append(out, ch)
			i++
		default:
			i++
			if i >= len(sp) {
				return litMalformed, ""
			}
			e := sp[i]
			i++
			simple := map[byte]byte{'a': 7, 'b': 8, 'f': 12, 'n': 10, 'r': 13, 't': 9, 'v': 11, '\\': '\\'}
			if v, ok := simple[e]; ok {
				out = append(out, v)
				continue
			}
			switch {
			case e == q:
				out = append(out, q)
			case e >= '0' && e <= '7':
				if i+2 > len(sp) {
					return litMalformed, ""
				}
				v := int(e - '0')
				for j := 0; j < 2; j++ {
					d := sp[i+j]
					if d < '0' || d > '7' {
						return badEscape(sp, i+j, q)
					}
					v = v*8 + int(d-'0')
				}
				i += 2
				if v > 255 {
					return litMalformed, ""
				}
				out = append(out, byte(v))
			case e == 'x' || e == 'u' || e == 'U':
				n := map[byte]int{'x': 2, 'u': 4, 'U': 8}[e]
				v := 0
				for j := 0; j < n; j++ {
					if i+j >= len(sp) {
						return litMalformed, ""
					}
					d := sp[i+j]
					var h int
					switch {
					case d >= '0' && d <= '9':
						h = int(d - '0')
					case d >= 'a' && d <= 'f':
						h = int(d-'a') + 10
					case d >= 'A' && d <= 'F':
						h = int(d-'A') + 10
					default:
						return badEscape(sp, i+j, q)
					}
					v = v*16 + h
				}
				i += n
				if e == 'x' {
					out = append(out, byte(v))
				} else {
					if v > 0x10FFFF || (v >= 0xD800 && v < 0xE000) {
						return litMalformed, ""
					}
					out = utf8.AppendRune(out, rune(v))
				}
			default:
				return badEscape(sp, i-1, q)
			}
		}
	}
}

// badEscape: an escape is invalid at offset at. If the offending byte is the
// closing quote or a raw newline, or the literal never closes, the text is
// malformed in any reading; otherwise it is malformed too (invalid escape).
func badEscape(sp string, at int, q byte) (litClass, string) { return litMalformed, "" }

// classify returns the oracle's verdict for a string-like spelling.
func classifyString(sp, style string) (litClass, string) {
	switch style {
	case "\"", "'":
		return decodeQuoted(sp)
	case "`":
		body := sp[1 : len(sp)-1]
		if strings.Contains(body, "`") {
			return litAmbiguous, ""
		}
		if body == "" || strings.Contains(body, "\r") {
			return litAmbiguous, ""
		}
		return litWell, body
	default:
		body := sp[3 : len(sp)-3]
		isq := func(b byte) bool { return b == '"' || b == '\'' }
		if body != "" && (isq(body[0]) || isq(body[len(body)-1])) {
			return litAmbiguous, ""
		}
		for i := 0; i+1 < len(body); i++ {
			if isq(body[i]) && isq(body[i+1]) {
				return litAmbiguous, ""
			}
		}
		return litWell, body
	}
}

// code-points (exhaustive): every boundary of the UTF-8 encoding and of the
// escape rules (0x7f/0x80, 0xff/0x100, 0x7ff/0x800, the surrogate range, the
// last valid code point and the first invalid one) x every way to write it
// (\u, \U, raw, \x, octal) x three surroundings x the five quote styles.
var c07CodePoints = []rune{0, 1, 0x1f, 0x20, 0x22, 0x27, 0x5c, 0x60, 0x7e, 0x7f, 0x80, 0x81, 0xbf, 0xc0, 0xff, 0x100, 0x7ff, 0x800, 0xfff, 0xd7ff, 0xd800, 0xdfff, 0xe000, 0xfffd, 0xfffe, 0xffff,
	0x10000, 0x1f600, 0x10ffff, 0x110000}
var c07CPForms = []string{"u", "U", "raw", "x", "octal"}
var c07CPContexts = []string{"%s", "a%sb", "\\t%s\\n", "%s%s"}

func c07CodePoint(i int64) (sp, style string) {
	style = c07Styles[i%int64(len(c07Styles))]
	i /= int64(len(c07Styles))
	ctx := c07CPContexts[int(i)%len(c07CPContexts)]
	i /= int64(len(c07CPContexts))
	form := c07CPForms[int(i)%len(c07CPForms)]
	cp := c07CodePoints[int(i)/len(c07CPForms)]
	var frag string
	switch form {
	case "u":
		if cp > 0xffff {
			return "", style
		}
		frag = fmt.Sprintf("\\u%04x", cp)
	case "U":
		frag = fmt.Sprintf("\\U%08x", cp)
	case "raw":
		if cp > 0x10ffff || cp >= 0xd800 && cp <= 0xdfff {
			return "", style
		}
		frag = string(cp)
	case "x":
		if cp > 0xff {
			return "", style
		}
		frag = fmt.Sprintf("\\x%02x", cp)
	default:
		if cp > 0xff {
			return "", style
		}
		frag = fmt.Sprintf("\\%03o", cp)
	}
	return style + strings.ReplaceAll(ctx, "%s", frag) + style, style
}

// code-point-pairs (exhaustive): two numeric escapes next to each other (or
// a blank apart), over the code points where encodings change shape - the
// ends of the 1/2/3-byte ranges, both halves of the surrogate range, the
// replacement character, an astral character. Each escape denotes its own
// code point or is malformed by itself; nothing combines.
var c07PairCPs = []rune{0x41, 0x7f, 0x80, 0xff, 0x7ff, 0x800, 0xd7ff, 0xd800, 0xd83d, 0xdbff, 0xdc00, 0xde00, 0xdfff, 0xe000, 0xfffd, 0xffff, 0x1f600}

func c07CodePointPair(i int64) (sp, style string) {
	style = []string{"\"", "'"}[i%2]
	i /= 2
	sep := []string{"", " "}[i%2]
	i /= 2
	f1, f2 := i%2, i/2%2
	i /= 4
	n := int64(len(c07PairCPs))
	esc := func(form int64, cp rune) string {
		if form == 0 && cp <= 0xffff {
			return fmt.Sprintf("\\u%04x", cp)
		}
		return fmt.Sprintf("\\U%08x", cp)
	}
	return style + esc(f1, c07PairCPs[i/n]) + sep + esc(f2, c07PairCPs[i%n]) + style, style
}

func c07String(c *mon.Ctx, workload string, i int64) (sp, style string) {
	if workload == "code-points" {
		return c07CodePoint(i)
	}
	if workload == "code-point-pairs" {
		return c07CodePointPair(i)
	}
	if workload == "strings-exhaustive" {
		style = c07Styles[i%int64(len(c07Styles))]
		seq := decodeSeq(i/int64(len(c07Styles)), len(c07Alphabet), c07StrLen(c.Tier))
		var sb strings.Builder
		for _, s := range seq {
			sb.WriteString(c07Alphabet[s])
		}
		return style + sb.String() + style, style
	}
	r := c.R
	style = c07Styles[r.Intn(len(c07Styles))]
	n := 1 + r.Intn(7)
	var sb strings.Builder
	for j := 0; j < n; j++ {
		sb.WriteString(c07Frags[r.Intn(len(c07Frags))])
	}
	return style + sb.String() + style, style
}

func (k c07) Describe(c *mon.Ctx, workload string, i int64) any {
	return map[string]any{"spelling": fmt.Sprintf("%q", k.spelling(c, workload, i))}
}

func (k c07) spelling(c *mon.Ctx, workload string, i int64) string {
	switch workload {
	case "strings-exhaustive", "strings-random", "code-points", "code-point-pairs":
		sp, _ := c07String(c, workload, i)
		return sp
	case "ints":
		return c07IntList[i]
	case "number-neighbours":
		src, _ := c07Neighbour(i)
		return src
	case "keywords":
		return c07Keywords[i]
	}
	return ""
}

// two-literals (exhaustive): two literals with the SAME text between their
// delimiters but different quote styles in one source, in both orders (and
// the same style twice): each denotes what ITS spelling denotes - an escape
// means something in '..' and "..", nothing in `..` and the triple-quoted
// forms.
var c07PairBodies = []string{"a\\tb", "\\x41", "\\u00e9z", "q\\\\q", "\\101", "plain", "\\n", "é\\té", "100%\\d", "a\\"}

func (k c07) twoLiterals(c *mon.Ctx, i int64) {
	sameLine := i%2 == 1
	i /= 2
	n := int64(len(c07Styles))
	s2 := c07Styles[i%n]
	i /= n
	s1 := c07Styles[i%n]
	body := c07PairBodies[i/n]
	sp1, sp2 := s1+body+s1, s2+body+s2
	sep := "\n"
	if sameLine {
		sep = "; "
	}
	src := "x = " + sp1 + sep + "y = " + sp2 + "\n"
	cl1, w1 := classifyString(sp1, s1)
	cl2, w2 := classifyString(sp2, s2)
	if cl1 != litWell || cl2 != litWell {
		return
	}
	obs := drive.Parse("c07.p", src)
	c.Eval(1)
	c.Nontrivial(src)
	cs := map[string]any{"source": fmt.Sprintf("%q", src)}
	if obs.Panic != nil || obs.Stderr != "" {
		c.Violate("literal-crash", fmt.Sprintf("parsing %q crashed: %v", src, obs.Panic), cs)
		return
	}
	if obs.Err != nil {
		c.Violate("wellformed-string-rejected", fmt.Sprintf("%q holds two well-formed literals but was rejected: %v", src, obs.Err), cs)
		return
	}
	stmts, err := gt.FromStmts(obs.Stmts)
	if err != nil || len(stmts) != 2 || stmts[0].K != gt.KAssign || stmts[1].K != gt.KAssign || len(stmts[0].RHS) != 1 || len(stmts[1].RHS) != 1 {
		c.Violate("string-literal-not-single-node", fmt.Sprintf("%q did not parse to two assignments (%v)", src, err), cs)
		return
	}
	for j, want := range []string{w1, w2} {
		if got := stmts[j].RHS[0].S; got != want {
			c.Violate("string-literal-wrong-value", fmt.Sprintf("in %q literal %d must denote %q, parsed value is %q", src, j+1, want, got), cs)
			return
		}
	}
}

// c07Prev is the last well-formed literal accepted (its node keeps whatever
// memory the parser gave the value).
var c07Prev struct {
	node     *gt.T
	want, sp string
}

// rhs parses `x = <sp>` and returns the single right-hand node.
// number-neighbours (exhaustive): a numeric literal with another token glued
// to it (no white space): the literal ends where its spelling ends - a hex
// digit e is not an exponent, a sign after an exponent's digits is an
// operator - and denotes its value with the neighbour as the other operand.
var c07NbLits = []string{"7", "30", "0x1e", "0xFE", "0XEE", "0xe", "0XE", "0x1f", "0x10", "0xabcde", "0x1E", "1e5", "1E5", "2.5", "1e+2", "1e-2", "1E+2", "0.5", "9223372036854775807", "0x7fffffffffffffff", "0x7ffffffffffffffe"}
var c07NbForms = []string{"L+1", "L-1", "L+0x1e", "L-0xE", "L*2", "L/2", "L%2", "L==1", "L<2", "L>=2", "L+x", "L-x", "L+1.5", "L-1e1", "1+L", "1-L", "x-L", "x+L", "0xe+L", "0xE-L", "1e1-L", "L+L", "L-L", "L +1", "L- 1", "L&&1", "L||0"}

func c07NumVal(sp string) *gt.T {
	if strings.HasPrefix(sp, "0x") || strings.HasPrefix(sp, "0X") {
		v, err := strconv.ParseInt(sp[2:], 16, 64)
		if err != nil {
			panic(err)
		}
		return gt.Int(v)
	}
	if v, err := strconv.ParseInt(sp, 10, 64); err == nil {
		return gt.Int(v)
	}
	f, err := strconv.ParseFloat(sp, 64)
	if err != nil {
		panic(err)
	}
	return gt.Float(f)
}

func c07Neighbour(i int64) (src string, want *gt.T) {
	form := c07NbForms[int(i)%len(c07NbForms)]
	lit := c07NbLits[int(i)/len(c07NbForms)]
	// split the form at its operator (the only run of operator bytes)
	k := strings.IndexAny(form, "+-*/%=<>&|")
	e := k
	for e < len(form) && strings.IndexByte("+-*/%=<>&|", form[e]) >= 0 {
		e++
	}
	op := form[k:e]
	operand := func(t string) *gt.T {
		t = strings.TrimSpace(t)
		switch t {
		case "L":
			return c07NumVal(lit)
		case "x":
			return gt.Ident("x")
		}
		return c07NumVal(t)
	}
	want = gt.Assign("=", gt.Ident("y"), gt.Bin(op, operand(form[:k]), operand(form[e:])))
	return "y = " + strings.ReplaceAll(form, "L", lit) + "\n", want
}

func (k c07) neighbours(c *mon.Ctx, i int64) {
	src, want := c07Neighbour(i)
	obs := drive.Parse("c07.p", src)
	c.Eval(1)
	c.Nontrivial(src)
	cs := map[string]any{"source": src}
	if obs.Panic != nil || obs.Stderr != "" {
		c.Violate("literal-crash", fmt.Sprintf("parsing %q crashed: %v", src, obs.Panic), cs)
		return
	}
	if obs.Err != nil {
		c.Violate("numeric-literal-rejected", fmt.Sprintf("%q is two valid literals around an operator but was rejected: %v", src, obs.Err), cs)
		return
	}
	stmts, err := gt.FromStmts(obs.Stmts)
	if err != nil || len(stmts) != 1 {
		c.Violate("numeric-literal-wrong-tree", fmt.Sprintf("%q did not parse to one statement (%v)", src, err), cs)
		return
	}
	if d := gt.Diff(want, stmts[0]); d != "" {
		c.Violate("numeric-literal-wrong-value", fmt.Sprintf("%q: expected %s, parsed as %s (%s)", src, want.Dump(), stmts[0].Dump(), d), cs)
	}
	c.Cell("number_cells", "neighbour")
}

func c07Parse(sp string) (node *gt.T, obs drive.ParseObs, note string) {
	src := "x = " + sp
	obs = drive.Parse("c07.p", src)
	if obs.Panic != nil || obs.Err != nil {
		return nil, obs, ""
	}
	stmts, err := gt.FromStmts(obs.Stmts)
	if err != nil {
		return nil, obs, "incomplete tree: " + err.Error()
	}
	if len(stmts) != 1 || stmts[0].K != gt.KAssign || len(stmts[0].RHS) != 1 || len(stmts[0].LHS) != 1 {
		return nil, obs, "not a single assignment"
	}
	return stmts[0].RHS[0], obs, ""
}

func (k c07) Run(c *mon.Ctx, workload string, i int64) {
	switch workload {
	case "two-literals":
		k.twoLiterals(c, i)
	case "literal-contexts":
		k.literalContexts(c, i)
	case "number-neighbours":
		k.neighbours(c, i)
	case "strings-exhaustive", "strings-random", "code-points", "code-point-pairs":
		sp, style := c07String(c, workload, i)
		if sp == "" || !utf8.ValidString(sp) {
			return
		}
		class, want := classifyString(sp, style)
		node, obs, note := c07Parse(sp)
		c.Eval(1)
		// the literal accepted by the PREVIOUS parse still denotes its value
		// (a tree stays valid after the parser has moved on to other texts)
		if c07Prev.node != nil {
			if c07Prev.node.S != c07Prev.want {
				c.Violate("literal-changed-by-a-later-parse", fmt.Sprintf("spelling %q parsed to %q; after parsing %q its node reads %q", c07Prev.sp, c07Prev.want, sp, c07Prev.node.S),
					map[string]any{"first": fmt.Sprintf("%q", c07Prev.sp), "then": fmt.Sprintf("%q", sp)})
			}
			c.Count("literals_rechecked_after_the_next_parse", 1)
			c07Prev.node = nil
		}
		if strings.ContainsAny(sp[1:len(sp)-1], "\\\"'`") || len(sp) != utf8.RuneCountInString(sp) {
			c.Nontrivial(sp)
		}
		c.Cell("string_cells", fmt.Sprintf("style %s / %s", style, []string{"well-formed", "malformed", "ambiguous"}[class]))
		cs := map[string]any{"spelling": fmt.Sprintf("%q", sp), "source": "x = " + sp}
		if obs.Panic != nil || obs.Stderr != "" {
			c.Violate("literal-crash", fmt.Sprintf("parsing x = %q crashed: %v %s", sp, obs.Panic, firstN(obs.Stderr, 8)), cs)
			return
		}
		wantKind := gt.KStr
		if style == "`" {
			wantKind = gt.KIdent
		}
		switch class {
		case litWell:
			switch {
			case obs.Err != nil:
				c.Violate("wellformed-string-rejected", fmt.Sprintf("spelling %q denotes %q but was rejected: %v", sp, want, obs.Err), cs)
			case node == nil:
				c.Violate("string-literal-not-single-node", fmt.Sprintf("spelling %q: %s", sp, note), cs)
			case node.K != wantKind:
				c.Violate("string-literal-wrong-kind", fmt.Sprintf("spelling %q parsed as %s", sp, node.Dump()), cs)
			case node.S != want:
				c.Violate("string-literal-wrong-value", fmt.Sprintf("spelling %q must denote %q, parsed value is %q", sp, want, node.S), cs)
			default:
				c07Prev.node, c07Prev.want, c07Prev.sp = node, want, sp
			}
			if c.WantSample() && strings.Contains(sp, "\\") && obs.Err == nil && node != nil {
				c.Sample(map[string]any{"spelling": fmt.Sprintf("%q", sp), "parsed_value": fmt.Sprintf("%q", node.S), "oracle": fmt.Sprintf("%q", want)})
			}
		case litMalformed:
			if obs.Err == nil {
				got := "<no single node>"
				if node != nil {
					got = node.Dump()
				}
				c.Violate("malformed-string-accepted", fmt.Sprintf("spelling %q is malformed but was accepted as %s", sp, got), cs)
			}
		}
		// the same spelling in company: after a back-quoted identifier and an
		// escaped string earlier in the SAME source it denotes the same value,
		// or is rejected just the same
		if class != litAmbiguous {
			src2 := "`k w` = 1\nq = \"a\\tb\"\nx = " + sp
			o2 := drive.Parse("c07.p", src2)
			c.Eval(1)
			cs2 := map[string]any{"spelling": fmt.Sprintf("%q", sp), "source": src2}
			switch {
			case o2.Panic != nil || o2.Stderr != "":
				c.Violate("literal-crash", fmt.Sprintf("parsing %q crashed: %v", src2, o2.Panic), cs2)
			case class == litMalformed && o2.Err == nil:
				c.Violate("malformed-string-accepted", fmt.Sprintf("spelling %q is malformed (and rejected on its own) but accepted after a back-quoted identifier and a string: %q", sp, src2), cs2)
			case class == litWell && o2.Err != nil:
				c.Violate("wellformed-string-rejected", fmt.Sprintf("spelling %q denotes %q but is rejected after a back-quoted identifier and a string: %v", sp, want, o2.Err), cs2)
			case class == litWell:
				st, err := gt.FromStmts(o2.Stmts)
				if err != nil || len(st) != 3 || st[2].K != gt.KAssign || len(st[2].RHS) != 1 || st[2].RHS[0].K != wantKind || st[2].RHS[0].S != want {
					c.Violate("string-literal-wrong-value", fmt.Sprintf("spelling %q must denote %q also as the third statement of %q", sp, want, src2), cs2)
				}
			}
		}
	case "ints":
		sp := c07IntList[i]
		c07Number(c, sp)
	case "floats":
		bits := c.R.Uint64()
		f := math.Float64frombits(bits)
		if math.IsNaN(f) || math.IsInf(f, 0) {
			f = float64(c.R.Int63()) / 3
		}
		a := math.Abs(f)
		forms := []string{strconv.FormatFloat(a, 'e', -1, 64), strconv.FormatFloat(a, 'g', -1, 64), strconv.FormatFloat(a, 'E', 20, 64)}
		if a < 1e40 && a > 1e-40 {
			forms = append(forms, strconv.FormatFloat(a, 'f', -1, 64), strconv.FormatFloat(a, 'f', 30, 64))
		}
		sign := []string{"", "-", "+"}[c.R.Intn(3)]
		for _, s := range forms {
			c07Number(c, sign+s)
		}
	case "keywords":
		sp := c07Keywords[i]
		node, obs, note := c07Parse(sp)
		c.Eval(1)
		c.Nontrivial(sp)
		cs := map[string]any{"spelling": sp}
		low := strings.ToLower(sp)
		switch {
		case obs.Panic != nil || obs.Stderr != "":
			c.Violate("literal-crash", fmt.Sprintf("parsing x = %s crashed", sp), cs)
		case obs.Err != nil || node == nil:
			c.Violate("keyword-not-recognised", fmt.Sprintf("%s: %v %s", sp, obs.Err, note), cs)
		case (low == "true" || low == "false") && (node.K != gt.KBool || node.B != (low == "true")):
			c.Violate("keyword-wrong-value", fmt.Sprintf("%s parsed as %s", sp, node.Dump()), cs)
		case (low == "nil" || low == "null") && node.K != gt.KNil:
			c.Violate("keyword-wrong-value", fmt.Sprintf("%s parsed as %s", sp, node.Dump()), cs)
		}
	}
}

// c07Number checks one numeric spelling (optional sign, then decimal / hex
// integer or decimal float).
func c07Number(c *mon.Ctx, sp string) {
	body := strings.TrimLeft(sp, "+-")
	neg := strings.HasPrefix(sp, "-")
	node, obs, note := c07Parse(sp)
	c.Eval(1)
	c.Nontrivial(sp)
	cs := map[string]any{"spelling": sp}
	if obs.Panic != nil || obs.Stderr != "" {
		c.Violate("literal-crash", fmt.Sprintf("parsing x = %s crashed", sp), cs)
		return
	}
	isHex := strings.HasPrefix(body, "0x") || strings.HasPrefix(body, "0X")
	var wantInt *int64
	var wantF float64
	if isHex {
		b, ok := new(big.Int).SetString(body[2:], 16)
		if !ok {
			return
		}
		if !b.IsInt64() {
			c.Count("ambiguous_hex_above_int64", 1)
			return // outside what the documents define
		}
		v := b.Int64()
		wantInt = &v
	} else if len(body) > 1 && body[0] == '0' && body[1] >= '0' && body[1] <= '9' {
		c.Count("ambiguous_leading_zero", 1)
		return
	} else if b, ok := new(big.Int).SetString(body, 10); ok && b.IsInt64() {
		v := b.Int64()
		wantInt = &v
	} else {
		f, err := strconv.ParseFloat(body, 64)
		if err != nil {
			c.Count("float_spelling_out_of_range", 1)
			return
		}
		wantF = f
	}
	if obs.Err != nil || node == nil {
		c.Violate("numeric-literal-rejected", fmt.Sprintf("%s: %v %s", sp, obs.Err, note), cs)
		return
	}
	if wantInt != nil {
		v := *wantInt
		if neg {
			v = -v
		}
		if node.K != gt.KInt || node.I != v {
			c.Violate("integer-literal-wrong-value", fmt.Sprintf("%s must denote the integer %d, parsed as %s", sp, v, node.Dump()), cs)
		}
		c.Cell("number_cells", "int")
		return
	}
	if neg {
		wantF = -wantF
	}
	if node.K != gt.KFloat || math.Float64bits(node.F) != math.Float64bits(wantF) {
		c.Violate("float-literal-wrong-value", fmt.Sprintf("%s must denote the float %v (bits %016x), parsed as %s", sp, wantF, math.Float64bits(wantF), node.Dump()), cs)
	}
	c.Cell("number_cells", "float")
	if c.WantSample() && len(sp) < 30 {
		c.Sample(map[string]any{"spelling": sp, "parsed": node.Dump()})
	}
}

// literal-contexts (exhaustive): a literal denotes the same value wherever it
// stands and whatever the lexer has read before it. Every spelling of the
// table is parsed alone (`x = L`, node N) and in each context; the expected
// tree of the context is the tree of the same text with a plain identifier
// in place of L, with N substituted for that identifier.
var c07CtxLits = []string{"true", "TRUE", "True", "tRuE", "false", "FALSE", "False", "nil", "NIL", "Nil", "null", "NULL", "Null", "nUlL",
	"0", "7", "9223372036854775807", "0x1f", "0X1F", "1.5", "1e3", "2.5E-3", "0.0",
	"\"s\"", "'s'", "\"a\\tb\"", "'q\\'q'", "\"\"\"raw \\n\"\"\"", "'''r\n2'''", "\"é世\"", "\"\"", "`bq`", "`b q`", "\"true\"", "'nil'"}
var c07Ctxs = []string{
	"x = @", "y = a.`b c`\nx = @", "y = a.`b c` == @", "x = [a.`q`, @]", "x = a.b\ny = @", "x = a[0]\ny = @", "a.b.`c d`.e = 1\nx = @", "x = a.`b`\n\n# c\n\ny = @",
	"f(a = @)", "f(@, b = @)", "f(a.`k`, @)", "x = {\"k\": @}", "x = {\"k\": [@, {\"j\": @}]}", "if @ { y = @ }", "if a { } elif @ { } else { y = @ }",
	"for i = @; i < @; i = i + @ { y = @ }", "for e in [@] { y = @ }", "x = a[1:2]\ny = @", "x = a[@]", "a[@] = @",
	"# comment true nil \"x\n x = @", "x = 1 # c `\ny = @ # tail '", "x = \"\"\"raw\nmulti\"\"\"\ny = @", "x = 'it\\'s'\ny = @", "x = \"esc\\\"\"\ny = @",
	"x = 0x1F\ny = @", "x = 1e5\ny = @", "x = 2.5\ny = @", "x = @\r\ny = @\r\n", "x = (@)", "x = !@", "x = @ in [@]", "x = @ && @ || @", "x = @ == @", "x = a + @ * @",
	"`odd name` = @", "x = `odd name` + @", "x = a.`m`\ny = `n`\nz = @", "x = a.b.c\nz = @", "x = f(a.`m`)\nz = @", "x = a.`m`[0]\nz = @", "x = a.`m` ; z = @",
	"x = true\ny = @", "x = nil\ny = @", "x = NULL\ny = [@, @]", "if a.`m` { z = @ }", "for e in a.`m` { z = @ }", "x = a.`m` + 1\nz = @", "x = [a.`m`]\nz = [@]",
}

const c07Sentinel = "zzq"

func (k c07) literalContexts(c *mon.Ctx, i int64) {
	lit := c07CtxLits[int(i)%len(c07CtxLits)]
	ctx := c07Ctxs[int(i)/len(c07CtxLits)]
	src := strings.ReplaceAll(ctx, "@", lit)
	cs := map[string]any{"literal": lit, "context": ctx, "source": src}
	alone, o0, _ := c07Parse(lit)
	if alone == nil {
		c.Violate("wellformed-literal-rejected", fmt.Sprintf("x = %s was rejected: %v %v", lit, o0.Err, o0.Panic), cs)
		return
	}
	os := drive.Parse("c07.p", strings.ReplaceAll(ctx, "@", c07Sentinel))
	if os.Err != nil || os.Panic != nil {
		c.Count("contexts_rejected_with_an_identifier_in_place", 1)
		c.Cell("contexts_rejected_with_an_identifier", ctx)
		return
	}
	want, err := gt.FromStmts(os.Stmts)
	if err != nil {
		panic(err)
	}
	n := 0
	for _, sl := range gt.ExprSlots(want) {
		if g := sl.Get(); g != nil && g.K == gt.KIdent && g.S == c07Sentinel {
			sl.Set(gt.Clone(alone))
			n++
		}
	}
	if n != strings.Count(ctx, "@") {
		// a place the slot visitor does not reach: no claim
		c.Count("contexts_with_unreachable_places", 1)
		c.Cell("contexts_with_unreachable_places", ctx)
		return
	}
	o := drive.Parse("c07.p", src)
	c.Eval(1)
	c.Nontrivial(src)
	c.Cell("literal_contexts", ctx)
	switch {
	case o.Panic != nil || o.Stderr != "":
		c.Violate("literal-crash", fmt.Sprintf("parsing %q crashed: %v", src, o.Panic), cs)
	case o.Err != nil:
		c.Violate("wellformed-literal-rejected", fmt.Sprintf("%s is accepted alone and an identifier is accepted in its place, but %q was rejected: %v", lit, src, o.Err), cs)
	default:
		got, err := gt.FromStmts(o.Stmts)
		if err != nil {
			c.Violate("literal-wrong-tree", fmt.Sprintf("%q: incomplete tree: %v", src, err), cs)
			return
		}
		if d := gt.DiffStmts(want, got); d != "" {
			c.Violate("literal-denotes-something-else-in-context", fmt.Sprintf("alone, %s parses to %s; in %q the tree differs from the expected one: %s", lit, alone.Dump(), src, d), cs)
		}
	}
}
