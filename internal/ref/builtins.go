package ref

import (
	"verif/internal/gt"
)

// keyName extracts the key a builtin's first argument designates:
// identifier, attribute expression (its dotted text) or string literal.
func keyName(n *gt.T) (string, bool) {
	switch n.K {
	case gt.KIdent, gt.KStr:
		return n.S, true
	case gt.KAttr:
		return attrText(n), true
	}
	return "", false
}

func attrText(n *gt.T) string {
	switch n.K {
	case gt.KIdent:
		return n.S
	case gt.KAttr:
		return attrText(n.Kids[0]) + "." + attrText(n.Kids[1])
	case gt.KIndex:
		s := n.S
		for _, k := range n.Kids {
			s += "[" + gt.PrintExpr(k) + "]"
		}
		return s
	}
	unspec("attribute text of " + n.K.String())
	return ""
}

func pkey(k string) string {
	if k == "_" {
		return "message"
	}
	return k
}

// PointFuncs returns the model of the builtins that only move values
// between variables and the point (the full set is in builtins_c11.go).
func PointFuncs() map[string]Builtin {
	return map[string]Builtin{
		"add_key": modelAddKey,
		"get_key": modelGetKey,
	}
}

func modelAddKey(in *Interp, c *gt.T) (Val, *RunErr) {
	if len(c.Kids) < 1 || len(c.Kids) > 2 {
		unspec("add_key arity")
	}
	k, ok := keyName(c.Kids[0])
	if !ok {
		unspec("add_key key shape")
	}
	if in.Point == nil {
		unspec("add_key without a point")
	}
	if len(c.Kids) == 1 {
		v, found := in.Get(k)
		if !found {
			return Void, nil
		}
		in.Point.Set(pkey(k), v)
		return Void, nil
	}
	v, err := in.eval(c.Kids[1])
	if err != nil {
		// frozen de-facto: add_key appends its own call site to an error
		// raised while evaluating its value argument
		err.Sites = append(err.Sites, Site{Script: in.Name, Call: c})
		return Void, err
	}
	in.Point.Set(pkey(k), v)
	return Void, nil
}

func modelGetKey(in *Interp, c *gt.T) (Val, *RunErr) {
	if len(c.Kids) != 1 {
		unspec("get_key arity")
	}
	k, ok := keyName(c.Kids[0])
	if !ok {
		unspec("get_key key shape")
	}
	if in.Point == nil {
		return NilV, nil
	}
	v, found := in.Point.Get(pkey(k))
	if !found {
		return NilV, nil
	}
	return v, nil
}

// Merge returns a function table holding all given tables.
func Merge(ts ...map[string]Builtin) map[string]Builtin {
	out := map[string]Builtin{}
	for _, t := range ts {
		for k, v := range t {
			out[k] = v
		}
	}
	return out
}
