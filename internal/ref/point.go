package ref

import (
	"encoding/json"
	"sort"
	"strconv"
	"time"
)

// Point is the model of the input/output point.
type Point struct {
	Measurement string
	Tags        map[string]string
	Fields      map[string]any // nil, bool, int64, float64, string
	Time        time.Time
}

func NewPoint(m string, tags map[string]string, fields map[string]any, t time.Time) *Point {
	p := &Point{Measurement: m, Tags: map[string]string{}, Fields: map[string]any{}, Time: t}
	for k, v := range tags {
		p.Tags[k] = v
	}
	for k, v := range fields {
		p.Fields[k] = v
	}
	return p
}

func (p *Point) Clone() *Point { return NewPoint(p.Measurement, p.Tags, p.Fields, p.Time) }

// Get reads a key: a field wins over nothing; tags read as strings.
func (p *Point) Get(k string) (Val, bool) {
	if v, ok := p.Fields[k]; ok {
		return Of(v), true
	}
	if v, ok := p.Tags[k]; ok {
		return Val{v, TStr}, true
	}
	return NilV, false
}

func (p *Point) IsTag(k string) bool { _, ok := p.Tags[k]; return ok }

// Str is the "string form" of a value used by the string builtins and by
// tag conversion: scalars via their decimal / Go formatting, containers as
// JSON text, nil as "".
func Str(v Val) (string, bool) {
	switch x := v.V.(type) {
	case nil:
		if v.T == TNil {
			return "", true
		}
		return "", false
	case bool:
		return strconv.FormatBool(x), true
	case int64:
		return strconv.FormatInt(x, 10), true
	case float64:
		return strconv.FormatFloat(x, 'f', -1, 64), true
	case string:
		return x, true
	case []any, map[string]any:
		b, err := json.Marshal(x)
		if err != nil {
			return "", false
		}
		return string(b), true
	}
	return "", false
}

// SetField stores v under k as a field unless k is already a tag, in which
// case the tag is overwritten with the string form. Lists and maps are
// stored as their JSON text (a snapshot).
func (p *Point) Set(k string, v Val) {
	if _, isTag := p.Tags[k]; isTag {
		if s, ok := Str(v); ok {
			p.Tags[k] = s
		}
		return
	}
	switch v.T {
	case TList, TMap:
		if s, ok := Str(v); ok {
			p.Fields[k] = s
		} else {
			p.Fields[k] = nil
		}
	case TNil, TVoid, TInvalid:
		p.Fields[k] = nil
	default:
		p.Fields[k] = v.V
	}
}

// SetTag stores the string form of v under k as a tag (moving a field).
func (p *Point) SetTag(k string, v Val) {
	delete(p.Fields, k)
	s, _ := Str(v)
	p.Tags[k] = s
}

func (p *Point) Delete(k string) {
	delete(p.Fields, k)
	delete(p.Tags, k)
}

// Show renders the point canonically.
func (p *Point) Show() string {
	if p == nil {
		return "<no point>"
	}
	var ks []string
	for k := range p.Tags {
		ks = append(ks, k)
	}
	sort.Strings(ks)
	s := "m=" + strconv.Quote(p.Measurement) + " tags{"
	for _, k := range ks {
		s += k + "=" + strconv.Quote(p.Tags[k]) + " "
	}
	s += "} fields{"
	ks = ks[:0]
	for k := range p.Fields {
		ks = append(ks, k)
	}
	sort.Strings(ks)
	for _, k := range ks {
		s += k + "=" + Show(p.Fields[k]) + " "
	}
	return s + "} t=" + strconv.FormatInt(p.Time.UnixNano(), 10)
}
