package main

import (
	"fmt"
	"strings"

	"verif/internal/drive"
	"verif/internal/gen"
	"verif/internal/gt"
	"verif/internal/mon"
	"verif/internal/ref"
)

// C18: the v2 interpreter follows the language semantics and never reuses
// stale values.

type c18 struct{}

func init() {
	register(c18{})
	mon.Assumptions["C18"] = []string{
		"reference interpreter in v2 flavour: an undefined name is an error, the whole right side of a multi-assignment is evaluated before assigning, multi-value calls spread over several targets, a construct without a value in a value position is an error",
		"void() is a host function that does not touch the result registers; probes that evaluate their own arguments consume (reset) the register afterwards",
		"nil-valued slice bounds and the other unspecified corners listed for C03 are not compared",
	}
}

func (c18) ID() string             { return "C18" }
func (c18) DeathIsViolation() bool { return true }
func (c18) HangIsViolation() bool  { return false }
func (c18) Rule() string {
	return "programs: seeded programs over expressions, collections, slices, control flow, scoping and multi-assignment (reading only names that are certainly defined) run on the real v2 interpreter and on the reference interpreter, traces compared; where a program uses no v2-only construct it is also run on the real v1 interpreter and the two real traces are compared; stale (exhaustive): every value position (conditions, operands, arguments, elements, keys, slice bounds, assignment sources, iterables) x every no-value construct (void(), attribute expression, multi-value call) x every way of leaving a recognisable value (777) in the register beforehand: the run must end in an error before any later effect. Non-trivial = a no-value construct in a value position, a multi-assignment, or at least 3 probe events. Distinct = distinct program texts."
}

type stalePos struct {
	Name  string
	Build func(nv *gt.T) []*gt.T
	// Attr: the grammar admits an attribute expression at this position
	Attr bool
}

func lst() *gt.T { return gt.Assign("=", gt.Ident("l"), gt.List(gt.Int(1), gt.Int(2), gt.Int(3))) }

var c18Positions = []stalePos{
	{"if-cond", func(nv *gt.T) []*gt.T {
		return []*gt.T{gt.If(nv, gt.Call("p", gt.Str("then"))).ElseDo(gt.Call("p", gt.Str("else")))}
	}, true},
	{"elif-cond", func(nv *gt.T) []*gt.T {
		return []*gt.T{gt.If(gt.Bool(false), gt.Call("p", gt.Str("then"))).Elif(nv, gt.Call("p", gt.Str("elif"))).ElseDo(gt.Call("p", gt.Str("else")))}
	}, true},
	{"for-cond", func(nv *gt.T) []*gt.T {
		return []*gt.T{gt.For(gt.Assign("=", gt.Ident("i"), gt.Int(0)), nv, gt.Assign("=", gt.Ident("i"), gt.Bin("+", gt.Ident("i"), gt.Int(1))), gt.Call("p", gt.Str("body")), gt.Break())}
	}, true},
	{"arith-left", func(nv *gt.T) []*gt.T { return []*gt.T{gt.Call("p", gt.Bin("+", nv, gt.Int(1)))} }, true},
	{"arith-right", func(nv *gt.T) []*gt.T { return []*gt.T{gt.Call("p", gt.Bin("*", gt.Int(2), nv))} }, true},
	{"eq-left", func(nv *gt.T) []*gt.T { return []*gt.T{gt.Call("p", gt.Bin("==", nv, gt.Int(777)))} }, true},
	{"eq-right", func(nv *gt.T) []*gt.T { return []*gt.T{gt.Call("p", gt.Bin("!=", gt.Int(5), nv))} }, true},
	{"lt-left", func(nv *gt.T) []*gt.T { return []*gt.T{gt.Call("p", gt.Bin("<", nv, gt.Int(1000)))} }, true},
	{"and-right", func(nv *gt.T) []*gt.T { return []*gt.T{gt.Call("p", gt.Bin("&&", gt.Bool(true), nv))} }, true},
	{"or-left", func(nv *gt.T) []*gt.T { return []*gt.T{gt.Call("p", gt.Bin("||", nv, gt.Bool(true)))} }, true},
	{"in-left", func(nv *gt.T) []*gt.T { return []*gt.T{gt.Call("p", gt.Bin("in", nv, gt.List(gt.Int(777))))} }, true},
	{"in-right", func(nv *gt.T) []*gt.T { return []*gt.T{gt.Call("p", gt.Bin("in", gt.Int(1), nv))} }, true},
	{"unary-minus", func(nv *gt.T) []*gt.T { return []*gt.T{gt.Call("p", gt.Unary("-", nv))} }, true},
	{"unary-not", func(nv *gt.T) []*gt.T { return []*gt.T{gt.Call("p", gt.Unary("!", nv))} }, true},
	{"paren", func(nv *gt.T) []*gt.T { return []*gt.T{gt.Call("p", gt.Paren(nv))} }, true},
	{"arg-first", func(nv *gt.T) []*gt.T { return []*gt.T{gt.Call("p", nv)} }, true},
	{"arg-second", func(nv *gt.T) []*gt.T { return []*gt.T{gt.Call("p", gt.Int(1), nv)} }, true},
	{"t-arg", func(nv *gt.T) []*gt.T { return []*gt.T{gt.Call("p", gt.Call("t", gt.Int(1), nv))} }, true},
	{"list-elem", func(nv *gt.T) []*gt.T { return []*gt.T{gt.Call("p", gt.List(gt.Int(1), nv))} }, true},
	{"map-value", func(nv *gt.T) []*gt.T { return []*gt.T{gt.Call("p", gt.Map(gt.Str("k"), nv))} }, true},
	{"map-key", func(nv *gt.T) []*gt.T { return []*gt.T{gt.Call("p", gt.Map(nv, gt.Int(1)))} }, true},
	{"index-key", func(nv *gt.T) []*gt.T { return []*gt.T{lst(), gt.Int(1), gt.Call("p", gt.Index("l", nv))} }, true},
	{"index-assign-key", func(nv *gt.T) []*gt.T {
		return []*gt.T{lst(), gt.Int(1), gt.Assign("=", gt.Index("l", nv), gt.Int(9)), gt.Call("p", gt.Ident("l"))}
	}, true},
	{"slice-start", func(nv *gt.T) []*gt.T {
		return []*gt.T{lst(), gt.Int(1), gt.Call("p", &gt.T{K: gt.KSlice, Kids: []*gt.T{gt.Ident("l")}, Start: nv})}
	}, true},
	{"slice-end", func(nv *gt.T) []*gt.T {
		return []*gt.T{lst(), gt.Int(1), gt.Call("p", &gt.T{K: gt.KSlice, Kids: []*gt.T{gt.Ident("l")}, End: nv})}
	}, true},
	{"slice-step", func(nv *gt.T) []*gt.T {
		return []*gt.T{lst(), gt.Int(1), gt.Call("p", &gt.T{K: gt.KSlice, Kids: []*gt.T{gt.Ident("l")}, Step: nv, Colon2: true})}
	}, true},
	{"slice-object", func(nv *gt.T) []*gt.T {
		return []*gt.T{gt.Str("abcdef"), gt.Call("p", &gt.T{K: gt.KSlice, Kids: []*gt.T{nv}, Start: gt.Int(0), End: gt.Int(2)})}
	}, false},
	{"assign-source", func(nv *gt.T) []*gt.T { return []*gt.T{gt.Assign("=", gt.Ident("y"), nv), gt.Call("p", gt.Ident("y"))} }, true},
	{"compound-source", func(nv *gt.T) []*gt.T {
		return []*gt.T{gt.Assign("=", gt.Ident("y"), gt.Int(1)), gt.Assign("+=", gt.Ident("y"), nv), gt.Call("p", gt.Ident("y"))}
	}, true},
	{"multi-assign-source", func(nv *gt.T) []*gt.T {
		return []*gt.T{gt.MultiAssign([]*gt.T{gt.Ident("y"), gt.Ident("z")}, []*gt.T{gt.Int(1), nv}), gt.Call("p", gt.Ident("y"), gt.Ident("z"))}
	}, true},
	{"index-assign-source", func(nv *gt.T) []*gt.T {
		return []*gt.T{lst(), gt.Int(1), gt.Assign("=", gt.Index("l", gt.Int(0)), nv), gt.Call("p", gt.Ident("l"))}
	}, true},
	{"forin-iterable", func(nv *gt.T) []*gt.T {
		return []*gt.T{gt.Str("ab"), gt.ForIn("e", nv, gt.Call("p", gt.Ident("e")))}
	}, true},
}

type staleNV struct {
	Name string
	Make func() *gt.T
	Attr bool
}

var c18NVs = []staleNV{
	{"void()", func() *gt.T { return gt.Call("void") }, false},
	{"attr", func() *gt.T { return gt.Attr(gt.Ident("q"), gt.Ident("r")) }, true},
	{"multi()", func() *gt.T { return gt.Call("multi") }, false},
	// host functions with declared parameters that return nothing: their
	// arguments go through the library's GetParam
	{"sink(1)", func() *gt.T { return gt.Call("sink", gt.Int(1)) }, false},
	{"sink(1, 2)", func() *gt.T { return gt.Call("sink", gt.Int(1), gt.Str("two")) }, false},
	{"vsink()", func() *gt.T { return gt.Call("vsink") }, false},
	{"vsink(1)", func() *gt.T { return gt.Call("vsink", gt.Int(1)) }, false},
	{"vsink(1, 2, 3)", func() *gt.T { return gt.Call("vsink", gt.Int(1), gt.Bool(true), gt.List(gt.Int(3))) }, false},
}

var c18Pre = []struct {
	Name string
	Make func() []*gt.T
}{
	{"value-statement", func() []*gt.T { return []*gt.T{gt.Int(777)} }},
	{"assignment", func() []*gt.T { return []*gt.T{gt.Assign("=", gt.Ident("x"), gt.Int(777))} }},
	{"t-call", func() []*gt.T { return []*gt.T{gt.Call("t", gt.Int(0), gt.Int(777))} }},
	{"true-literal", func() []*gt.T { return []*gt.T{gt.Bool(true)} }},
	{"list-literal", func() []*gt.T { return []*gt.T{gt.Assign("=", gt.Ident("x"), gt.List(gt.Int(777)))} }},
}

func (c18) Plan(tier string, seed int64) []mon.Workload {
	n := int64(4000)
	if tier == "thorough" {
		n = 200000
	}
	return []mon.Workload{
		{Name: "stale", N: int64(len(c18Positions) * len(c18NVs) * len(c18Pre)), Exhaustive: true},
		{Name: "programs", N: n},
		{Name: "scope", N: int64(len(c18Loops) * len(c18Exits) * len(c18Wraps) * len(c18Tails) * c18Depths), Exhaustive: true},
		{Name: "map-iteration", N: n / 10},
		{Name: "slice-copy", N: int64(len(c18SliceForms) * len(c18SliceWrites)), Exhaustive: true},
		{Name: "literal-fresh", N: int64(len(c18Literals) * len(c18LitWrites) * 2), Exhaustive: true},
		{Name: "many-locals", N: manyLocalsN(), Exhaustive: true},
		{Name: "stale-lookup", N: staleLookupN(), Exhaustive: true},
		{Name: "computed-keys", N: int64(len(c04KeyStmts) * len(c04KeyWraps)), Exhaustive: true},
		{Name: "operator-trees", N: n / 2},
		{Name: "deep-run", N: int64(len(c01DeepKinds) * len(c01DeepLevels)), Exhaustive: true},
	}
}

// scope (exhaustive): loops left normally / by break / by continue, at top
// level, inside an if, inside an outer loop, twice in a row - followed by a
// read of a name that may or may not still be in scope. In v2 reading a name
// that went out of scope is an error; a stale value is the violation.
var c18Loops = []string{
	"for i = 0; i < 3; i = i + 1 {\n  b = i\n  EXIT\n  c = b\n}\n",
	"for i = 0; ; i = i + 1 {\n  if i >= 3 { break }\n  b = i\n  EXIT\n  c = b\n}\n",
	"for i in [0, 1, 2] {\n  b = i\n  EXIT\n  c = b\n}\n",
	"for i in \"012\" {\n  b = i\n  EXIT\n  c = b\n}\n",
	"k = 0\nfor ; k < 3; {\n  k = k + 1\n  b = k\n  i = k\n  EXIT\n  c = b\n}\n",
	// no init clause, the loop variable is first created by the loop clause
	"k = 0\nfor ; k < 3; i = k {\n  k = k + 1\n  b = k\n  EXIT\n  c = b\n}\n",
	"k = 0\nfor ; ; i = k {\n  k = k + 1\n  if k > 3 { break }\n  b = k\n  EXIT\n  c = b\n}\n",
}
var c18Exits = []string{"p(\"body\")", "if b == 1 || b == \"1\" { break }", "if b == 1 || b == \"1\" { continue }", "if true { if b == 0 || b == \"0\" { break } }"}
var c18Wraps = []string{"%s", "if true {\n%s}\n", "for j = 0; j < 2; j = j + 1 {\n  READ\n%s}\n", "if true {\n%s%s  READ\n}\n", "o = 1\n%sif true {\n  o = 2\n}\n"}
var c18Tails = []string{"p(i)", "p(b)", "p(c)", "p(j)", "p(o)", "p(\"ok\")", "b = 5\np(b)",
	// the read sits in a NEW scope opened right after the loop, at the same depth
	"if true { p(i) }", "if true { p(b) }", "for z in [1] { p(i) }", "for ; ; {\n  p(c)\n  break\n}", "if i == 3 { p(\"stale\") }"}

// every scope program again inside 0..6 enclosing blocks (frames of the
// scope stack may be pooled or inlined up to some depth)
const c18Depths = 7

var c18DepthWraps = []string{"if true {\n", "for q%d = 0; q%d < 1; q%d = q%d + 1 {\n", "for r%d in [1] {\n"}

func c18Scope(i int64) []*gt.T {
	depth := int(i % c18Depths)
	i /= c18Depths
	ti := int(i % int64(len(c18Tails)))
	i /= int64(len(c18Tails))
	wi := int(i % int64(len(c18Wraps)))
	i /= int64(len(c18Wraps))
	ei := int(i % int64(len(c18Exits)))
	li := int(i / int64(len(c18Exits)))
	loop := strings.ReplaceAll(c18Loops[li], "EXIT", c18Exits[ei])
	read := "if j == 1 { " + c18Tails[ti] + " }"
	text := strings.ReplaceAll(strings.ReplaceAll(c18Wraps[wi], "%s", loop), "READ", read) + c18Tails[ti] + "\np(\"end\")\n"
	for d := depth; d > 0; d-- {
		text = strings.ReplaceAll(c18DepthWraps[(d+li)%len(c18DepthWraps)], "%d", fmt.Sprint(d)) + text + "}\n"
	}
	o := drive.Parse("scope", text)
	if o.Err != nil {
		panic("c18: scope program does not parse: " + text + ": " + o.Err.Error())
	}
	l, err := gt.FromStmts(o.Stmts)
	if err != nil {
		panic(err)
	}
	return gt.CloneStmts(l)
}

// slice-copy (exhaustive): a slice of a list is a new list. Every slice
// spelling x a write through the slice or through the source afterwards; both
// are printed, and the whole thing is repeated in a loop on a snapshot.
var c18SliceForms = []string{"[1:3]", "[:2]", "[:]", "[0:4:1]", "[::1]", "[::2]", "[::-1]", "[-3:]", "[1:]", "[0:4]", "[:-1]", "[2:2]", "[3:1:-1]"}
var c18SliceWrites = []string{"y[0] = 99", "y[-1] = 98", "x[0] = 97", "x[1] += 10", "x[-1] = [96]", "y[0] += 1\nx[2] = nil",
	"for i = 0; i < 2; i = i + 1 {\n  s = x[:]\n  x[i] = 50 + i\n  p(s)\n}", "z = y[:]\nz[0] = 95\ny[-1] = 94"}

func c18SliceCopy(i int64) []*gt.T {
	form := c18SliceForms[int(i)%len(c18SliceForms)]
	write := c18SliceWrites[int(i)/len(c18SliceForms)]
	text := "x = [1, 2, 3, 4]\ny = x" + form + "\nz = []\np(x, y)\nif len(y) > 0 {\n" + write + "\n}\np(x, y, z)\n"
	o := drive.Parse("slice-copy", text)
	if o.Err != nil {
		panic("c18: slice-copy program does not parse: " + text + ": " + o.Err.Error())
	}
	l, err := gt.FromStmts(o.Stmts)
	if err != nil {
		panic(err)
	}
	return gt.CloneStmts(l)
}

// literal-fresh (exhaustive): a list / map literal evaluated again is a new
// value at every depth, also when it is made of constants only. Each literal
// is evaluated three times (loop, or a function-like repetition through two
// statements) with an in-place write at depth 1..3 in between.
var c18Literals = []string{"[[0, 0], [0, 0]]", "[{\"n\": 0}, \"x\"]", "{\"k\": [1, {\"d\": 0}]}", "[[[1]]]", "[1, 2]", "{\"a\": 1}", "[(1), [2, (3)]]", "[[], {}]", "[[0, z], [z]]"}
var c18LitWrites = []string{"g[0][1] = i + 1", "g[0][\"n\"] = \"a\"", "g[\"k\"][1][\"d\"] = i + 1", "g[0][0][0] += 5", "g[0] = 9", "g[\"a\"] += 1", "g[1][1] = [i]", "g[1][\"new\"] = i"}

func c18LiteralFresh(i int64) []*gt.T {
	loop := i%2 == 0
	i /= 2
	w := c18LitWrites[int(i)%len(c18LitWrites)]
	l := c18Literals[int(i)/len(c18LitWrites)]
	var text string
	if loop {
		text = "z = 7\nfor i = 0; i < 3; i = i + 1 {\n  g = " + l + "\n  p(g)\n  " + w + "\n  p(g)\n}\n"
	} else {
		text = "z = 7\ni = 0\ng = " + l + "\nh = g\n" + w + "\np(g, h)\ng = " + l + "\np(g, h)\n"
	}
	o := drive.Parse("literal-fresh", text)
	if o.Err != nil {
		panic("c18: literal-fresh program does not parse: " + text + ": " + o.Err.Error())
	}
	t, err := gt.FromStmts(o.Stmts)
	if err != nil {
		panic(err)
	}
	return gt.CloneStmts(t)
}

type c18Case struct {
	Stmts []*gt.T
	Cell  string
	Skip  bool
	Multi bool
}

func (c18) build(c *mon.Ctx, workload string, i int64) c18Case {
	if workload == "stale" {
		pre := c18Pre[i%int64(len(c18Pre))]
		i /= int64(len(c18Pre))
		nv := c18NVs[i%int64(len(c18NVs))]
		pos := c18Positions[i/int64(len(c18NVs))]
		if nv.Attr && !pos.Attr {
			return c18Case{Skip: true}
		}
		if nv.Name == "multi()" && pos.Name == "multi-assign-source" {
			// a multi-value call is legitimate there (count mismatch aside)
			return c18Case{Skip: true}
		}
		stmts := append(pre.Make(), pos.Build(nv.Make())...)
		stmts = append(stmts, gt.Call("p", gt.Str("after")))
		return c18Case{Stmts: stmts, Cell: pos.Name + " / " + nv.Name + " / " + pre.Name}
	}
	if workload == "scope" {
		return c18Case{Stmts: c18Scope(i), Cell: ""}
	}
	if workload == "slice-copy" {
		return c18Case{Stmts: c18SliceCopy(i), Cell: ""}
	}
	if workload == "literal-fresh" {
		return c18Case{Stmts: c18LiteralFresh(i), Cell: ""}
	}
	if workload == "many-locals" {
		return c18Case{Stmts: manyLocalsProgram(i), Cell: ""}
	}
	if workload == "stale-lookup" {
		return c18Case{Stmts: staleLookupProgram(i), Cell: "stale-lookup"}
	}
	if workload == "deep-run" {
		return c18Case{Stmts: c01DeepRun(i), Cell: ""}
	}
	if workload == "computed-keys" {
		return c18Case{Stmts: c04ComputedKeys(i).Stmts, Cell: ""}
	}
	if workload == "operator-trees" {
		// C02's expression trees (every leaf a probe, ill-typed operands
		// included) on the v2 interpreter: both operands are evaluated, left
		// to right, before an operator looks at their types
		return c18Case{Stmts: c02{}.build(c, "trees", i).Stmts, Cell: ""}
	}
	g := gen.NewProg(c.R)
	g.V2 = true
	g.Multi = true
	g.ReadUndefined = 10
	g.IllTyped = 60
	g.MaxDepth = 2 + c.R.Intn(2)
	g.Containers = c.R.Intn(2) == 0
	stmts := g.Program()
	if wr := c.Sub("wrap"); wr.Intn(6) == 0 {
		// one program in six runs 1..9 blocks deeper
		stmts = wrapDeep(stmts, 1+wr.Intn(9))
	}
	multi := false
	gt.WalkStmts(stmts, func(t *gt.T) {
		if t.K == gt.KAssign && len(t.LHS) > 1 {
			multi = true
		}
	})
	return c18Case{Stmts: stmts, Multi: multi}
}

func (k c18) Describe(c *mon.Ctx, workload string, i int64) any {
	if workload == "map-iteration" {
		return map[string]any{"source": buildMapIter(c.R).Src}
	}
	cs := k.build(c, workload, i)
	if cs.Skip {
		return "skipped combination"
	}
	return map[string]any{"source": gt.Print(gt.ParenthesizeStmts(cs.Stmts), nil), "cell": cs.Cell}
}

func (k c18) Run(c *mon.Ctx, workload string, i int64) {
	if workload == "map-iteration" {
		runMapIter(c, true)
		return
	}
	cs := k.build(c, workload, i)
	if cs.Skip {
		return
	}
	stmts := gt.ParenthesizeStmts(cs.Stmts)
	src := gt.Print(stmts, nil)
	const name = "c18.p"
	prog := &ref.Program{Scripts: map[string][]*gt.T{name: stmts}, Funcs: ref.ProbeFuncs(), V2: true}
	mo := ref.Run(prog, name, nil, modelBudget)
	info := map[string]any{"source": src, "cell": cs.Cell}
	if mo.TooBig {
		c.Count("skipped_too_big", 1)
		return
	}
	if mo.Unspecified == "" && (cs.Cell != "" || cs.Multi || len(mo.Events) >= 3) {
		c.Nontrivial(src)
	}
	if cs.Cell != "" {
		c.Cell("stale_cells", cs.Cell)
	}
	script, err := drive.LoadV2(name, src)
	c.Eval(1)
	if err != nil {
		if mo.Err != nil {
			return
		}
		c.Violate("valid-program-rejected", fmt.Sprintf("rejected at load: %v\n%s", err, src), info)
		return
	}
	ro := drive.RunV2(script, &drive.RunState{Budget: realBudget(mo.Shared.Steps)})
	switch {
	case mo.Unspecified != "":
		c.Count("not_compared_unspecified", 1)
		c.Cell("unspecified_reasons", mo.Unspecified)
	case mo.Shared.MapOrderDependent:
		c.Count("not_compared_map_order", 1)
	default:
		c.Count("compared", 1)
		if mo.Err != nil {
			c.Count("reference_says_error", 1)
		}
	}
	if r := compareRun(ro, mo, cmpOpts{V2: true}); r != nil {
		cl := r.Class
		if workload == "stale" {
			cl = "stale-value:" + r.Class
		}
		c.Violate(cl, fmt.Sprintf("%s\n--- program (v2)\n%s", r.Detail, src), info)
		return
	}
	if !againV2(c, script, name, src, mo, true, "", info) {
		return
	}
	// differential run on v1 where the languages coincide
	// (an undefined name is an error on v2 and reads nil on v1: the languages
	// do not coincide for such programs)
	undefinedRead := mo.Err != nil && strings.Contains(mo.Err.Msg, "is not defined")
	if workload == "programs" && !cs.Multi && !undefinedRead && mo.Unspecified == "" && !mo.Shared.MapOrderDependent && ro.Panic == nil && !ro.Budget {
		if s1, err := drive.LoadV1One(name, src); err == nil {
			o1 := drive.RunV1(s1, drive.PointFromModel(nil), &drive.RunState{Budget: realBudget(mo.Shared.Steps)})
			c.Eval(1)
			c.Count("differential_v1_runs", 1)
			if o1.Panic == nil && !o1.Budget {
				if d := compareTraces(toRefEvents(ro.State.Events), toRefEvents(o1.State.Events), true); d != "" {
					c.Violate("v1-v2-differ", fmt.Sprintf("real v2 (first) and real v1 (second) disagree: %s\n--- program\n%s", d, src), info)
					return
				}
				if (o1.Err != nil) != (ro.Err != nil) {
					c.Violate("v1-v2-differ-error", fmt.Sprintf("v2 error: %s; v1 error: %s\n--- program\n%s", drive.ErrString(ro.Err), drive.ErrString(o1.Err), src), info)
					return
				}
			}
		}
	}
	if c.WantSample() && mo.Unspecified == "" && len(src) < 500 && (workload == "stale" && i%37 == 5 || len(mo.Events) >= 4) {
		ev := []string{}
		for _, e := range mo.Events {
			ev = append(ev, e.String())
		}
		res := "ok"
		if mo.Err != nil {
			res = "error: " + mo.Err.Msg
		}
		c.Sample(map[string]any{"source": src, "trace": ev, "reference_outcome": res})
	}
}
