// Package gt is the generator-side syntax tree: the monitors build programs
// as *T values, print them to source text (recording the byte offset of every
// token), and convert the trees returned by the real parser back into *T so
// that both can be compared without going through the parser's own printer.
package gt

import (
	"fmt"
	"math"
	"sort"
	"strconv"
	"strings"
)

type Kind uint8

const (
	KInvalid Kind = iota
	KIdent
	KStr
	KInt
	KFloat
	KBool
	KNil
	KList
	KMap // Kids: k0, v0, k1, v1 ...
	KParen
	KUnary  // Op, Kids[0]
	KArith  // Op, Kids[0], Kids[1]
	KCond   // Op, Kids[0], Kids[1]
	KIn     // Kids[0] in Kids[1]
	KIndex  // S object name ("" + NoObj for `.[i]`), Kids: indices
	KAttr   // Kids[0] . Kids[1]
	KSlice  // Kids[0] object, Start/End/Step, Colon2
	KCall   // S name, Kids args (KAssign with Op "=" is a named argument)
	KAssign // Op, LHS, RHS
	KIf     // Conds[i] / Blocks[i]; HasElse, Else
	KFor    // Init, Cond, Loop (nil when omitted), Body
	KForIn  // Kids[0] loop variable (KIdent), Kids[1] iterable, Body
	KBreak
	KContinue
)

var kindNames = [...]string{"invalid", "ident", "str", "int", "float", "bool", "nil", "list", "map", "paren",
	"unary", "arith", "cond", "in", "index", "attr", "slice", "call", "assign", "if", "for", "forin", "break", "continue"}

func (k Kind) String() string { return kindNames[k] }

// T is one node. Only the fields relevant for the Kind are used.
type T struct {
	K Kind

	S  string  // identifier / string value / call name / index object name
	I  int64   // KInt
	F  float64 // KFloat
	B  bool    // KBool
	Op string

	Kids []*T

	// slices
	Start, End, Step *T
	Colon2           bool

	// index without object: `.[i]`
	NoObj bool

	// assignment
	LHS, RHS []*T

	// statements
	Conds   []*T
	Blocks  [][]*T
	HasElse bool
	Else    []*T
	Init    *T
	Cond    *T
	Loop    *T
	Body    []*T

	// Spell, when non-empty, is the exact source spelling the printer must
	// use for a literal or identifier (quote style, escapes, hex, keyword
	// case, back-quoting). It is not part of the tree's identity.
	Spell string

	// Pos holds token byte offsets by field name; filled by the printer for
	// generated trees and by FromAst for parsed trees. Not part of identity.
	Pos map[string]int
	// LC holds the (line, column) the parser stored next to each offset
	// (FromAst only).
	LC map[string][2]int
	// Span is [first byte, one past last byte) of the node in the printed
	// text (printer only).
	Span [2]int
	// Orig is the parser's own node a converted call came from (FromAst only;
	// lets a monitor inspect what the linker attached to that very call site).
	// Not part of identity.
	Orig any
}

func Ident(name string) *T     { return &T{K: KIdent, S: name} }
func Str(v string) *T          { return &T{K: KStr, S: v} }
func Int(v int64) *T           { return &T{K: KInt, I: v} }
func Float(v float64) *T       { return &T{K: KFloat, F: v} }
func Bool(v bool) *T           { return &T{K: KBool, B: v} }
func Nil() *T                  { return &T{K: KNil} }
func List(e ...*T) *T          { return &T{K: KList, Kids: e} }
func Map(kv ...*T) *T          { return &T{K: KMap, Kids: kv} }
func Paren(e *T) *T            { return &T{K: KParen, Kids: []*T{e}} }
func Unary(op string, e *T) *T { return &T{K: KUnary, Op: op, Kids: []*T{e}} }
func Call(name string, args ...*T) *T {
	return &T{K: KCall, S: name, Kids: args}
}
func Named(name string, v *T) *T {
	return &T{K: KAssign, Op: "=", LHS: []*T{Ident(name)}, RHS: []*T{v}}
}
func Index(obj string, idx ...*T) *T { return &T{K: KIndex, S: obj, Kids: idx} }
func Attr(o, a *T) *T                { return &T{K: KAttr, Kids: []*T{o, a}} }
func Slice(obj, start, end, step *T, colon2 bool) *T {
	return &T{K: KSlice, Kids: []*T{obj}, Start: start, End: end, Step: step, Colon2: colon2 || step != nil}
}
func Assign(op string, l, r *T) *T { return &T{K: KAssign, Op: op, LHS: []*T{l}, RHS: []*T{r}} }
func MultiAssign(l, r []*T) *T     { return &T{K: KAssign, Op: "=", LHS: l, RHS: r} }
func Break() *T                    { return &T{K: KBreak} }
func Continue() *T                 { return &T{K: KContinue} }
func ForIn(v string, it *T, body ...*T) *T {
	return &T{K: KForIn, Kids: []*T{Ident(v), it}, Body: body}
}
func For(init, cond, loop *T, body ...*T) *T {
	return &T{K: KFor, Init: init, Cond: cond, Loop: loop, Body: body}
}
func If(cond *T, block ...*T) *T {
	return &T{K: KIf, Conds: []*T{cond}, Blocks: [][]*T{block}}
}
func (t *T) Elif(cond *T, block ...*T) *T {
	t.Conds = append(t.Conds, cond)
	t.Blocks = append(t.Blocks, block)
	return t
}
func (t *T) ElseDo(block ...*T) *T {
	t.HasElse = true
	t.Else = block
	return t
}

var arithOps = map[string]bool{"+": true, "-": true, "*": true, "/": true, "%": true}

// Bin builds the node kind the parser uses for the operator.
func Bin(op string, l, r *T) *T {
	switch {
	case op == "in":
		return &T{K: KIn, Op: "in", Kids: []*T{l, r}}
	case arithOps[op]:
		return &T{K: KArith, Op: op, Kids: []*T{l, r}}
	default:
		return &T{K: KCond, Op: op, Kids: []*T{l, r}}
	}
}

// IsStmtOnly reports whether the node can only stand as a statement.
func (t *T) IsStmtOnly() bool {
	switch t.K {
	case KIf, KFor, KForIn, KBreak, KContinue, KAssign:
		return true
	}
	return false
}

// Equal compares two trees structurally (Spell, Pos and Span are ignored;
// NaN equals NaN; +0 and -0 floats are distinguished by sign bit only when
// strict is set).
func Equal(a, b *T) bool { return Diff(a, b) == "" }

// Diff returns "" when equal, else a short description of the first
// difference found.
func Diff(a, b *T) string {
	if eq(a, b) {
		return ""
	}
	return diff(a, b, "root")
}

func eqList(a, b []*T) bool {
	if len(a) != len(b) {
		return false
	}
	for i := range a {
		if !eq(a[i], b[i]) {
			return false
		}
	}
	return true
}

// eq is the allocation-free equality behind Diff.
func eq(a, b *T) bool {
	if a == nil || b == nil {
		return a == b
	}
	if a.K != b.K || a.S != b.S || a.I != b.I || a.B != b.B || a.Op != b.Op || a.Colon2 != b.Colon2 ||
		a.NoObj != b.NoObj || a.HasElse != b.HasElse || len(a.Blocks) != len(b.Blocks) {
		return false
	}
	if a.K == KFloat && !(math.IsNaN(a.F) && math.IsNaN(b.F)) && a.F != b.F {
		return false
	}
	if !eqList(a.Kids, b.Kids) || !eq(a.Start, b.Start) || !eq(a.End, b.End) || !eq(a.Step, b.Step) ||
		!eq(a.Init, b.Init) || !eq(a.Cond, b.Cond) || !eq(a.Loop, b.Loop) || !eqList(a.LHS, b.LHS) ||
		!eqList(a.RHS, b.RHS) || !eqList(a.Conds, b.Conds) || !eqList(a.Else, b.Else) || !eqList(a.Body, b.Body) {
		return false
	}
	for i := range a.Blocks {
		if !eqList(a.Blocks[i], b.Blocks[i]) {
			return false
		}
	}
	return true
}

func diffList(a, b []*T, path string) string {
	if len(a) != len(b) {
		return fmt.Sprintf("%s: %d vs %d children", path, len(a), len(b))
	}
	for i := range a {
		if d := diff(a[i], b[i], fmt.Sprintf("%s[%d]", path, i)); d != "" {
			return d
		}
	}
	return ""
}

func diff(a, b *T, path string) string {
	if a == nil || b == nil {
		if a == b {
			return ""
		}
		return fmt.Sprintf("%s: nil vs non-nil (%s / %s)", path, a.Dump(), b.Dump())
	}
	if a.K != b.K {
		return fmt.Sprintf("%s: kind %s vs %s (%s / %s)", path, a.K, b.K, a.Dump(), b.Dump())
	}
	if a.S != b.S || a.I != b.I || a.B != b.B || a.Op != b.Op || a.Colon2 != b.Colon2 || a.NoObj != b.NoObj || a.HasElse != b.HasElse {
		return fmt.Sprintf("%s: %s vs %s", path, a.Dump(), b.Dump())
	}
	if a.K == KFloat {
		if !(math.IsNaN(a.F) && math.IsNaN(b.F)) && a.F != b.F {
			return fmt.Sprintf("%s: float %v vs %v", path, a.F, b.F)
		}
	}
	if d := diffList(a.Kids, b.Kids, path+"."+a.K.String()); d != "" {
		return d
	}
	for _, x := range []struct {
		n    string
		p, q *T
	}{{"start", a.Start, b.Start}, {"end", a.End, b.End}, {"step", a.Step, b.Step},
		{"init", a.Init, b.Init}, {"cond", a.Cond, b.Cond}, {"loop", a.Loop, b.Loop}} {
		if d := diff(x.p, x.q, path+"."+x.n); d != "" {
			return d
		}
	}
	if d := diffList(a.LHS, b.LHS, path+".lhs"); d != "" {
		return d
	}
	if d := diffList(a.RHS, b.RHS, path+".rhs"); d != "" {
		return d
	}
	if d := diffList(a.Conds, b.Conds, path+".conds"); d != "" {
		return d
	}
	if len(a.Blocks) != len(b.Blocks) {
		return path + ": block count"
	}
	for i := range a.Blocks {
		if d := diffList(a.Blocks[i], b.Blocks[i], fmt.Sprintf("%s.block%d", path, i)); d != "" {
			return d
		}
	}
	if d := diffList(a.Else, b.Else, path+".else"); d != "" {
		return d
	}
	return diffList(a.Body, b.Body, path+".body")
}

// Dump renders a tree unambiguously (s-expression); used in reports.
func (t *T) Dump() string {
	if t == nil {
		return "<nil>"
	}
	var sb strings.Builder
	t.dump(&sb)
	return sb.String()
}

func dumpList(sb *strings.Builder, l []*T) {
	for _, k := range l {
		sb.WriteByte(' ')
		k.dump(sb)
	}
}

func (t *T) dump(sb *strings.Builder) {
	if t == nil {
		sb.WriteString("_")
		return
	}
	switch t.K {
	case KIdent:
		sb.WriteString("$" + t.S)
	case KStr:
		sb.WriteString(strconv.Quote(t.S))
	case KInt:
		sb.WriteString(strconv.FormatInt(t.I, 10))
	case KFloat:
		sb.WriteString(strconv.FormatFloat(t.F, 'g', -1, 64) + "f")
	case KBool:
		sb.WriteString(strconv.FormatBool(t.B))
	case KNil:
		sb.WriteString("nil")
	case KBreak:
		sb.WriteString("break")
	case KContinue:
		sb.WriteString("continue")
	default:
		sb.WriteString("(" + t.K.String())
		if t.Op != "" {
			sb.WriteString(" " + t.Op)
		}
		if t.K == KCall || t.K == KIndex {
			sb.WriteString(" " + t.S)
			if t.NoObj {
				sb.WriteString("<noobj>")
			}
		}
		dumpList(sb, t.Kids)
		if t.K == KSlice {
			sb.WriteString(" :")
			t.Start.dump(sb)
			sb.WriteString(" :")
			t.End.dump(sb)
			if t.Colon2 {
				sb.WriteString(" :")
				t.Step.dump(sb)
			}
		}
		if t.K == KAssign {
			sb.WriteString(" [")
			dumpList(sb, t.LHS)
			sb.WriteString(" ] [")
			dumpList(sb, t.RHS)
			sb.WriteString(" ]")
		}
		if t.K == KIf {
			for i := range t.Conds {
				sb.WriteString(" ?")
				t.Conds[i].dump(sb)
				sb.WriteString(" {")
				dumpList(sb, t.Blocks[i])
				sb.WriteString(" }")
			}
			if t.HasElse {
				sb.WriteString(" else {")
				dumpList(sb, t.Else)
				sb.WriteString(" }")
			}
		}
		if t.K == KFor {
			sb.WriteString(" ")
			t.Init.dump(sb)
			sb.WriteString(" ; ")
			t.Cond.dump(sb)
			sb.WriteString(" ; ")
			t.Loop.dump(sb)
		}
		if t.K == KFor || t.K == KForIn {
			sb.WriteString(" {")
			dumpList(sb, t.Body)
			sb.WriteString(" }")
		}
		sb.WriteString(")")
	}
}

// DumpStmts renders a statement list.
func DumpStmts(l []*T) string {
	var sb strings.Builder
	dumpList(&sb, l)
	return strings.TrimSpace(sb.String())
}

// Walk visits every node (pre-order), including statement blocks.
func Walk(t *T, f func(*T)) {
	if t == nil {
		return
	}
	f(t)
	for _, k := range t.Kids {
		Walk(k, f)
	}
	Walk(t.Start, f)
	Walk(t.End, f)
	Walk(t.Step, f)
	for _, k := range t.LHS {
		Walk(k, f)
	}
	for _, k := range t.RHS {
		Walk(k, f)
	}
	for i := range t.Conds {
		Walk(t.Conds[i], f)
		for _, s := range t.Blocks[i] {
			Walk(s, f)
		}
	}
	for _, s := range t.Else {
		Walk(s, f)
	}
	Walk(t.Init, f)
	Walk(t.Cond, f)
	Walk(t.Loop, f)
	for _, s := range t.Body {
		Walk(s, f)
	}
}

func WalkStmts(l []*T, f func(*T)) {
	for _, s := range l {
		Walk(s, f)
	}
}

// Count returns the number of nodes.
func Count(l []*T) int {
	n := 0
	WalkStmts(l, func(*T) { n++ })
	return n
}

// PosKeys returns the sorted position field names of a node.
func (t *T) PosKeys() []string {
	ks := make([]string, 0, len(t.Pos))
	for k := range t.Pos {
		ks = append(ks, k)
	}
	sort.Strings(ks)
	return ks
}

// Clone deep-copies a tree (Pos/Span are dropped).
func Clone(t *T) *T {
	if t == nil {
		return nil
	}
	c := *t
	c.Pos, c.LC = nil, nil
	c.Kids = cloneList(t.Kids)
	c.Start, c.End, c.Step = Clone(t.Start), Clone(t.End), Clone(t.Step)
	c.LHS, c.RHS = cloneList(t.LHS), cloneList(t.RHS)
	c.Conds = cloneList(t.Conds)
	if t.Blocks != nil {
		c.Blocks = make([][]*T, len(t.Blocks))
		for i := range t.Blocks {
			c.Blocks[i] = cloneList(t.Blocks[i])
			if c.Blocks[i] == nil {
				c.Blocks[i] = []*T{}
			}
		}
	}
	c.Else = cloneList(t.Else)
	c.Init, c.Cond, c.Loop = Clone(t.Init), Clone(t.Cond), Clone(t.Loop)
	c.Body = cloneList(t.Body)
	return &c
}

func cloneList(l []*T) []*T {
	if l == nil {
		return nil
	}
	o := make([]*T, len(l))
	for i := range l {
		o[i] = Clone(l[i])
	}
	return o
}

func CloneStmts(l []*T) []*T { return cloneList(l) }

// DiffStmts compares two statement lists.
func DiffStmts(a, b []*T) string {
	if eqList(a, b) {
		return ""
	}
	return diffList(a, b, "stmts")
}
