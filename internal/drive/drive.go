// Package drive runs the real platypus code under observation: probe
// builtins, the monitor Signal, step-hook adapters, panic capture.
package drive

import (
	"fmt"
	"os"
	"runtime/debug"
	"sync"
	"time"

	"github.com/GuanceCloud/platypus/pkg/ast"
	"github.com/GuanceCloud/platypus/pkg/engine"
	plrt "github.com/GuanceCloud/platypus/pkg/engine/runtime"
	"github.com/GuanceCloud/platypus/pkg/engine/runtimev2"
	"github.com/GuanceCloud/platypus/pkg/errchain"
	"github.com/GuanceCloud/platypus/pkg/inimpl/guancecloud/funcs"
	"github.com/GuanceCloud/platypus/pkg/inimpl/guancecloud/input"
	"github.com/GuanceCloud/platypus/pkg/parser"
	"go.uber.org/zap"

	"verif/internal/ref"
)

type nopLogger struct{}

func (nopLogger) Debug(...interface{})          {}
func (nopLogger) Debugf(string, ...interface{}) {}
func (nopLogger) Info(...interface{})           {}
func (nopLogger) Infof(string, ...interface{})  {}
func (nopLogger) Warn(...interface{})           {}
func (nopLogger) Warnf(string, ...interface{})  {}
func (nopLogger) Error(...interface{})          {}
func (nopLogger) Errorf(string, ...interface{}) {}
func (nopLogger) Fatal(...interface{})          {}
func (nopLogger) Fatalf(string, ...interface{}) {}

var initOnce sync.Once

// Init silences the package loggers and installs the step hooks. Safe to
// call many times.
func Init() {
	initOnce.Do(func() {
		parser.InitLog(nopLogger{})
		funcs.InitLog(zap.NewNop().Sugar())
		plrt.VerifStepHook = stepV1
		runtimev2.VerifStepHook = stepV2
	})
}

// BudgetExceeded is the sentinel panic raised by the step hook.
type BudgetExceeded struct{}

// maxProbeString bounds the strings a real run may show to a probe. The
// reference run refuses to build anything larger (ref.TooBig), so a real run
// only gets there when the reference stopped early (outcome not fixed by the
// documents, model budget) or when the two diverged; either way the run is
// ended like an exhausted budget before doubling strings exhaust the
// worker's address space.
const maxProbeString = 1 << 20

func (rs *RunState) guardSize(vs []ref.Val) {
	for _, v := range vs {
		if s, ok := v.V.(string); ok && len(s) > maxProbeString {
			rs.TooBig = true
			panic(BudgetExceeded{})
		}
	}
}

// Event recorded by a real run.
type Event struct {
	Kind   string
	Script string
	ID     any
	Vals   []ref.Val
	Step   int64 // value of the step counter when the event was recorded
	Poll   int   // number of polls answered so far
}

// RunState is the monitor's Signal object and per-run recorder.
type RunState struct {
	Events []Event
	Steps  int64
	Stmts  int64
	Iters  int64
	Budget int64
	TooBig bool  // a probe saw a string above maxProbeString; the run was ended
	Ticks  int64 // tick() calls so far

	Polls       int
	FireAtPoll  int   // >0: ExitSignal answers true from the k-th poll on
	FireAtStep  int64 // >0: ExitSignal answers Steps >= FireAtStep
	FiredPoll   int   // index of the first poll that answered true
	FiredStep   int64 // step counter at that poll
	StepAtPoll  []int64
	Yield       func(steps int64) // optional scheduling noise (C16)
	Tasks       map[*plrt.Task]int
	StepsAtFire int64
	// StmtsAfterFire counts statements STARTED after the signal was observed true.
	StmtsAfterFire int
	// GraceAfterFire: step allowance after the first true answer (0 = none).
	GraceAfterFire int64
}

// ExitSignal implements runtime.Signal and runtimev2.Signal.
func (rs *RunState) ExitSignal() bool {
	rs.Polls++
	fire := false
	if rs.FireAtPoll > 0 && rs.Polls >= rs.FireAtPoll {
		fire = true
	}
	if rs.FireAtStep > 0 && rs.Steps >= rs.FireAtStep {
		fire = true
	}
	if fire && rs.FiredPoll == 0 {
		rs.FiredPoll = rs.Polls
		rs.FiredStep = rs.Steps
		if rs.GraceAfterFire > 0 {
			// bounded progress in virtual time: the run must end within
			// GraceAfterFire steps of the first poll that answered true
			rs.Budget = rs.Steps + rs.GraceAfterFire
		}
	}
	return fire
}

func (rs *RunState) step(kind int) {
	rs.Steps++
	switch kind {
	case 1:
		rs.Stmts++
		if rs.FiredPoll > 0 {
			rs.StmtsAfterFire++
		}
	case 2:
		rs.Iters++
	}
	if rs.Yield != nil {
		rs.Yield(rs.Steps)
	}
	if rs.Budget > 0 && rs.Steps > rs.Budget {
		panic(BudgetExceeded{})
	}
}

func stepV1(ctx *plrt.Task, kind int) {
	if rs := stateV1(ctx); rs != nil {
		rs.step(kind)
	}
}

// Concurrent is set by checks that run scripts on several goroutines at once;
// the monitor then identifies a run only through the task's own signal.
var Concurrent bool

// soleV1 is the run in progress when runs are strictly sequential: the
// fallback identity of a v1 run whose task no longer hands back the signal
// object it was given (a tree may wrap or replace it), so that the virtual
// clock, the budget and the event recorder keep working.
var soleV1 *RunState

const v2Key = runtimev2.TaskP("verif.rs")

func stepV2(ctx *runtimev2.Task, kind int) {
	if v, ok := ctx.PValue(v2Key); ok {
		if rs, ok := v.(*RunState); ok {
			rs.step(kind)
		}
	}
}

func stateV1(ctx *plrt.Task) *RunState {
	if rs, ok := ctx.Signal().(*RunState); ok && rs != nil {
		return rs
	}
	if !Concurrent {
		return soleV1
	}
	return nil
}

func stateV2(ctx *runtimev2.Task) *RunState {
	if v, ok := ctx.PValue(v2Key); ok {
		rs, _ := v.(*RunState)
		return rs
	}
	return nil
}

// TypeOfD maps a DType to the model's type tag.
func TypeOfD(d ast.DType) ref.Type {
	switch d {
	case ast.Void:
		return ref.TVoid
	case ast.Nil:
		return ref.TNil
	case ast.Bool:
		return ref.TBool
	case ast.Int:
		return ref.TInt
	case ast.Float:
		return ref.TFloat
	case ast.String:
		return ref.TStr
	case ast.List:
		return ref.TList
	case ast.Map:
		return ref.TMap
	}
	return ref.TInvalid
}

// ---- v1 probes ----

func okCheck(*plrt.Task, *ast.CallExpr) *errchain.PlError { return nil }

func evalArgs(ctx *plrt.Task, e *ast.CallExpr) ([]ref.Val, *errchain.PlError) {
	out := make([]ref.Val, 0, len(e.Param))
	for _, a := range e.Param {
		v, d, err := plrt.RunStmt(ctx, a)
		if err != nil {
			return nil, err
		}
		out = append(out, ref.Val{V: ref.Copy(v), T: TypeOfD(d)})
	}
	return out, nil
}

func v1P(ctx *plrt.Task, e *ast.CallExpr) *errchain.PlError {
	vs, err := evalArgs(ctx, e)
	if err != nil {
		return err
	}
	if rs := stateV1(ctx); rs != nil {
		rs.guardSize(vs)
		rs.Events = append(rs.Events, Event{Kind: "p", Script: ctx.Name(), Vals: vs, Step: rs.Steps, Poll: rs.Polls})
	}
	return nil
}

func v1T(ctx *plrt.Task, e *ast.CallExpr) *errchain.PlError {
	if len(e.Param) != 2 {
		return plrt.NewRunError(ctx, "t() needs two arguments", e.NamePos)
	}
	id, _, err := plrt.RunStmt(ctx, e.Param[0])
	if err != nil {
		return err
	}
	v, d, err := plrt.RunStmt(ctx, e.Param[1])
	if err != nil {
		return err
	}
	if rs := stateV1(ctx); rs != nil {
		rs.guardSize([]ref.Val{{V: v}})
		rs.Events = append(rs.Events, Event{Kind: "t", Script: ctx.Name(), ID: id,
			Vals: []ref.Val{{V: ref.Copy(v), T: TypeOfD(d)}}, Step: rs.Steps, Poll: rs.Polls})
	}
	if d != ast.Void {
		ctx.Regs.ReturnAppend(v, d)
	}
	return nil
}

func v1Boom(ctx *plrt.Task, e *ast.CallExpr) *errchain.PlError {
	return plrt.NewRunError(ctx, "boom", e.NamePos)
}

func v1Void(ctx *plrt.Task, e *ast.CallExpr) *errchain.PlError { return nil }

func v1Tick(ctx *plrt.Task, e *ast.CallExpr) *errchain.PlError {
	n := int64(0)
	if rs := stateV1(ctx); rs != nil {
		rs.Ticks++
		n = rs.Ticks
	}
	ctx.Regs.ReturnAppend(n, ast.Int)
	return nil
}

// V1Funcs returns the shipped builtins plus the probes.
func V1Funcs() (map[string]plrt.FuncCall, map[string]plrt.FuncCheck) {
	call := map[string]plrt.FuncCall{}
	check := map[string]plrt.FuncCheck{}
	for k, v := range funcs.FuncsMap {
		call[k] = v
	}
	for k, v := range funcs.FuncsCheckMap {
		check[k] = v
	}
	for k, v := range map[string]plrt.FuncCall{"p": v1P, "t": v1T, "boom": v1Boom, "void": v1Void, "tick": v1Tick} {
		call[k] = v
		check[k] = okCheck
	}
	return call, check
}

var v1Call, v1Check = V1Funcs()

// LoadV1 loads a script set with the shipped builtins and the probes.
func LoadV1(scripts map[string]string) (map[string]*plrt.Script, map[string]error) {
	Init()
	return engine.ParseScript(scripts, v1Call, v1Check)
}

// LoadV1One loads a single script named name.
func LoadV1One(name, src string) (*plrt.Script, error) {
	ok, errs := LoadV1(map[string]string{name: src})
	if e := errs[name]; e != nil {
		return nil, e
	}
	return ok[name], nil
}

// Outcome of a real run.
type Outcome struct {
	Err    *errchain.PlError
	Panic  any
	Stack  string
	Budget bool
	State  *RunState
}

// RunV1 runs a loaded script on pt under observation.
func RunV1(s *plrt.Script, pt *input.Point, rs *RunState) (out Outcome) {
	Init()
	out.State = rs
	defer func() {
		if r := recover(); r != nil {
			if _, ok := r.(BudgetExceeded); ok {
				out.Budget = true
				return
			}
			out.Panic = r
			out.Stack = string(debug.Stack())
		}
	}()
	if !Concurrent {
		prev := soleV1
		soleV1 = rs
		defer func() { soleV1 = prev }()
	}
	out.Err = s.Run(pt, rs)
	return
}

// NewPoint builds a real point from model data (maps are copied).
func NewPoint(m string, tags map[string]string, fields map[string]any, t time.Time) *input.Point {
	tg := make(map[string]string, len(tags))
	for k, v := range tags {
		tg[k] = v
	}
	fl := make(map[string]any, len(fields))
	for k, v := range fields {
		fl[k] = v
	}
	return input.InitPt(&input.Point{}, m, tg, fl, t)
}

// PointFromModel builds a real point equal to the model point.
func PointFromModel(p *ref.Point) *input.Point {
	if p == nil {
		return NewPoint("", nil, nil, time.Unix(0, 0))
	}
	return NewPoint(p.Measurement, p.Tags, p.Fields, p.Time)
}

// ---- v2 probes ----

func v2ok(*runtimev2.Task, *ast.CallExpr) *errchain.PlError { return nil }

func v2eval(ctx *runtimev2.Task, a *ast.Node) (runtimev2.V, *errchain.PlError) {
	if err := runtimev2.RunExpr(ctx, a); err != nil {
		return runtimev2.V{}, err
	}
	v, e := ctx.Regs.GetRet()
	if e != nil {
		return runtimev2.V{}, runtimev2.NewRunError(ctx, e.Error(), a.StartPos())
	}
	// a well-behaved host function consumes the argument it evaluated
	ctx.Regs.Reset()
	return v, nil
}

func v2P(ctx *runtimev2.Task, e *ast.CallExpr) *errchain.PlError {
	vs := make([]ref.Val, 0, len(e.Param))
	for _, a := range e.Param {
		v, err := v2eval(ctx, a)
		if err != nil {
			return err
		}
		vs = append(vs, ref.Val{V: ref.Copy(v.V), T: TypeOfD(v.T)})
	}
	if rs := stateV2(ctx); rs != nil {
		rs.guardSize(vs)
		rs.Events = append(rs.Events, Event{Kind: "p", Vals: vs, Step: rs.Steps, Poll: rs.Polls})
	}
	return nil
}

func v2T(ctx *runtimev2.Task, e *ast.CallExpr) *errchain.PlError {
	if len(e.Param) != 2 {
		return runtimev2.NewRunError(ctx, "t() needs two arguments", e.NamePos)
	}
	id, err := v2eval(ctx, e.Param[0])
	if err != nil {
		return err
	}
	v, err := v2eval(ctx, e.Param[1])
	if err != nil {
		return err
	}
	if rs := stateV2(ctx); rs != nil {
		rs.guardSize([]ref.Val{{V: v.V}})
		rs.Events = append(rs.Events, Event{Kind: "t", ID: id.V,
			Vals: []ref.Val{{V: ref.Copy(v.V), T: TypeOfD(v.T)}}, Step: rs.Steps, Poll: rs.Polls})
	}
	ctx.Regs.ReturnAppend(v)
	return nil
}

// V2Funcs returns the probe function table for the v2 interpreter. void()
// deliberately leaves the registers alone: "returns nothing" means the
// function does not touch them (that is what a host function that has
// nothing to return does).
func V2Funcs() map[string]*runtimev2.Fn {
	return map[string]*runtimev2.Fn{
		"p": {Call: v2P, CallCheck: v2ok},
		"t": {Call: v2T, CallCheck: v2ok},
		"boom": {Call: func(ctx *runtimev2.Task, e *ast.CallExpr) *errchain.PlError {
			return runtimev2.NewRunError(ctx, "boom", e.NamePos)
		}, CallCheck: v2ok},
		"void": {Call: func(ctx *runtimev2.Task, e *ast.CallExpr) *errchain.PlError { return nil }, CallCheck: v2ok},
		"tick": {Call: func(ctx *runtimev2.Task, e *ast.CallExpr) *errchain.PlError {
			n := int64(0)
			if rs := stateV2(ctx); rs != nil {
				rs.Ticks++
				n = rs.Ticks
			}
			ctx.Regs.ReturnAppend(runtimev2.V{V: n, T: ast.Int})
			return nil
		}, CallCheck: v2ok},
		"sink":  declaredSink(sinkParams),
		"vsink": declaredSink(vsinkParams),
		"multi": {Call: func(ctx *runtimev2.Task, e *ast.CallExpr) *errchain.PlError {
			ctx.Regs.ReturnAppend(runtimev2.V{V: int64(101), T: ast.Int}, runtimev2.V{V: "m2", T: ast.String})
			return nil
		}, CallCheck: v2ok},
		"len": {Call: func(ctx *runtimev2.Task, e *ast.CallExpr) *errchain.PlError {
			if len(e.Param) != 1 {
				return runtimev2.NewRunError(ctx, "len() needs one argument", e.NamePos)
			}
			v, err := v2eval(ctx, e.Param[0])
			if err != nil {
				return err
			}
			n := int64(0)
			switch x := v.V.(type) {
			case string:
				n = int64(len(x))
			case []any:
				n = int64(len(x))
			case map[string]any:
				n = int64(len(x))
			}
			ctx.Regs.ReturnAppend(runtimev2.V{V: n, T: ast.Int})
			return nil
		}, CallCheck: v2ok},
	}
}

// declared-parameter probes: host functions that return nothing and fetch
// their arguments through the library's own GetParam (fixed + optional
// parameters, and a variadic one).
var sinkParams = []*runtimev2.Param{{Name: "a"}, {Name: "b", Val: func() any { return int64(0) }}}
var vsinkParams = []*runtimev2.Param{{Name: "rest", Variable: true}}

func declaredSink(params []*runtimev2.Param) *runtimev2.Fn {
	return &runtimev2.Fn{
		CallCheck: func(ctx *runtimev2.Task, e *ast.CallExpr) *errchain.PlError {
			return runtimev2.CheckPassParam(ctx, e, params)
		},
		Call: func(ctx *runtimev2.Task, e *ast.CallExpr) *errchain.PlError {
			for i := range params {
				if _, err := runtimev2.GetParam(ctx, e, params, i); err != nil {
					return err
				}
			}
			return nil
		},
	}
}

var v2Funcs = V2Funcs()

// LoadV2 parses and checks a v2 script with the probe table.
func LoadV2(name, src string) (*runtimev2.Script, error) {
	Init()
	return engine.ParseV2(name, src, v2Funcs)
}

// RunV2 runs a loaded v2 script under observation.
func RunV2(s *runtimev2.Script, rs *RunState) (out Outcome) {
	Init()
	out.State = rs
	defer func() {
		if r := recover(); r != nil {
			if _, ok := r.(BudgetExceeded); ok {
				out.Budget = true
				return
			}
			out.Panic = r
			out.Stack = string(debug.Stack())
		}
	}()
	out.Err = s.Run(rs, runtimev2.WithPrivate(map[runtimev2.TaskP]any{v2Key: rs}))
	return
}

// CaptureStderr runs f with os.Stderr redirected to a temp file and returns
// what was written.
func CaptureStderr(f func()) string {
	return captureFD(&os.Stderr, f)
}

// CaptureStdout runs f with os.Stdout redirected to a temp file.
func CaptureStdout(f func()) string {
	return captureFD(&os.Stdout, f)
}

var capMu sync.Mutex

func captureFD(slot **os.File, f func()) string {
	capMu.Lock()
	defer capMu.Unlock()
	tmp, err := os.CreateTemp("", "verif-cap")
	if err != nil {
		f()
		return ""
	}
	// unlinked at once: the open descriptor stays readable and nothing is left
	// behind when f kills the process (fatal error, watchdog)
	os.Remove(tmp.Name())
	old := *slot
	*slot = tmp
	func() {
		defer func() { *slot = old }()
		f()
	}()
	tmp.Seek(0, 0)
	b := make([]byte, 0, 256)
	buf := make([]byte, 4096)
	for {
		n, err := tmp.Read(buf)
		b = append(b, buf[:n]...)
		if err != nil || n == 0 {
			break
		}
	}
	tmp.Close()
	return string(b)
}

// ErrString renders an error for reports.
func ErrString(e *errchain.PlError) string {
	if e == nil {
		return "<nil>"
	}
	return fmt.Sprintf("%s %+v", e.Err, e.PosChain)
}
