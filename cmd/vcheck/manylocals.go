package main

import (
	"fmt"
	"strings"

	"verif/internal/drive"
	"verif/internal/gt"
)

// many-locals: loops whose body creates 1..40 new variables per iteration
// (the loop's scope is cleared and refilled each time round), over every
// loop form and 1..3 iterations. Shared by C01 (no crash), C03 (v1 trace)
// and C18 (v2 trace).
var manyLocalsLoops = []string{
	"for e in [1, 2, 3][:N] {\nBODY}\n",
	"for e in \"abc\"[:N] {\nBODY}\n",
	"for e in {\"k\": 1} {\nBODY}\n",
	"for i = 0; i < N; i = i + 1 {\n  e = i\nBODY}\n",
	"for i = 0; i < N; i = i + 1 {\n  e = i\n  if true {\nBODY  }\n}\n",
	"for o in [1, 2][:N] {\n  for e in [7, 8] {\nBODY  }\n  p(o)\n}\n",
}
var manyLocalsCounts = []int{1, 7, 8, 9, 10, 16, 40}

func manyLocalsN() int64 { return int64(len(manyLocalsLoops) * len(manyLocalsCounts) * 3) }

func manyLocalsProgram(i int64) []*gt.T {
	iters := int(i%3) + 1
	i /= 3
	cnt := manyLocalsCounts[int(i)%len(manyLocalsCounts)]
	loop := manyLocalsLoops[int(i)/len(manyLocalsCounts)]
	var body strings.Builder
	for k := 0; k < cnt; k++ {
		fmt.Fprintf(&body, "    v%d = %d\n", k, k)
	}
	fmt.Fprintf(&body, "    p(e, v0, v%d)\n", cnt-1)
	text := "s = 0\n" + strings.ReplaceAll(strings.ReplaceAll(loop, "BODY", body.String()), "N", fmt.Sprint(iters)) + "p(\"end\", s)\n"
	o := drive.Parse("many-locals", text)
	if o.Err != nil {
		panic("many-locals program does not parse: " + text + ": " + o.Err.Error())
	}
	l, err := gt.FromStmts(o.Stmts)
	if err != nil {
		panic(err)
	}
	return gt.CloneStmts(l)
}
