package main

import (
	"fmt"
	"math/rand"
	"sort"
	"strconv"
	"strings"
	"time"

	"verif/internal/drive"
	"verif/internal/mon"
	"verif/internal/ref"
)

// map-iteration (C03 on v1, C18 on v2): for-in over a map visits every key
// exactly once, in an order the documents leave open. The general trace
// comparison cannot be used on multi-key maps (there is no unique trace), so
// these programs have a closed-form oracle instead: the MULTISET of probe
// events inside the loop is determined, and everything after the loop is
// ordered again.

var mapIterKeys = []string{"a", "b", "k", "", "key with space", "ü", "世", "0", "z9", "A"}

type mapIterCase struct {
	Src      string
	Unorder  []string // expected loop events, as a multiset
	AnyOneOf []string // exactly one event, any of these (break after the first visit)
	Tail     []string // expected events after the loop, in order
	Form     string
}

func lit(s string) string { return strconv.Quote(s) }

func evStr(vals ...ref.Val) string {
	e := ref.Event{Kind: "p", Vals: vals}
	return e.String()
}

func sv(s string) ref.Val { return ref.Val{V: s, T: ref.TStr} }
func iv(i int64) ref.Val  { return ref.Val{V: i, T: ref.TInt} }

func buildMapIter(r *rand.Rand) mapIterCase {
	n := r.Intn(7)
	perm := r.Perm(len(mapIterKeys))
	keys := make([]string, n)
	var parts []string
	for j := 0; j < n; j++ {
		keys[j] = mapIterKeys[perm[j]]
		parts = append(parts, lit(keys[j])+": "+fmt.Sprint(j+1))
	}
	src := "m = {" + strings.Join(parts, ", ") + "}\n"
	if r.Intn(4) == 0 && n > 0 {
		// the same map built by assignments
		src = "m = {}\n"
		for j, k := range keys {
			src += "m[" + lit(k) + "] = " + fmt.Sprint(j+1) + "\n"
		}
	}
	cs := mapIterCase{}
	end := evStr(sv("end"))
	switch f := r.Intn(7); f {
	case 0:
		cs.Form = "visit"
		src += "for k in m {\n  p(k)\n}\np(\"end\")\n"
		for _, k := range keys {
			cs.Unorder = append(cs.Unorder, evStr(sv(k)))
		}
		cs.Tail = []string{end}
	case 1:
		cs.Form = "continue-on-one-key"
		skip := "nosuch"
		if n > 0 {
			skip = keys[r.Intn(n)]
		}
		src += "for k in m {\n  if k == " + lit(skip) + " {\n    continue\n  }\n  p(k)\n}\np(\"end\")\n"
		for _, k := range keys {
			if k != skip {
				cs.Unorder = append(cs.Unorder, evStr(sv(k)))
			}
		}
		cs.Tail = []string{end}
	case 2:
		cs.Form = "key-and-value"
		src += "for k in m {\n  p(k, m[k])\n}\np(\"end\")\n"
		for j, k := range keys {
			cs.Unorder = append(cs.Unorder, evStr(sv(k), iv(int64(j+1))))
		}
		cs.Tail = []string{end}
	case 3:
		cs.Form = "nested-product"
		src += "m2 = {\"x\": 1, \"y\": 2, \"w\": 3}\nfor a in m {\n  for b in m2 {\n    p(a, b)\n  }\n}\np(\"end\")\n"
		for _, k := range keys {
			for _, b := range []string{"x", "y", "w"} {
				cs.Unorder = append(cs.Unorder, evStr(sv(k), sv(b)))
			}
		}
		cs.Tail = []string{end}
	case 4:
		cs.Form = "count"
		src += "n = 0\nfor k in m {\n  n = n + 1\n}\np(n)\n"
		cs.Tail = []string{evStr(iv(int64(n)))}
	case 5:
		cs.Form = "write-every-value"
		src += "for k in m {\n  m[k] = m[k] * 10\n}\ns = 0\nfor k in m {\n  s = s + m[k]\n}\np(s, len(m))\n"
		cs.Tail = []string{evStr(iv(int64(10*n*(n+1)/2)), iv(int64(n)))}
	default:
		cs.Form = "break-after-first"
		src += "for k in m {\n  p(k)\n  break\n}\np(\"end\")\n"
		for _, k := range keys {
			cs.AnyOneOf = append(cs.AnyOneOf, evStr(sv(k)))
		}
		cs.Tail = []string{end}
	}
	cs.Src = src
	return cs
}

// checkMapIter compares the recorded events with the closed-form expectation.
func checkMapIter(cs mapIterCase, events []drive.Event) string {
	got := make([]string, len(events))
	for i, e := range events {
		got[i] = ref.Event{Kind: e.Kind, Vals: e.Vals}.String()
	}
	nloop := len(cs.Unorder)
	if cs.AnyOneOf != nil {
		nloop = 1
	}
	if len(got) != nloop+len(cs.Tail) {
		return fmt.Sprintf("%d events recorded, %d expected (%d from the loop + %d after it)\n  recorded: %v", len(got), nloop+len(cs.Tail), nloop, len(cs.Tail), got)
	}
	loop := append([]string(nil), got[:nloop]...)
	if cs.AnyOneOf != nil {
		ok := false
		for _, a := range cs.AnyOneOf {
			ok = ok || a == loop[0]
		}
		if !ok {
			return fmt.Sprintf("the loop visited %s, which is not a key of the map %v", loop[0], cs.AnyOneOf)
		}
	} else {
		want := append([]string(nil), cs.Unorder...)
		sort.Strings(want)
		sort.Strings(loop)
		for i := range want {
			if want[i] != loop[i] {
				return fmt.Sprintf("the loop's events are not one per key\n  recorded (sorted): %v\n  expected (sorted): %v", loop, want)
			}
		}
	}
	for i, t := range cs.Tail {
		if got[nloop+i] != t {
			return fmt.Sprintf("after the loop: recorded %s, expected %s", got[nloop+i], t)
		}
	}
	return ""
}

func runMapIter(c *mon.Ctx, v2 bool) {
	cs := buildMapIter(c.R)
	info := map[string]any{"source": cs.Src, "form": cs.Form}
	var events []drive.Event
	var o drive.Outcome
	if v2 {
		s, err := drive.LoadV2("mapiter.p", cs.Src)
		if err != nil {
			c.Violate("valid-program-rejected", fmt.Sprintf("rejected at load: %v\n%s", err, cs.Src), info)
			return
		}
		rs := &drive.RunState{Budget: 20000}
		o = drive.RunV2(s, rs)
		events = rs.Events
	} else {
		s, err := drive.LoadV1One("mapiter.p", cs.Src)
		if err != nil {
			c.Violate("valid-program-rejected", fmt.Sprintf("rejected at load: %v\n%s", err, cs.Src), info)
			return
		}
		rs := &drive.RunState{Budget: 20000}
		o = drive.RunV1(s, drive.NewPoint("m", nil, map[string]any{"message": "x"}, time.Unix(1700000000, 0)), rs)
		events = rs.Events
	}
	c.Eval(1)
	c.Nontrivial(cs.Src)
	c.Cell("map_iteration_forms", cs.Form)
	c.Count("map_iteration_keys_"+fmt.Sprint(len(cs.Unorder)+len(cs.AnyOneOf)), 1)
	switch {
	case o.Panic != nil:
		c.Violate("panic", fmt.Sprintf("the interpreter panicked: %v\n%s\n%s", o.Panic, firstN(o.Stack, 20), cs.Src), info)
	case o.Budget:
		c.Violate("runaway", "the run was still going after 20000 steps\n"+cs.Src, info)
	case o.Err != nil:
		c.Violate("unexpected-error", fmt.Sprintf("the run ended in %s\n%s", drive.ErrString(o.Err), cs.Src), info)
	default:
		if d := checkMapIter(cs, events); d != "" {
			c.Violate("map-iteration", d+"\n--- program\n"+cs.Src, info)
		}
	}
}
